"""C09 - antenna / antenna-system hit bookkeeping under every history.

Exact differential run of lean/PyrexVerif/D/AntennaSM.lean (driver lean/Drivers/C09.lean) against
pyrex.antenna.Antenna, DipoleAntenna and pyrex.detector.AntennaSystem: random histories of
receive / all_waveforms / waveforms / is_hit / full_waveform / is_hit_during / make_noise / clear on
dyadic-rational grids and values, so every float operation of the implementation is exact and the
comparison with the model's rationals is `==`.  The antenna response (`apply_response`, property C08) is
replaced by a copy so that `receive` stores exactly what it is given; the noise class
(`pyrex.antenna.ThermalNoise`, property C17) is replaced by a deterministic function of
(realisation number, absolute time)."""
from fractions import Fraction

import framework as fw

LEVEL = "proof"
TECHNIQUE = "Lean 4 state-machine refinement proof + exact differential run over random histories"
RULE = ("random histories (<= 20 ops) of receive / all_waveforms / waveforms / is_hit / full_waveform / "
        "is_hit_during / make_noise / clear(reset) on Antenna (noiseless and noisy with a patched deterministic "
        "noise class), DipoleAntenna (threshold trigger) and AntennaSystem (lead-in 0, 2.5 dt, 10 dt; halving or "
        "pass-through, pedestal-subtracting, echo, clipping or rectifying front end; optional system-level trigger; built from an instance or "
        "via class + setup_antenna; inner-antenna queries interleaved); is_hit_mc_truth; receive of two polarisation "
        "components in one call, of an all-empty reception (EmptySignal, [EmptySignal, EmptySignal]) and of "
        "[EmptySignal, Signal]; receptions REFUSED with ValueError at the second or third component (other time grid, "
        "power / undefined value type, raising response) which must leave everything unchanged; the list returned by "
        "`waveforms` mutated (clear / reverse / append / del / extend) or kept across later operations; threshold 0 (a noisy dipole triggers on noise); function-backed signals that are non-zero "
        "outside their window (tone, tail, chirp) on a DipoleAntenna / system with the real response, compared between "
        "twins with different query histories; `times` arguments as float array / list / tuple / integer array; plus real-thermal-noise histories (seeded numpy RNG, "
        "Antenna / DipoleAntenna / AntennaSystem, make_noise / full_waveform / receive / all_waveforms / clear on 2-4 "
        "windows lying up to 1000 window lengths apart and revisited, tolerance 1e-9); signal windows overlapping, disjoint (far "
        "away, exercising the skip test), nested, half-sample shifted and with different sample spacings; a "
        "history is non-trivial when it has a query after a receive; distinct = distinct (configuration, history)")
LEVEL_TEXT = ("theorems over all histories of the Lean state machine (unbounded induction); the state machine is "
              "tied to the code by an exact (bit-for-bit rational) differential run of every operation output and "
              "every private cache length")
LEVEL_NOTE = ("assumed: numpy.interp is piecewise-linear interpolation with left=right=0; apply_response (C08) and "
              "the thermal-noise class (C17) are replaced by exact stand-ins in the exact run. "
              "The clause 'sum of the received signals, each passed through the front end' (C09_system_full_is_sum) is "
              "decided for ADDITIVE front ends only (hypothesis LinearFE): of the shipped ones that is the base class's "
              "pass-through AntennaSystem.front_end; the ARA and ARIANNA front ends clip and the IREX one takes an "
              "envelope, and for such a front end the clause cannot hold as worded because the electronics act on the "
              "summed voltage (C09_system_sum_fails_for_clipping is the kernel-checked witness). What holds for EVERY "
              "front end is C09_system_full_is_front_end_of_sum (waveform = front_end(antenna waveform on the lead-in "
              "grid), re-gridded) and the search checks exactly that with clipping and rectifying front ends. "
              "Windows of fewer than two samples, empty signals, repeated or backward-running times and lead-in grids "
              "with a negative sample count make the code raise IndexError / ValueError / OverflowError: the model "
              "rejects the same inputs (C09_rejected_inputs, C09_hypotheses_are_accepted; compared on every run). "
              "A received signal whose times are not increasing but which does not trip those checks is silently "
              "mis-interpolated by numpy.interp - outside the property ('signal windows'). The exact run uses dyadic "
              "times/values; decimal-fraction grids (0.1, 1/3, 0.3, 0.7 ns, random float values) are decided by the "
              "tolerance search (1e-12) only. Histories are <= 20 operations in the run (unbounded in the theorems). "
              "Received signals are values (sample lists) in the Lean model; that a query leaves function-backed stored "
              "signals, the caller's objects and other antennas sharing an object untouched is decided by the twin oracle "
              "of the search only. "
              "Returned containers: on the unchanged tree only `waveforms` (antenna and system) returns a fresh list; "
              "`all_waveforms` and `AntennaSystem.signals` return the live cache lists and `Antenna.signals` is a plain "
              "attribute, so the 'returned list belongs to the caller' checks are made for `waveforms` only. A refused "
              "reception is no operation of the Lean model (the state is untouched by construction); that the code leaves "
              "the object untouched is decided by the run (private cache lengths, all later outputs) and the search. "
              "No _partial theorem; not proved: the system-side is_hit_mc_truth, LinearFE of the pedestal/echo front ends.")
CHECKER_MODULES = ["PyrexVerif.Proofs.AntennaBook", "PyrexVerif.Proofs.AntennaInterp", "PyrexVerif.D.AntennaSM"]
EXTRACTORS = []
ASSUMPTIONS = ["real-noise run: the noise function of an epoch is learnt from the first observation of every absolute "
               "time; that ThermalNoise is a function of absolute time at all is property C17",
               "np.interp(x, xp, fp, left=0, right=0) = piecewise-linear interpolation, zero outside [xp[0], xp[-1]]",
               "Antenna.apply_response replaced by a copy (C08 covers the response); receive itself is the real code",
               "pyrex.antenna.ThermalNoise replaced by a deterministic function of (realisation, absolute time)",
               "AntennaSystem histories only touch the inner antenna through queries (never receive/clear on it)"]


def _mods():
    import numpy as np
    import pyrex
    import pyrex.antenna
    import pyrex.detector
    from pyrex.signals import Signal, FunctionSignal
    return np, pyrex, Signal, FunctionSignal


# --------------------------------------------------------------------------------------------
# exact stand-ins
_noise_cls = None


def noise_class():
    global _noise_cls
    if _noise_cls is None:
        np, pyrex, Signal, FunctionSignal = _mods()

        class DetNoise(FunctionSignal):
            count = 0

            def __init__(self, times, f_band=None, f_amplitude=None, rms_voltage=None,
                         temperature=None, resistance=None, uniqueness_factor=1):
                e = DetNoise.count
                DetNoise.count += 1

                def f(ts):
                    k = np.floor(2 * np.asarray(ts, dtype=float)).astype(np.int64)
                    return (((k * (2 * e + 3) + 5 * e) % 7) - 3) / 2.0
                super().__init__(times, f, value_type=Signal.Type.voltage)
        _noise_cls = DetNoise
    return _noise_cls


class patched_noise:
    def __enter__(self):
        import pyrex.antenna
        self.saved = pyrex.antenna.ThermalNoise
        cls = noise_class()
        cls.count = 0
        pyrex.antenna.ThermalNoise = cls
        return cls

    def __exit__(self, *a):
        import pyrex.antenna
        pyrex.antenna.ThermalNoise = self.saved


def _copy_response(signal, direction=None, polarization=None, force_real=False):
    """stand-in for Antenna.apply_response (C08): a copy; like the real one it refuses (ValueError) a signal
    that is neither voltage nor field"""
    if signal.value_type not in (signal.Type.voltage, signal.Type.field):
        raise ValueError("Signal's value type must be either voltage or field. Given " + str(signal.value_type))
    return signal.copy()


# operations that exist only on the implementation side: the model state must not notice them
SILENT = ("RX",)


def silent_op(obj, op, held):
    """RX: a reception given as a list of components that is REFUSED (ValueError) at the second or a later
    component - the object must be left exactly as it was.  WX: the list returned by `waveforms` is the
    caller's: mutating it must not change anything.  WH: keep a returned list; it must not change later.
    -> None or a complaint"""
    np, pyrex, Signal, FunctionSignal = _mods()
    k = op[0]
    if k == "RX":
        t = np.array(op[2], dtype=float)
        good = Signal(t, np.array(op[3], dtype=float), Signal.Type.voltage)
        how = op[1]
        if how == "grid":              # second component on a different time grid
            bad = Signal(t + (t[1] - t[0]) / 2, np.array(op[3], dtype=float), Signal.Type.voltage)
        elif how == "type":            # second component neither voltage nor field
            bad = Signal(t, np.array(op[3], dtype=float), Signal.Type.power)
        elif how == "undef":
            bad = Signal(t, np.array(op[3], dtype=float), Signal.Type.undefined)
        else:                          # the response of the second component raises

            class Raiser(Signal):
                def copy(self):
                    raise ValueError("response callback refuses this component")
            bad = Raiser(t, np.array(op[3], dtype=float), Signal.Type.voltage)
        comps = [good, bad] if op[4] == 2 else [good, good.copy(), bad]
        try:
            obj.receive(comps, polarization=[(0, 0, 1)] * len(comps))
        except ValueError:
            return None
        except Exception as e:
            return "refused reception raised %s instead of ValueError" % type(e).__name__
        return "a reception with an invalid component was accepted"
    return None


def held_changed(obj):
    """lists returned by `waveforms` and kept by the caller must not change afterwards"""
    return any([id(w) for w in l] != ids for l, ids in getattr(obj, "_held", []))


def use_returned_list(obj, op, ws):
    """WX: the list `waveforms` returned belongs to the caller - mutate it; WH: keep it"""
    np, pyrex, Signal, FunctionSignal = _mods()
    if op[0] == "WH":
        if not hasattr(obj, "_held"):
            obj._held = []
        obj._held.append((ws, [id(w) for w in ws]))
        return
    how = op[1]
    if how == "clear":
        ws.clear()
    elif how == "reverse":
        ws.reverse()
    elif how == "append":
        ws.append(Signal(np.array([0.0, 1.0]), np.array([9.0, 9.0]), Signal.Type.voltage))
    elif how == "del0":
        del ws[:1]
    else:
        ws.extend(list(ws))


def build(cfg):
    """cfg: dict(kind=ant|dip|sys, noisy, thr (None = base trigger), lead, fe (I|H), inner (ant|dip))"""
    np, pyrex, Signal, FunctionSignal = _mods()
    from pyrex.antenna import Antenna, DipoleAntenna
    from pyrex.detector import AntennaSystem
    thr = cfg["thr"]

    def mk(kind):
        if kind == "dip":
            a = DipoleAntenna("d", (0, 0, -100), 250e6, 100e6, 300, 50,
                              trigger_threshold=float(thr), noisy=cfg["noisy"])
        else:
            a = Antenna((0, 0, -100), noisy=cfg["noisy"], freq_range=(1e8, 2e8), noise_rms=1.0)
        a.apply_response = _copy_response
        return a
    if cfg["kind"] in ("ant", "dip"):
        return mk(cfg["kind"])
    fe = cfg["fe"]

    sthr = cfg.get("sthr")

    class Sys(AntennaSystem):
        lead_in_time = float(cfg["lead"])

        def front_end(self, signal):
            if fe == "H":
                return signal * 0.5
            if fe == "B":        # pedestal subtraction with the first sample of the window it is given
                v = np.array(signal.values, dtype=float)
                return Signal(signal.times, v - v[0], signal.value_type)
            if fe == "E":        # one-sample echo
                v = np.array(signal.values, dtype=float)
                return Signal(signal.times, v + 0.5 * np.concatenate(([0.0], v[:-1])), signal.value_type)
            if fe == "C":        # amplifier clipping (as the shipped ARA / ARIANNA front ends): not additive
                return Signal(signal.times, np.clip(np.array(signal.values, dtype=float), -1.0, 1.0),
                              signal.value_type)
            if fe == "V":        # rectifier (envelope-like, as the IREX front end): not additive
                return Signal(signal.times, np.abs(np.array(signal.values, dtype=float)), signal.value_type)
            return signal
    if sthr is not None:         # a system-level trigger different from the antenna's
        Sys.trigger = lambda self, signal: bool(max(np.abs(signal.values)) > sthr)
    if cfg.get("via_class"):     # the other construction path: class + setup_antenna
        proto = mk(cfg["inner"])
        if cfg["inner"] == "dip":
            sysobj = Sys(DipoleAntenna)
            sysobj.setup_antenna("d", (0, 0, -100), 250e6, 100e6, 300, 50, trigger_threshold=float(thr),
                                 noisy=cfg["noisy"])
        else:
            sysobj = Sys(Antenna)
            sysobj.setup_antenna((0, 0, -100), noisy=cfg["noisy"], freq_range=(1e8, 2e8), noise_rms=1.0)
        sysobj.antenna.apply_response = _copy_response
        return sysobj
    return Sys(mk(cfg["inner"]))


# --------------------------------------------------------------------------------------------
# formatting (same text as the Lean driver)
def frs(x):
    f = Fraction(float(x))
    return str(f.numerator) if f.denominator == 1 else "%d/%d" % (f.numerator, f.denominator)


def wave_s(sig):
    ts, vs = list(sig.times), list(sig.values)
    return "%d" % len(ts) + "".join(" %s %s" % (frs(t), frs(v)) for t, v in zip(ts, vs))


def grid_s(ts):
    return "%d " % len(ts) + " ".join(frs(t) for t in ts)


def op_s(op):
    k = op[0]
    if k == "R":
        return "R %d" % len(op[1]) + "".join(" %s %s" % (frs(t), frs(v)) for t, v in zip(op[1], op[2]))
    if k in ("RE", "RE2"):   # an all-empty reception (what the kernel sends for a cut ray): zeros on that grid
        return "R %d" % len(op[1]) + "".join(" %s 0" % frs(t) for t in op[1])
    if k == "RM":            # [EmptySignal, Signal]: the signal
        return "R %d" % len(op[1]) + "".join(" %s %s" % (frs(t), frs(v)) for t, v in zip(op[1], op[2]))
    if k == "R2":      # two polarisation components received in one call: what is stored is their sum
        return "R %d" % len(op[1]) + "".join(" %s %s" % (frs(t), frs(a + b)) for t, a, b in zip(op[1], op[2], op[3]))
    if k in ("WX", "WH"):
        return "W"
    if k in "FDN":
        return k + " " + grid_s(op[1])
    if k == "C":
        return "C %d" % op[1]
    if k == "I":
        return "I " + op_s(op[1])
    return k


def request(cfg, ops, old=False):
    trig = "A" if cfg["thr"] is None else "T " + frs(cfg["thr"])
    ops = [o for o in ops if o[0] not in SILENT]
    body = "%d " % len(ops) + " ".join(op_s(o) for o in ops)
    if cfg["kind"] == "sys":
        strig = trig if cfg.get("sthr") is None else "T " + frs(cfg["sthr"])
        return "sys %d %s %s %s %s %s" % (cfg["noisy"], trig, strig, frs(cfg["lead"]), cfg["fe"], body)
    return "ant %d %d %s %s" % (old, cfg["noisy"], trig, body)


def st_s(a):
    return "[%d %d %d %d]" % (len(a.signals), len(a._all_waves), len(a._triggers), a._noise_master is not None)


def fe_apply(fe, pre):
    """the harness's own evaluation of the six front ends on an array of samples"""
    np = _mods()[0]
    pre = np.array(pre, dtype=float)
    if fe == "H":
        return pre * 0.5
    if fe == "B":
        return pre - pre[0]
    if fe == "E":
        return pre + 0.5 * np.concatenate(([0.0], pre[:-1]))
    if fe == "C":
        return np.clip(pre, -1.0, 1.0)
    if fe == "V":
        return np.abs(pre)
    return pre


def times_arg(o):
    """the `times` argument of a query in the container / dtype form recorded with the operation
    (array_like: float array, list, tuple, integer array)"""
    np = _mods()[0]
    form = o[2] if len(o) > 2 else "arr"
    if form == "list":
        return [float(t) for t in o[1]]
    if form == "tuple":
        return tuple(float(t) for t in o[1])
    if form == "int" and all(float(t).is_integer() for t in o[1]):
        return np.array([int(t) for t in o[1]], dtype=np.int64)
    return np.array(o[1], dtype=float)


def apply_op(obj, op, is_sys):
    """run one operation on the real object; returns the output text"""
    np, pyrex, Signal, FunctionSignal = _mods()
    k = op[0]
    grid = times_arg
    if k == "R":
        obj.receive(Signal(np.array(op[1], dtype=float), np.array(op[2], dtype=float), Signal.Type.voltage))
        return "u"
    if k == "R2":
        t = np.array(op[1], dtype=float)
        obj.receive([Signal(t, np.array(op[2], dtype=float), Signal.Type.voltage),
                     Signal(t, np.array(op[3], dtype=float), Signal.Type.voltage)],
                    polarization=[(0, 0, 1), (1, 0, 0)])
        return "u"
    if k in ("RE", "RE2", "RM"):
        from pyrex.signals import EmptySignal
        t = np.array(op[1], dtype=float)
        if k == "RE":
            obj.receive(EmptySignal(t, Signal.Type.voltage))
        elif k == "RE2":
            obj.receive([EmptySignal(t, Signal.Type.voltage), EmptySignal(t, Signal.Type.voltage)],
                        polarization=[(0, 0, 1), (1, 0, 0)])
        else:
            obj.receive([EmptySignal(t, Signal.Type.voltage), Signal(t, np.array(op[2], dtype=float), Signal.Type.voltage)],
                        polarization=[(0, 0, 1), (1, 0, 0)])
        return "u"
    if k == "M":
        return "f %d" % bool(obj.is_hit_mc_truth)
    if k == "A":
        ws = obj.all_waveforms
        return "ws %d" % len(ws) + "".join(" " + wave_s(w) for w in ws)
    if k in ("W", "WX", "WH"):
        ws = obj.waveforms
        txt = "ws %d" % len(ws) + "".join(" " + wave_s(w) for w in ws)
        if k != "W":
            use_returned_list(obj, op, ws)          # after the report was taken
        return txt
    if k == "S":
        ws = obj.signals
        return "ws %d" % len(ws) + "".join(" " + wave_s(w) for w in ws)
    if k == "H":
        return "f %d" % bool(obj.is_hit)
    if k == "F":
        return "w " + wave_s(obj.full_waveform(grid(op)))
    if k == "D":
        return "f %d" % bool(obj.is_hit_during(grid(op)))
    if k == "N":
        return "w " + wave_s(obj.make_noise(grid(op)))
    if k == "C":
        obj.clear(reset_noise=bool(op[1]))
        return "u"
    if k == "I":
        return apply_op(obj.antenna, op[1], False)
    raise ValueError(op)


def run_impl(cfg, ops):
    with patched_noise():
        obj = build(cfg)
        is_sys = cfg["kind"] == "sys"
        outs = []
        complaints = []
        for op in ops:
            if op[0] in SILENT:
                why = silent_op(obj, op, None)
                if why:
                    complaints.append(why)
                continue
            try:
                o = apply_op(obj, op, is_sys)
            except Exception as e:  # the model has no exceptions on the generated inputs
                o = "exception %s: %s" % (type(e).__name__, str(e)[:80])
            if is_sys:
                s = "[%d %d %d]" % (len(obj._signals), len(obj._all_waves), len(obj._triggers)) + st_s(obj.antenna)
            else:
                s = st_s(obj)
            outs.append(o + " " + s)
        if held_changed(obj):
            complaints.append("a list returned by `waveforms` changed after it was handed out")
    return "ok " + " | ".join(outs) + ("" if not complaints else " | BAD " + "; ".join(complaints))


# --------------------------------------------------------------------------------------------
# generators
def gen_grid(rng, dt, lo=-8, hi=16, nmax=8, uniform=True):
    n = rng.randint(2, nmax)
    t0 = rng.randint(lo, hi) * dt + rng.choice([0, 0, 0, dt / 2])
    if uniform:
        step = dt * rng.choice([1, 1, 1, 0.5, 2])
        return [t0 + i * step for i in range(n)]
    ts = [t0]
    for _ in range(n - 1):
        ts.append(ts[-1] + dt * rng.choice([0.5, 1, 1, 2]))
    return ts


def gen_signal(rng, dt, prev, uniform=True):
    r = rng.random()
    if prev and r < 0.2:           # nested in an earlier window
        p = rng.choice(prev)
        if len(p) >= 4:
            ts = p[1:len(p) - 1]
        else:
            ts = list(p)
    elif r < 0.3:                  # far away: disjoint from everything (skip test)
        ts = gen_grid(rng, dt, lo=60, hi=80, uniform=uniform)
    elif r < 0.36:
        ts = gen_grid(rng, dt, lo=-90, hi=-70, uniform=uniform)
    else:                          # overlapping region
        ts = gen_grid(rng, dt, uniform=uniform)
    vs = [rng.randint(-12, 12) / 4.0 for _ in ts]
    return ts, vs


def gen_history(rng, cfg, nmax=20):
    dt = cfg["dt"]
    is_sys = cfg["kind"] == "sys"
    uniform = is_sys or rng.random() < 0.6
    noise_ok = True
    ops, prev = [], []
    n = rng.randint(1, nmax)

    def form():      # container / dtype form of a `times` argument
        return rng.choice(["arr", "arr", "list", "tuple", "int"])
    level = max(cfg.get("thr") or 0, cfg.get("sthr") or 0)
    if level > 0 and rng.random() < 0.3:
        # constructive superposition: signals that each stay AT the threshold (no trigger alone) on one window;
        # only their sum crosses it
        ts = gen_grid(rng, dt, uniform=True)
        for _ in range(rng.randint(2, 3)):
            ops.append(("R", ts, [level * rng.choice([1, 1, -1]) if rng.random() < 0.8 else level / 2 for _ in ts]))
            prev.append(ts)
        ops.append(rng.choice([("H",), ("W",), ("M",), ("D", ts, "arr")]))
        ops.append(("H",))
    for _ in range(n):
        r = rng.random()
        if r < 0.32:
            ts, vs = gen_signal(rng, dt, prev, uniform)
            prev.append(ts)
            r2 = rng.random()
            if r2 < 0.2:                 # an all-empty reception: a reception like any other
                ops.append((rng.choice(["RE", "RE2"]), ts))
            elif r2 < 0.28:
                ops.append(("RM", ts, vs))
            elif r2 < 0.45:              # two polarisation components in one receive call
                ops.append(("R2", ts, vs, [rng.randint(-8, 8) / 4.0 for _ in ts]))
            else:
                ops.append(("R", ts, vs))
        elif r < 0.44:
            ops.append(("A",))
        elif r < 0.54:
            ops.append(("W",))
        elif r < 0.60:
            ops.append(("H",))
        elif r < 0.66:
            ops.append(("M",))
        elif r < 0.75:
            ops.append(("F", gen_grid(rng, dt, uniform=uniform) if rng.random() < 0.85
                        else gen_grid(rng, dt, lo=58, hi=82, uniform=uniform), form()))
        elif r < 0.81:
            ops.append(("D", gen_grid(rng, dt, uniform=uniform), form()))
        elif r < 0.87 and noise_ok:
            ops.append(("N", gen_grid(rng, dt, uniform=uniform), form()))
        elif r < 0.895:
            ts, vs = gen_signal(rng, dt, prev, uniform)
            ops.append(("RX", rng.choice(["grid", "type", "undef", "raise"]), ts, vs, rng.choice([2, 2, 3])))
        elif r < 0.912:
            ops.append(("WX", rng.choice(["clear", "reverse", "append", "del0", "extend"])))
        elif r < 0.922:
            ops.append(("WH",))
        elif r < 0.965:
            ops.append(("C", int(rng.random() < 0.5)))
            if rng.random() < 0.7:
                prev = []
        elif is_sys:
            if rng.random() < 0.5:
                ops.append(("S",))
            else:
                ops.append(("I", rng.choice([("A",), ("W",), ("H",), ("M",),
                                             ("F", gen_grid(rng, dt)), ("N", gen_grid(rng, dt))])))
        else:
            ops.append(("A",))
    return ops


def gen_cfg(rng):
    kind = rng.choice(["ant", "ant", "dip", "sys", "sys", "sys"])
    dt = rng.choice([1.0, 1.0, 0.5, 2.0])
    cfg = {"kind": kind, "noisy": int(rng.random() < 0.4), "dt": dt, "thr": None, "lead": 0.0, "fe": "I",
           "inner": "ant"}
    if kind == "dip":
        cfg["thr"] = rng.choice([0.0, 0.5, 1.0, 2.5, 3.0])      # 0: a noisy dipole triggers on noise alone
    if kind == "sys":
        cfg["inner"] = rng.choice(["ant", "dip"])
        if cfg["inner"] == "dip":
            cfg["thr"] = rng.choice([0.0, 0.5, 1.0, 2.5])
        cfg["lead"] = dt * rng.choice([0, 2.5, 10])
        cfg["fe"] = rng.choice(["H", "H", "I", "B", "E", "C", "V"])
        cfg["sthr"] = rng.choice([None, None, 0.75, 1.5])        # system-level trigger overriding the antenna's
        cfg["via_class"] = int(rng.random() < 0.3)               # AntennaSystem(cls) + setup_antenna(...)
    return cfg


def nontrivial(ops):
    seen_r = False
    for o in ops:
        if o[0] in ("R", "R2", "RE", "RE2", "RM"):
            seen_r = True
        elif seen_r and (o[0] in "AWHFDSIM" or o[0] in ("WX", "WH")):
            return True
    return False


# --------------------------------------------------------------------------------------------
def correspondence(run):
    n = run.scale(1500, 12000)
    cases = []
    # the history of repair F10 first (regression), on all three kinds
    f10 = [("R", [0.0, 1.0, 2.0, 3.0], [1.0, 2.0, 3.0, 4.0]), ("A",), ("W",),
           ("R", [1.0, 2.0, 3.0], [0.5, 0.5, 0.5]), ("A",), ("W",), ("H",)]
    for kind in ("ant", "dip", "sys"):
        cases.append(({"kind": kind, "noisy": 0, "dt": 1.0, "thr": 2.5 if kind != "ant" else None,
                       "lead": 2.5, "fe": "H", "inner": "dip"}, f10))
    for _ in range(n):
        cfg = gen_cfg(run.rng)
        cases.append((cfg, gen_history(run.rng, cfg)))
    reqs = [request(c, o) for c, o in cases]
    replies = fw.run_driver("C09", reqs)
    ok = True
    for (cfg, ops), rq, rp in zip(cases, reqs, replies):
        imp = run_impl(cfg, ops)
        run.count("kind_%s%s" % (cfg["kind"], "_noisy" if cfg["noisy"] else ""))
        if cfg["kind"] == "sys":
            run.count("lead_%s_dt" % frs(cfg["lead"] / cfg["dt"]))
        for o in ops:
            run.count("op_" + o[0])
        run.case((sorted(cfg.items()), rq), nontrivial=nontrivial(ops),
                 sample={"request": rq[:300], "model": rp[:300]})
        if imp == rp:
            run.traces += 1
        else:
            ok = False
            mi, ii = rp.split(" | "), imp.split(" | ")
            k = next((i for i, (a, b) in enumerate(zip(mi, ii)) if a != b), min(len(mi), len(ii)))
            run.note_broken("correspondence: request `%s` first difference at op %d: model `%s` implementation `%s`"
                            % (rq[:500], k, (mi[k] if k < len(mi) else "")[:300], (ii[k] if k < len(ii) else "")[:300]))
            if len(run.broken) > 5:
                break
    # tolerance run with pyrex's real thermal noise: the model's "noise = function of absolute time per epoch"
    for _ in range(run.scale(60, 600)):
        case = gen_real_noise_case(run.rng)
        far = max(abs(w[0]) for w in case["windows"]) / float(case["windows"][0][1])
        run.count("realnoise_%s" % case["cfg"]["kind"])
        run.count("realnoise_far_%s" % ("ge100" if far >= 100 else "ge8" if far >= 8 else "near"))
        run.case(("real-noise", str(case)), nontrivial=real_noise_nontrivial(case))
        why = real_noise_oracle(case)
        if why is None:
            run.traces += 1
        else:
            ok = False
            run.note_broken("correspondence: real thermal noise, %s, windows (start, n in samples of 2^-30 s) %s, "
                            "ops %s: model: noise is a function of absolute time until reset; implementation: %s"
                            % (case["cfg"]["kind"], case["windows"], [o[:2] for o in case["ops"]], why))
            if len(run.broken) > 5:
                break
    # inputs outside the theorems' hypotheses: the code raises there and the model says so
    if not check_rejections(run):
        ok = False
    # the lead-in grid on its own
    reqs, exp = [], []
    np = _mods()[0]
    for _ in range(run.scale(60, 600)):
        dt = run.rng.choice([0.5, 1.0, 2.0])
        lead = dt * run.rng.choice([0, 0.25, 1, 2.5, 3, 10, 7.75])
        g = gen_grid(run.rng, dt)
        cfg = {"kind": "sys", "noisy": 0, "dt": dt, "thr": None, "lead": lead, "fe": "I", "inner": "ant"}
        sysobj = build(cfg)
        reqs.append("leadin %s %s" % (frs(lead), grid_s(g)))
        exp.append("ok " + " ".join(frs(t) for t in sysobj._calculate_lead_in_times(np.array(g))))
    for rq, ex, rp in zip(reqs, exp, fw.run_driver("C09", reqs)):
        run.case(("leadin", rq))
        if ex == rp:
            run.traces += 1
        else:
            ok = False
            run.note_broken("correspondence: request `%s` model `%s` implementation `%s`" % (rq, rp[:300], ex[:300]))
    return ok


# --------------------------------------------------------------------------------------------
# inputs the implementation rejects: the model's `fullWaveRejects` / `allWavesRejects` / `leadInRejects`
# against the exceptions the real code raises (and their types)
RAISES = (IndexError, ValueError, OverflowError, ZeroDivisionError)


def gen_degenerate(rng):
    """-> (kind, request, thunk running the real code)"""
    np, pyrex, Signal, FunctionSignal = _mods()

    def sig():
        r = rng.random()
        t0 = rng.randint(-4, 6)
        if r < 0.2:
            ts = []
        elif r < 0.4:
            ts = [float(t0)]
        elif r < 0.55:
            ts = [float(t0 + 3 - k) for k in range(rng.randint(2, 4))]           # running backwards
        else:
            ts = [float(t0 + k) for k in range(rng.randint(2, 5))]
        return ts, [rng.randint(-8, 8) / 4.0 for _ in ts]

    def window():
        r = rng.random()
        t0 = rng.randint(-4, 6)
        if r < 0.15:
            return []
        if r < 0.35:
            return [float(t0)]
        if r < 0.5:
            return [float(t0 + 3 - k) for k in range(rng.randint(2, 4))]
        if r < 0.6:
            return [float(t0), float(t0), float(t0 + 1)]                          # times[1] == times[0]
        return [float(t0 + k) for k in range(rng.randint(2, 6))]
    sigs = [sig() for _ in range(rng.randint(0, 2))]
    ss = "%d" % len(sigs) + "".join(" %d" % len(ts) + "".join(" %s %s" % (frs(t), frs(v)) for t, v in zip(ts, vs))
                                    for ts, vs in sigs)
    kind = rng.choice(["F", "A", "L"])
    cfg = {"kind": "sys" if kind == "L" else "ant", "noisy": 0, "dt": 1.0, "thr": None, "lead": 0.0, "fe": "I",
           "inner": "ant"}
    if kind == "F":
        w = window()

        def thunk():
            a = build(cfg)
            for ts, vs in sigs:
                a.receive(Signal(np.array(ts, dtype=float), np.array(vs, dtype=float), Signal.Type.voltage))
            try:
                return a.full_waveform(np.array(w, dtype=float)).values
            except RAISES:
                unchanged_after_refusal(a, sigs, cfg)
                raise
        return kind, "rejF %s %d%s" % (ss, len(w), "".join(" " + frs(t) for t in w)), thunk
    if kind == "A":
        def thunk():
            a = build(cfg)
            for ts, vs in sigs:
                a.receive(Signal(np.array(ts, dtype=float), np.array(vs, dtype=float), Signal.Type.voltage))
            try:
                return [w.values for w in a.all_waveforms]
            except RAISES:
                unchanged_after_refusal(a, sigs, cfg)
                raise
        return kind, "rejA " + ss, thunk
    lead = rng.choice([0.0, 2.5, -1.0, -2.5, 10.0])
    r = rng.random()
    t0 = rng.randint(-4, 6)
    if r < 0.15:
        g = [float(t0)]
    elif r < 0.4:
        g = [float(t0), t0 + 2.0] + [t0 + 2.0 + 0.5 * k for k in range(1, rng.randint(2, 5))]   # large first gap
    elif r < 0.5:
        g = [float(t0), float(t0), t0 + 1.0]
    else:
        g = [t0 + 1.0 * k for k in range(rng.randint(2, 6))]
    cfg["lead"] = lead

    def thunk():
        return build(cfg)._calculate_lead_in_times(np.array(g, dtype=float))
    return kind, "rejL %s %d%s" % (frs(lead), len(g), "".join(" " + frs(t) for t in g)), thunk


class StateChanged(Exception):
    pass


def unchanged_after_refusal(a, sigs, cfg):
    """after a refused query the antenna must report what a twin that never saw the call reports"""
    np, pyrex, Signal, FunctionSignal = _mods()
    twin = build(cfg)
    for ts, vs in sigs:
        twin.receive(Signal(np.array(ts, dtype=float), np.array(vs, dtype=float), Signal.Type.voltage))

    def report(o):
        out = [len(o.signals)]
        for x in (np.array([0.0, 1.0, 2.0, 3.0]), np.array([-3.0, -2.0, -1.0])):
            try:
                out.append(list(o.full_waveform(x).values))
            except RAISES as e:
                out.append(type(e).__name__)
        try:
            out.append(bool(o.is_hit))
        except RAISES as e:
            out.append(type(e).__name__)
        return out
    if report(a) != report(twin):
        raise StateChanged("after the refused call %s, a twin reports %s" % (report(a), report(twin)))


def check_rejections(run):
    """the model rejects exactly where the implementation raises, and it raises IndexError / ValueError /
    OverflowError (never returns garbage from a window of one sample, an empty signal, ...)"""
    import warnings
    cases = [gen_degenerate(run.rng) for _ in range(run.scale(120, 1200))]
    replies = fw.run_driver("C09", [c[1] for c in cases])
    ok = True
    for (kind, rq, thunk), rp in zip(cases, replies):
        try:
            with warnings.catch_warnings():
                warnings.simplefilter("ignore")
                thunk()
            imp = "accept"
        except StateChanged as e:
            imp = "refused call changed the state: %s" % str(e)[:200]
        except RAISES as e:
            imp = "reject"
            run.count("rejected_%s_%s" % (kind, type(e).__name__))
        except Exception as e:
            imp = "unexpected %s" % type(e).__name__
        run.case(("reject", rq), nontrivial=imp == "reject")
        if imp == "accept":
            run.count("degenerate_accepted_" + kind)
        if imp == rp:
            run.traces += 1
        else:
            ok = False
            run.note_broken("correspondence: request `%s` model `%s` implementation `%s`" % (rq[:300], rp, imp))
            if len(run.broken) > 5:
                break
    return ok


# --------------------------------------------------------------------------------------------
# real thermal noise (pyrex's own ThermalNoise, seeded numpy RNG): tolerance run + search oracle.
# The model says: within one noise epoch the noise is a FUNCTION OF ABSOLUTE TIME (C09_noise_absolute,
# C09_full_is_noise_plus_sum), whatever window is asked for and in whatever order, and only
# clear(reset_noise=True) starts a new epoch (C09_reset_new_epoch).  The function itself is random, so it is
# learnt from the first observation of every absolute time (a ledger) and every later observation -
# make_noise(W), full_waveform(W) minus the signals, every cached all_waveforms entry minus the signals -
# must reproduce it.  Windows lie up to 1000 window lengths apart and are revisited.
RDT = 2.0 ** -30          # ~0.93 ns; sample times k*RDT are exact floats, so revisits hit identical times


def gen_real_noise_case(rng):
    kind = rng.choice(["ant", "dip", "sys", "sys"])
    cfg = {"kind": kind, "noisy": 1, "dt": RDT, "thr": None, "lead": 0.0, "fe": "I", "inner": "ant"}
    if kind == "dip":
        cfg["thr"] = 3e-5
    if kind == "sys":
        cfg["inner"] = rng.choice(["ant", "dip"])
        if cfg["inner"] == "dip":
            cfg["thr"] = 3e-5
        cfg["lead"] = RDT * rng.choice([0, 2.5, 10])
        cfg["fe"] = rng.choice(["H", "H", "I"])
    L = rng.randint(24, 100)
    offs = [0] + [rng.choice([-1, 1, 1]) * rng.choice([0.5, 1.5, 3, 8, 12, 30, 50, 100, 400, 1000])
                  for _ in range(rng.randint(1, 3))]
    windows = [[int(o * L) + (rng.randint(0, 5) if o else 0), rng.randint(max(8, L // 2), L)] for o in offs]
    windows[0][1] = L
    ops = []
    amp = 2e-5 if "dip" in (kind, cfg["inner"]) else 2.0
    first = True
    for _ in range(rng.randint(5, 14)):
        w = 0 if first else rng.randrange(len(windows))
        first = False
        r = rng.random()
        if r < 0.3:
            ops.append(["N", w])
        elif r < 0.55:
            ops.append(["F", w])
        elif r < 0.8:
            ops.append(["R", w, [rng.randint(-8, 8) / 4.0 * amp for _ in range(windows[w][1])]])
        elif r < 0.93:
            ops.append(["A"])
        else:
            ops.append(["C", int(rng.random() < 0.4)])
    return {"cfg": cfg, "windows": windows, "ops": ops, "seed": rng.randrange(2 ** 31)}


def real_noise_oracle(case):
    """-> None, or a description of the first observation that contradicts 'noise = function of absolute
    time until reset'"""
    np, pyrex, Signal, FunctionSignal = _mods()
    cfg = case["cfg"]
    np.random.seed(case["seed"])
    obj = build(cfg)
    is_sys = cfg["kind"] == "sys"
    scale = 0.5 if (is_sys and cfg["fe"] == "H") else 1.0
    grids = [RDT * (w[0] + np.arange(w[1])) for w in case["windows"]]
    ledger, sigs = {}, []
    epoch_resets = 0

    def observe(times, values, what, i, with_signals=True):
        vals = np.array(values, dtype=float)
        for ts, vs in (sigs if with_signals else []):       # make_noise is the noise alone
            vals = vals - scale * np.interp(times, ts, vs, left=0, right=0)
        big = max([1e-30, float(np.max(np.abs(values)))] + [float(np.max(np.abs(vs))) for _, vs in sigs])
        for t, v in zip(times, vals):
            old = ledger.setdefault(float(t), float(v))
            if abs(old - v) > 1e-9 * big:
                return ("op %d (%s): noise at absolute time %.6e s is %.6e, it was %.6e earlier in the same noise "
                        "epoch (no reset in between)" % (i, what, t, v, old))
        return None
    for i, op in enumerate(case["ops"]):
        k = op[0]
        try:
            if k == "N":
                why = observe(grids[op[1]], obj.make_noise(grids[op[1]]).values, "make_noise", i, False)
            elif k == "F":
                why = observe(grids[op[1]], obj.full_waveform(grids[op[1]]).values, "full_waveform", i)
            elif k == "R":
                ts, vs = grids[op[1]], np.array(op[2], dtype=float)
                obj.receive(Signal(ts, vs, Signal.Type.voltage))
                sigs.append((ts, vs))
                why = None
            elif k == "A":
                ws = obj.all_waveforms
                why = None
                if len(ws) != len(sigs):
                    why = "op %d: %d waveforms for %d signals" % (i, len(ws), len(sigs))
                for w, (ts, _) in zip(ws, sigs):
                    why = why or observe(ts, w.values, "all_waveforms", i)
            else:
                obj.clear(reset_noise=bool(op[1]))
                sigs = []
                if op[1]:
                    ledger = {}
                    epoch_resets += 1
                why = None
        except Exception as e:
            why = "op %d (%s): exception %s: %s" % (i, k, type(e).__name__, str(e)[:100])
        if why:
            return why
    return None


def real_noise_nontrivial(case):
    """some window is revisited after a visit to another one"""
    seen, last = set(), None
    for op in case["ops"]:
        if op[0] in "NFR":
            if op[1] in seen and last != op[1]:
                return True
            seen.add(op[1])
            last = op[1]
    return False


def shrink_real_noise(case):
    ops = list(case["ops"])
    changed = True
    while changed and len(ops) > 1:
        changed = False
        for i in range(len(ops)):
            cand = dict(case, ops=ops[:i] + ops[i + 1:])
            if cand["ops"] and real_noise_oracle(cand):
                ops = cand["ops"]
                changed = True
                break
    return dict(case, ops=ops)


# --------------------------------------------------------------------------------------------
# decimal-fraction grids (dt = 0.1 ns, 1/3 ns, 0.3 ns, 0.7 ns; arbitrary float values): outside the exact run,
# where float arithmetic is no longer exact; the same clauses are decided with a tolerance
DEC_DT = [1e-10, 1e-9 / 3, 0.3e-9, 0.7e-9, 1e-9]


def gen_decimal_case(rng):
    kind = rng.choice(["ant", "sys", "sys"])
    dt = rng.choice(DEC_DT)
    sigs = []
    for _ in range(rng.randint(1, 4)):
        sdt = rng.choice([dt, dt, rng.choice(DEC_DT)])
        n = rng.randint(2, 40)
        t0 = rng.uniform(-2e-8, 4e-8) if rng.random() < 0.85 else rng.uniform(5e-7, 6e-7)
        sigs.append([t0, sdt, [rng.uniform(-3, 3) for _ in range(n)]])
    return {"kind": kind, "fe": rng.choice(["I", "H", "C", "V"]), "lead": dt * rng.choice([0, 1, 2.5, 10, 3.7]),
            "sigs": sigs, "window": [rng.uniform(-2e-8, 4e-8), dt, rng.randint(2, 60)]}


def decimal_oracle(case):
    np, pyrex, Signal, FunctionSignal = _mods()
    cfg = {"kind": case["kind"], "noisy": 0, "dt": case["window"][1], "thr": None, "lead": case["lead"],
           "fe": case["fe"], "inner": "ant"}
    is_sys = case["kind"] == "sys"
    fe = case["fe"] if is_sys else "I"

    def feed(o):
        for t0, sdt, vs in case["sigs"]:
            o.receive(Signal(t0 + sdt * np.arange(len(vs)), np.array(vs), Signal.Type.voltage))
    try:
        obj, fresh = build(cfg), build(cfg)
        feed(obj)
        first = [np.array(w.values) for w in obj.all_waveforms]          # query, then receive again, query again
        extra = case["sigs"][0]
        obj.receive(Signal(extra[0] + extra[1] * np.arange(len(extra[2])), np.array(extra[2]), Signal.Type.voltage))
        feed(fresh)
        fresh.receive(Signal(extra[0] + extra[1] * np.arange(len(extra[2])), np.array(extra[2]), Signal.Type.voltage))
        allsigs = case["sigs"] + [extra]

        def want(x):
            tot = np.zeros(len(x))
            for t0, sdt, vs in allsigs:
                tot = tot + np.interp(x, t0 + sdt * np.arange(len(vs)), vs, left=0, right=0)
            return fe_apply(fe, tot)
        x = case["window"][0] + case["window"][1] * np.arange(case["window"][2])
        got = np.array(obj.full_waveform(x).values)
        exp = want(x)
        tol = 1e-12 * max(1.0, float(np.max(np.abs(exp))))
        if len(got) != len(x) or np.max(np.abs(got - exp)) > tol:
            return "full_waveform deviates from front_end(sum of interpolated signals) by %.3e" % np.max(np.abs(got - exp))
        if not np.array_equal(got, np.array(fresh.full_waveform(x).values)):
            return "full_waveform differs from a fresh object fed the same signals"
        ws, fs = obj.all_waveforms, fresh.all_waveforms
        if len(ws) != len(allsigs):
            return "%d waveforms for %d signals" % (len(ws), len(allsigs))
        for w, f, (t0, sdt, vs) in zip(ws, fs, allsigs):
            ts = t0 + sdt * np.arange(len(vs))
            e = want(ts)
            if not np.array_equal(w.times, ts) or np.max(np.abs(np.array(w.values) - e)) > 1e-12 * max(1.0, float(np.max(np.abs(e)))):
                return "a waveform is not front_end(sum of all signals) on its signal's grid"
            if not np.array_equal(np.array(w.values), np.array(f.values)):
                return "a waveform differs from a fresh object's"
        if is_sys:
            long = obj._calculate_lead_in_times(x)
            n = len(long) - len(x)
            step = x[1] - x[0]
            if n < 0 or not np.array_equal(long[n:], x):
                return "lead-in grid does not end with the window"
            if n and np.max(np.abs(np.diff(long[:n + 1]) - step)) > 1e-9 * step:
                return "lead-in grid does not keep the sample spacing"
            if x[0] - long[0] < case["lead"] * (1 - 1e-9) - 1e-9 * step:
                return "lead-in grid covers %.6e s < lead-in time %.6e s" % (x[0] - long[0], case["lead"])
    except Exception as e:
        return "exception %s: %s" % (type(e).__name__, str(e)[:100])
    return None


# --------------------------------------------------------------------------------------------
# function-backed signals that are non-zero outside their window (continuous-wave tone, long tails) on a
# frequency-dependent antenna / system with the REAL apply_response: queries must not change what is stored.
# Twins with different query histories, the caller's own signal objects, one object received by two antennas.
TDT = 1e-9


def gen_twin_case(rng):
    def sigspec():
        form = rng.choice(["cw", "cw", "tail", "chirp"])
        return {"form": form, "t0": rng.randint(-20, 40) * TDT, "n": rng.randint(24, 80),
                "amp": rng.choice([0.5, 1.0, 3.0]), "f0": rng.choice([1.5e8, 2.2e8, 3.1e8]),
                "ph": rng.uniform(0, 6.28), "tau": rng.choice([5e-9, 30e-9, 200e-9])}
    sigs = [sigspec() for _ in range(rng.randint(1, 3))]
    qs = []
    for _ in range(rng.randint(2, 7)):
        s0 = rng.choice(sigs)
        kind = rng.choice(["inside", "coarse", "super", "far", "during", "all", "waves", "hit", "signals"])
        if kind in ("inside", "during"):
            a = rng.randint(0, s0["n"] // 3)
            qs.append([kind, s0["t0"] + a * TDT, TDT, rng.randint(4, max(5, s0["n"] - a - 1))])
        elif kind == "coarse":
            qs.append([kind, s0["t0"] + rng.randint(0, 5) * TDT, rng.choice([2, 3, 0.5]) * TDT, rng.randint(4, 12)])
        elif kind == "super":
            qs.append([kind, s0["t0"] - rng.randint(3, 30) * TDT, TDT, s0["n"] + rng.randint(10, 60)])
        elif kind == "far":
            qs.append([kind, s0["t0"] + rng.choice([-1, 1]) * rng.randint(500, 5000) * TDT, TDT, rng.randint(8, 40)])
        else:
            qs.append([kind])
    return {"kind": rng.choice(["dip", "sys", "sys"]), "lead": rng.choice([0.0, 5e-9, 12.5e-9]),
            "fe": rng.choice(["I", "H"]), "sigs": sigs, "queries": qs, "thr": rng.choice([0.0, 0.2, 1.0])}


def twin_oracle(case):
    np, pyrex, Signal, FunctionSignal = _mods()
    from pyrex.antenna import DipoleAntenna
    from pyrex.detector import AntennaSystem

    def make(sp):
        t = sp["t0"] + TDT * np.arange(sp["n"])
        amp, f0, ph, tau, tc = sp["amp"], sp["f0"], sp["ph"], sp["tau"], sp["t0"] + 0.3 * sp["n"] * TDT
        if sp["form"] == "cw":
            f = lambda x: amp * np.sin(2 * np.pi * f0 * np.asarray(x) + ph)
        elif sp["form"] == "tail":
            f = lambda x: amp * np.exp(-np.abs(np.asarray(x) - tc) / tau)
        else:
            f = lambda x: amp * np.sin(2 * np.pi * f0 * np.asarray(x) * (1 + 2e6 * np.asarray(x)) + ph)
        return FunctionSignal(t, f, Signal.Type.voltage)

    def build_obj():
        d = DipoleAntenna("d", (0, 0, -100), 250e6, 100e6, 300, 50, trigger_threshold=case["thr"], noisy=False)
        if case["kind"] == "dip":
            return d
        fe = case["fe"]

        class Sys(AntennaSystem):
            lead_in_time = case["lead"]

            def front_end(self, signal):
                return signal * 0.5 if fe == "H" else signal
        return Sys(d)

    def stored(o):
        inner = o.antenna if case["kind"] == "sys" else o
        out = [np.array(x.values) for x in inner.signals]
        if case["kind"] == "sys":
            out += [np.array(x.values) for x in o.signals]
        return out

    def run_queries(o):
        for q in case["queries"]:
            if q[0] in ("inside", "coarse", "super", "far"):
                o.full_waveform(q[1] + q[2] * np.arange(q[3])).values
            elif q[0] == "during":
                o.is_hit_during(q[1] + q[2] * np.arange(q[3]))
            elif q[0] == "all":
                [w.values for w in o.all_waveforms]
            elif q[0] == "waves":
                [w.values for w in o.waveforms]
            elif q[0] == "hit":
                o.is_hit
            elif q[0] == "signals" and case["kind"] == "sys":
                [x.values for x in o.signals]

    def same(a, b):
        return len(a) == len(b) and all(np.array_equal(x, y) for x, y in zip(a, b))
    import logging
    lg = logging.getLogger("pyrex")
    level = lg.level
    lg.setLevel(logging.CRITICAL)      # the dipole response without force_real logs an amplitude-loss warning
    try:
        s0 = case["sigs"][0]
        wfix = s0["t0"] + 2 * TDT + TDT * np.arange(max(4, s0["n"] - 6))
        # (1) twins with different query histories
        a_obj, b_obj = build_obj(), build_obj()
        mine = [make(sp) for sp in case["sigs"]]              # the caller's objects, handed to B
        for sp in case["sigs"]:
            a_obj.receive(make(sp))
        for sg in mine:
            b_obj.receive(sg)
        v0 = stored(a_obj)                                   # read BEFORE any query
        w0 = np.array(a_obj.full_waveform(wfix).values)
        run_queries(b_obj)
        if not same(stored(b_obj), v0):
            return "what is stored in `signals` depends on the waveform / trigger queries made before it is read"
        if not np.array_equal(np.array(b_obj.full_waveform(wfix).values), w0):
            return "full_waveform over a fixed window depends on earlier queries over other windows"
        # (2) the caller's own signal objects are unchanged by any query
        for sg, sp in zip(mine, case["sigs"]):
            ref = make(sp)
            if sg._buffers != ref._buffers or not np.array_equal(sg.times, ref.times) \
                    or not np.array_equal(np.array(sg.values), np.array(ref.values)):
                return "a query changed the caller's original signal object (buffers / times / values)"
        # (3) one signal object received by two antennas: querying one must not change the other
        shared = make(s0)
        c1, c2, ctrl = build_obj(), build_obj(), build_obj()
        c1.receive(shared)
        c2.receive(shared)
        ctrl.receive(make(s0))
        run_queries(c1)
        if not same(stored(c2), stored(ctrl)) or not np.array_equal(np.array(c2.full_waveform(wfix).values),
                                                                     np.array(ctrl.full_waveform(wfix).values)):
            return "querying one antenna changed what another antenna that received the same signal object reports"
    except Exception as e:
        return "exception %s: %s" % (type(e).__name__, str(e)[:120])
    finally:
        lg.setLevel(level)
    return None


# --------------------------------------------------------------------------------------------
# search: property-level oracles on the implementation alone
def _interp0(np, ts, vs, x):
    return np.interp(x, ts, vs, left=0, right=0)


def oracle(cfg, ops):
    """replays `ops`; after every query compares with (a) a fresh object fed the same signals and
    (b) the direct sum of interpolated signals (noiseless).  Returns None or a description."""
    np, pyrex, Signal, FunctionSignal = _mods()
    is_sys = cfg["kind"] == "sys"
    scale = 0.5 if (is_sys and cfg["fe"] == "H") else 1.0
    summable = not cfg["noisy"] and (not is_sys or cfg["fe"] in "IH")     # pointwise front ends only
    thr = cfg["thr"]
    if is_sys and cfg.get("sthr") is not None:
        thr = cfg["sthr"]                                     # the system's own trigger
    with patched_noise() as ncls:
        obj = build(cfg)
        inner = obj.antenna if is_sys else obj
        sigs = []
        noise_seen = {}      # absolute time -> value, for the current realisation
        for i, op in enumerate(ops):
            k = op[0]
            try:
                if k == "RX":
                    # a refused reception must leave the object exactly as it was (the fresh twin below never sees it)
                    before = (len(inner.signals), len(obj.signals), len(obj._all_waves), len(obj._triggers),
                              inner._noise_master)
                    why = silent_op(obj, op, None)
                    if why:
                        return "op %d: %s" % (i, why)
                    after = (len(inner.signals), len(obj.signals), len(obj._all_waves), len(obj._triggers),
                             inner._noise_master)
                    if after != before:
                        return "op %d: a refused reception changed the antenna (signals/caches %s -> %s)" % (
                            i, before[:4], after[:4])
                    continue
                if k in ("WX", "WH"):
                    op, k = tuple(op), "W"          # checked as the `waveforms` query it is; then the list is used
                    use_after = op
                else:
                    use_after = None
                if k in ("R", "R2", "RE", "RE2", "RM"):
                    sigs.append((list(op[1]), [0.0] * len(op[1]) if k in ("RE", "RE2") else
                                 list(op[2]) if k in ("R", "RM") else [a + b for a, b in zip(op[2], op[3])]))
                    apply_op(obj, op, is_sys)
                    continue
                if k == "C":
                    apply_op(obj, op, is_sys)
                    sigs = []
                    if op[1]:
                        noise_seen = {}
                    if len(obj.signals) or len(obj._all_waves) or len(obj._triggers) or inner.signals \
                            or inner._all_waves or inner._triggers or (op[1] and inner._noise_master is not None):
                        return "op %d: clear left state behind" % i
                    if obj.is_hit or len(obj.all_waveforms) or len(obj.waveforms):
                        return "op %d: cleared antenna still reports hits" % i
                    continue
                if k == "N":
                    w = obj.make_noise(times_arg(op))
                    if not is_sys:
                        for t, v in zip(op[1], w.values):
                            if noise_seen.setdefault(t, v) != v:
                                return "op %d: noise changed at the same absolute time without reset" % i
                    continue
                if k == "S":
                    # independent recomputation: front end applied to the signal on its lead-in grid
                    # (n = floor(lead/dt)+1 extra samples in front), read off on the signal's own grid
                    got = obj.signals
                    if len(got) != len(sigs):
                        return "op %d: %d processed signals for %d received" % (i, len(got), len(sigs))
                    for j, (g, (ts, vs)) in enumerate(zip(got, sigs)):
                        step = ts[1] - ts[0]
                        n = int(np.floor(cfg["lead"] / step)) + 1
                        long = [ts[0] - (n - q) * step for q in range(n)] + list(ts)
                        pre = np.interp(long, ts, vs, left=0, right=0)
                        post = fe_apply(cfg["fe"], pre)
                        if list(g.times) != list(ts) or list(g.values) != list(post[n:]):
                            return "op %d: processed signal %d is not front_end(signal on its lead-in grid)" % (i, j)
                    continue
                if k == "I":
                    apply_op(obj, op, is_sys)
                    continue
                # a fresh object fed the same signals (same noise realisation)
                if (cfg["noisy"] or k == "M") and inner._noise_master is None:
                    inner.make_noise(np.array([0.0, 1.0]))      # realisation exists before the comparison
                fresh = build(cfg)
                finner = fresh.antenna if is_sys else fresh
                finner._noise_master = inner._noise_master
                for ts, vs in sigs:
                    fresh.receive(Signal(np.array(ts), np.array(vs), Signal.Type.voltage))

                def total(x):
                    tot = np.zeros(len(x))
                    for ts, vs in sigs:
                        tot = tot + _interp0(np, ts, vs, np.array(x))
                    return scale * tot

                def fe_of_sum(x):
                    """every front end: front_end(sum of the signals on an independently built lead-in grid)"""
                    step = x[1] - x[0]
                    n = int(np.floor(cfg["lead"] / step)) + 1
                    long = [x[0] - (n - q) * step for q in range(n)] + list(x)
                    tot = np.zeros(len(long))
                    for ts, vs in sigs:
                        tot = tot + _interp0(np, ts, vs, np.array(long))
                    return fe_apply(cfg["fe"], tot)[n:]

                def trig(vals):
                    return True if thr is None else bool(max(abs(v) for v in vals) > thr)
                if k == "A":
                    got, ref = obj.all_waveforms, fresh.all_waveforms
                    if len(got) != len(sigs):
                        return "op %d: %d waveforms for %d received signals" % (i, len(got), len(sigs))
                    for j, (g, r, s) in enumerate(zip(got, ref, sigs)):
                        if list(g.times) != s[0]:
                            return "op %d: waveform %d not on its signal's grid" % (i, j)
                        if list(g.values) != list(r.values):
                            return "op %d: waveform %d differs from a fresh antenna's" % (i, j)
                        if summable and list(g.values) != list(total(s[0])):
                            return "op %d: waveform %d is not the sum of the received signals" % (i, j)
                        if is_sys and not cfg["noisy"] and list(g.values) != list(fe_of_sum(s[0])):
                            return "op %d: waveform %d is not front_end(sum of the signals on the lead-in grid)" % (i, j)
                elif k == "W":
                    got, ref = obj.waveforms, fresh.waveforms
                    if [list(g.values) for g in got] != [list(r.values) for r in ref]:
                        return "op %d: triggered waveforms differ from a fresh antenna's" % i
                    allw = obj.all_waveforms
                    exp = [w for w in allw if trig(w.values)]
                    if [id(w) for w in got] != [id(w) for w in exp]:
                        return "op %d: triggered waveforms are not the trigger-satisfying ones in order" % i
                elif k == "H":
                    h = bool(obj.is_hit)
                    if h != bool(fresh.is_hit) or h != any(trig(w.values) for w in obj.all_waveforms):
                        return "op %d: is_hit inconsistent" % i
                elif k in "FD":
                    x = op[1]
                    if k == "F":
                        g = obj.full_waveform(times_arg(op))        # list / tuple / int forms must agree with
                        r = fresh.full_waveform(np.array(x))        # the float-array form on a fresh object
                        if [float(t) for t in g.times] != list(x) or list(g.values) != list(r.values):
                            return "op %d: full_waveform differs from a fresh antenna's" % i
                        if summable and list(g.values) != list(total(x)):
                            return "op %d: full_waveform is not the sum of the received signals" % i
                        if is_sys and not cfg["noisy"] and list(g.values) != list(fe_of_sum(x)):
                            return "op %d: full_waveform is not front_end(sum of the signals on the lead-in grid)" % i
                    else:
                        h = bool(obj.is_hit_during(times_arg(op)))
                        if h != bool(fresh.is_hit_during(np.array(x))):
                            return "op %d: is_hit_during differs from a fresh antenna's" % i
                        if h != trig(obj.full_waveform(np.array(x)).values):
                            return "op %d: is_hit_during is not the trigger applied to full_waveform(times)" % i
                elif k == "M":
                    h = bool(obj.is_hit_mc_truth)
                    if is_sys or cfg["noisy"]:
                        exp = any(trig(w.values) and not trig(obj.make_noise(w.times).values)
                                  for w in obj.all_waveforms)
                    else:
                        exp = bool(obj.is_hit)
                    if h != bool(fresh.is_hit_mc_truth) or h != exp:
                        return ("op %d: is_hit_mc_truth is not 'some triggered waveform whose noise alone does not "
                                "trigger'" % i)
                if cfg["noisy"] and inner._noise_master is not finner._noise_master:
                    return "op %d: noise master replaced during a query" % i
                if use_after is not None:
                    use_returned_list(obj, use_after, obj.waveforms)
                if held_changed(obj):
                    return "op %d: a list returned by `waveforms` earlier changed after it was handed out" % i
            except Exception as e:
                return "op %d (%s): exception %s: %s" % (i, k, type(e).__name__, str(e)[:100])
        if held_changed(obj):
            return "a list returned by `waveforms` changed after it was handed out (clear / later receptions)"
    return None


def search(run, deep):
    for _ in range(run.scale(100, 1000)):
        dt = run.rng.choice([0.5, 1.0, 2.0])
        lead = dt * run.rng.choice([0, 0.25, 1, 2.5, 3, 10, 7.75])
        g = gen_grid(run.rng, dt)
        run.case(("leadin-oracle", dt, lead, tuple(g)))
        why = leadin_oracle(dt, lead, g)
        if why:
            run.fail_input("leadin", {"dt": dt, "lead": lead, "grid": g}, observed=why, what=why)
            break
    for _ in range(run.scale(60, 600)):
        case = gen_twin_case(run.rng)
        run.case(("twin", str(case)))
        why = twin_oracle(case)
        if why:
            run.fail_input("twin", case, observed=why, what=why[:200])
            if len(run.violations) >= 3:
                return
    for _ in range(run.scale(120, 1500)):
        case = gen_decimal_case(run.rng)
        run.case(("decimal-grid", str(case)))
        why = decimal_oracle(case)
        if why:
            run.fail_input("decimal-grid", case, observed=why, what=why[:200])
            if len(run.violations) >= 3:
                return
    for _ in range(1500 if deep else run.scale(150, 1500)):
        case = gen_real_noise_case(run.rng)
        run.case(("real-noise-oracle", str(case)), nontrivial=real_noise_nontrivial(case))
        why = real_noise_oracle(case)
        if why:
            small = shrink_real_noise(case)
            run.fail_input("real-noise", small, observed=real_noise_oracle(small), what=why[:200],
                           expected="the same noise value at the same absolute time until clear(reset_noise=True)")
            if len(run.violations) >= 3:
                return
    n = 4000 if deep else run.scale(900, 4000)
    for _ in range(n):
        cfg = gen_cfg(run.rng)
        ops = gen_history(run.rng, cfg)
        run.case(("oracle", sorted(cfg.items()), request(cfg, ops)), nontrivial=nontrivial(ops))
        why = oracle(cfg, ops)
        if why:
            ops2 = shrink(cfg, ops)
            run.fail_input("history", {"cfg": cfg, "ops": ops2, "request": request(cfg, ops2)},
                           observed=oracle(cfg, ops2), what=why)
            if len(run.violations) >= 3:
                break


def leadin_oracle(dt, lead, g):
    """lead-in grid: keeps the spacing, ends with the grid, covers at least the lead-in time"""
    np = _mods()[0]
    cfg = {"kind": "sys", "noisy": 0, "dt": dt, "thr": None, "lead": lead, "fe": "I", "inner": "ant"}
    long = list(build(cfg)._calculate_lead_in_times(np.array(g)))
    n = len(long) - len(g)
    if n < 0 or long[n:] != list(g):
        return "lead-in grid does not end with the grid itself"
    step = g[1] - g[0]
    if any(long[i + 1] - long[i] != step for i in range(n)):
        return "lead-in grid does not keep the sample spacing"
    if g[0] - long[0] < lead:
        return "lead-in grid covers %s < lead-in time %s" % (g[0] - long[0], lead)
    return None


def shrink(cfg, ops):
    """greedy removal of operations while the oracle still fails"""
    ops = list(ops)
    changed = True
    while changed and len(ops) > 1:
        changed = False
        for i in range(len(ops)):
            cand = ops[:i] + ops[i + 1:]
            if cand and oracle(cfg, cand):
                ops = cand
                changed = True
                break
    return ops


def replay(run, data):
    inp = data["input"]
    if data["kind"] == "twin":
        why = twin_oracle(inp)
        if why:
            run.fail_input("twin", inp, observed=why, what=why[:200])
        return
    if data["kind"] == "decimal-grid":
        why = decimal_oracle(inp)
        if why:
            run.fail_input("decimal-grid", inp, observed=why, what=why[:200])
        return
    if data["kind"] == "real-noise":
        why = real_noise_oracle(inp)
        if why:
            run.fail_input("real-noise", inp, observed=why, what=why[:200])
        return
    if data["kind"] == "leadin":
        why = leadin_oracle(inp["dt"], inp["lead"], inp["grid"])
        if why:
            run.fail_input("leadin", inp, observed=why, what=why)
        return

    def norm(o):
        return tuple(norm(x) if isinstance(x, (list, tuple)) and x and isinstance(x[0], str) else x for x in o)
    ops = [norm(o) for o in inp["ops"]]
    why = oracle(inp["cfg"], ops)
    if why:
        run.fail_input("history", inp, observed=why, what=why)
