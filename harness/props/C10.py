"""C10 - the event kernel delivers one time-aligned signal per ray solution, for any component combination.

Three ties between lean/PyrexVerif/D/Kernel.lean and pyrex/kernel.py:
 * translator harness/extract/interfaces.py regenerates Gen/Interfaces.lean (signatures of every shipped
   tracer / path / signal / generator / antenna / writer / ice class and the call sites of kernel.event);
   theorem C10_interfaces_ok is re-proved over it;
 * exact run with recording stubs (tracer returning none or 0..3 paths, signal model raising ValueError on demand,
   multi-particle events and event trees, weights below the cuts, off-cone views, trigger none / function / dict,
   writer on / off): everything the kernel hands to antennas, writer and caller is compared with the model;
 * run of the REAL kernel over the shipped component combinations; the model is fed the independently
   recomputed tracer results and must predict counts, kinds (pulse / empty), grids and writer arguments.
"""
import os
import shutil
import tempfile
from fractions import Fraction

import framework as fw

LEVEL = "proof"
TECHNIQUE = "Lean 4 fold model + AST-regenerated interface table (decide) + recording stubs + real-kernel sweep"
RULE = ("stub kernels: 1-3 consecutive event() calls on one kernel object (events may repeat; between calls the "
        "antenna container may be changed IN PLACE: antenna appended, removed, all objects replaced), each event 1-5 "
        "particles incl. NON-SHOWERING ones (shower fractions 0, energy exactly 0, a lepton with the base Interaction "
        "model; in the real run also nu_tau -> tau -> decay chains), which are particles like any other; 1-5 "
        "particles (roots and children, particles sharing a vertex, the same Particle object twice), 1-3 antennas, "
        "tracer table none | 0..3 paths per (vertex, antenna), signal model refusing some (particle, path) pairs, "
        "aliasing probes (received signals / writer lists must not share or later change state), viewing angles "
        "at -30..+100 degrees from the Cherenkov angle, weights in {None, 0.0, -0.0, numpy 0.0, int 0, 1/16, "
        "1/4, 1/2, 1} (exact zeros, values equal to the cut) and forced weights against weight_min in {None, 0, 0.1, "
        "0.25, 0.5, (0.5,0.5), (0.25,0.75), (0,0.5), (0.25,0), (1/16,1/16)}, offcone_max in {None, 5, 20}, triggers none | function | dict, writer on/off, "
        "real kernels (two consecutive events each; the container is a list or a Detector rebuilt with build_antennas, "
        "changed in place before the second event in half of the cases; list/file events have particles sharing a vertex and repeated "
        "Particle objects): {Specialized, Basic, Uniform(+UniformIce), "
        "Layered(+LayeredIce)} x {ARZ, AVZ, ZHS} x {Cylindrical, Rectangular, List, File} x offcone {None,5} x "
        "weight_min {None,0.1,(0.5,0.5)} x interpolation {None,0.1} x writer x trigger {None,fn,dict}, three antennas "
        "(one above the ice); a viewing-angle sweep 0.5..179.5 degrees (also behind the shower axis; Specialized, Uniform, and "
        "Uniform with one reflection so that second solutions have path_length >> separation) for ZHS / AVZ / ARZ / "
        "ARVZ; stored values compared with model(angle, distance) -> propagate -> antenna response (rel 1e-9) in the "
        "sweep and on a sample of the other events; quick samples the product, thorough enumerates it; non-trivial = at least one signal "
        "received; distinct = distinct requests")
LEVEL_TEXT = ("theorems over all events / antenna sets / component functions of the Lean fold model; interface "
              "theorem by kernel evaluation over the table regenerated from the AST; model tied to kernel.py by an "
              "exact recording-stub run and a tolerance run (grids rel 1e-12) of the real kernel")
LEVEL_NOTE = ("C10_aligned assumes that propagate delays its input grid by the path's tof (property C03) - checked on "
              "every real combination; exceptions other than ValueError from a signal model propagate and are not "
              "modelled; antennas are assumed to be distinct objects that only record what they receive; object identity / "
              "aliasing of the signals and lists handed over is outside the Lean value model and is checked by the "
              "harness only (mutation and shares_memory probes after every event; C10_fresh_objects is the allocation-level "
              "statement behind them). Shipped Askaryan models are expected to raise ValueError only for |angle| > 180 "
              "degrees (their documented check); any other ValueError that the kernel would turn into an empty signal is "
              "reported. Zero antennas, events without particles and views exactly ON the off-cone limit (the model is "
              "handed the float |psi-theta_c| the code computes) are inside the model and generated. weight_min forms "
              "outside scalar | pair of numbers (numpy-array pair, 1-tuple, string, pair of None) and an exhausted "
              "ListGenerator(loop=False) make event() raise (ValueError / IndexError / TypeError / StopIteration) - "
              "checked on every run; a 3-tuple is read as its first two entries. The only skip counter is "
              "real_skipped_known_K11 (BasicRayTracer NaN in brentq, known finding). No _partial theorem.")
CHECKER_MODULES = ["PyrexVerif.Proofs.Kernel", "PyrexVerif.Gen.Interfaces", "PyrexVerif.D.Kernel"]
EXTRACTORS = ["interfaces"]
ASSUMPTIONS = ["the signature reader (harness/extract/interfaces.py) reflects Python's argument binding "
               "(positional-or-keyword, keyword-only, defaults, *args/**kwargs)",
               "for particle in event iterates Event._all in insertion order",
               "propagate shifts the time grid by tof (C03) - used only by C10_aligned, checked in the real run"]

DEG = 3.141592653589793 / 180.0


def _np():
    import numpy as np
    return np


def frs(x):
    f = Fraction(float(x))
    return str(f.numerator) if f.denominator == 1 else "%d/%d" % (f.numerator, f.denominator)


def opt(x):
    return "-" if x is None else frs(x)


def grid_s(ts):
    return "%d" % len(ts) + "".join(" " + frs(t) for t in ts)


class Log(list):
    pass


def stub_index(z):
    """index of refraction of the stub ice: depends on depth, so every vertex has its own Cherenkov angle"""
    return 1.5 if z > -250.0 else 1.25


def stub_vertex(vid):
    return (10.0 * vid, 0.0, -200.0 if vid % 2 else -300.0)


# =============================================================================================
# recording stubs
def make_stubs(ctx, log):
    """`ctx` is the mutable per-event context (tracer table, paths, refusals): the kernel object and
    its component classes live across several events, only the context changes."""
    np = _np()
    from pyrex.signals import Signal

    class StubIce:
        def index(self, z):
            return stub_index(float(z))
    ice = StubIce()

    class StubPath:
        def __init__(self, vid, ant, ent):
            self.vid, self.ant, self.id = vid, ant, ent["id"]
            self.tof = ent["tof"]
            self.emitted_direction = np.array(ent["e"])
            self.received_direction = -np.array(ent["e"])
            self.path_length = 100.25 + ent["id"]          # not an integer: a rounded distance is noticed
            self.outs = []

        def propagate(self, signal=None, polarization=None, attenuation_interpolation=None):
            log.append(("propagate", signal._pid, self.id, signal, polarization, attenuation_interpolation))
            a = Signal(signal.times + self.tof, signal.values, Signal.Type.field)
            b = Signal(signal.times + self.tof, 2 * signal.values, Signal.Type.field)
            a._tag = b._tag = (signal._pid, self.id)
            out = ([a, b], [np.array([1.0, 0, 0]), np.array([0, 1.0, 0])])
            self.outs.append(out)
            return out

    class StubTracer:
        def __init__(self, from_point, to_point, ice_model=None):
            key = (int(round(float(from_point[0]) / 10)), int(round(float(to_point[0]))))
            log.append(("tracer", key, ice_model is ice))
            self._sols = ctx["paths"][key]

        @property
        def exists(self):
            return self._sols is not None

        @property
        def solutions(self):
            return self._sols

    class StubSignal(Signal):
        def __init__(self, times, particle, viewing_angle, viewing_distance=1, ice_model=None, t0=0):
            # the keyword must be exactly the path length of ONE ray solution of this event (recorded as given)
            pathid = ctx["by_length"].get(float(viewing_distance))
            log.append(("signal", particle, pathid, float(viewing_angle), ice_model is ice, times,
                        float(viewing_distance)))
            if pathid is not None and (particle._pid, pathid) in ctx["refuse"]:
                raise ValueError("stub signal model refuses particle %d path %d" % (particle._pid, pathid))
            super().__init__(times, np.ones(len(times)), Signal.Type.field)
            self._pid = particle._pid
            self._pathid = pathid

    class StubAntenna:
        def __init__(self, i):
            self.position = np.array([float(i), 0.0, -50.0])
            self.calls = []

        def receive(self, signal, direction=None, polarization=None, force_real=False):
            first = signal[0] if isinstance(signal, list) else signal
            self.calls.append((signal, direction, polarization, np.array(first.times)))

        def clear(self):
            self.calls = []

    class Writer:
        is_open = True
        has_detector = True

        def __init__(self):
            self.calls = []

        def add(self, event, triggered=None, ray_paths=None, polarizations=None, events_thrown=1):
            self.calls.append(dict(event=event, triggered=triggered, ray_paths=[list(x) for x in ray_paths],
                                   polarizations=[list(x) for x in polarizations], events_thrown=events_thrown,
                                   raw_paths=ray_paths, raw_pols=polarizations))

        def create_analysis_metadataset(self, *a, **k):
            pass

        def add_analysis_metadata(self, *a, **k):
            pass

    def build_paths(table):
        return {k: (None if ents is None else [StubPath(k[0], k[1], e) for e in ents]) for k, ents in table.items()}
    return ice, build_paths, StubTracer, StubSignal, StubAntenna, Writer


def trig_fn(spec):
    if spec[0] == "K":
        return lambda ants: bool(spec[1])
    if spec[0] == "G":
        return lambda ants: len(list(ants)[spec[1]].calls) >= spec[2]
    return lambda ants: any(isinstance(c[0], list) for c in list(ants)[spec[1]].calls)


def trig_s(spec):
    return "%s %d %d" % tuple(spec) if spec[0] == "G" else "%s %d" % tuple(spec)


def build_event(evd):
    """-> (Event, {pid: Particle}, iteration order as pids).  Particles of one vertex group share a
    vertex; `dup_of` entries put the SAME Particle object into the event a second time."""
    import pyrex
    ps = {}
    for pe in evd["particles"]:
        if pe["dup_of"] is not None:
            continue
        shower = pe.get("shower", "normal")
        if shower == "base_model":       # a lepton with the base interaction model: shower fractions (0, 0)
            p = pyrex.Particle("tau", vertex=stub_vertex(pe["vid"]), direction=pe["dir"], energy=1e9,
                               interaction_model=pyrex.particle.Interaction, weight=pe["forced"])
        else:
            p = pyrex.Particle("nu_e", vertex=stub_vertex(pe["vid"]), direction=pe["dir"], energy=1e9,
                               interaction_type="cc", weight=pe["forced"])
            if shower == "zero_energy":
                p.energy = 0.0           # (the interaction model cannot be constructed at energy 0)
            if shower == "zero_frac":
                p.interaction.em_frac = 0
                p.interaction.had_frac = 0
        p.survival_weight = pe["sw"]
        p.interaction_weight = pe["iw"]
        p._pid = pe["id"]
        ps[pe["id"]] = p
    roots = [ps[pe["id"] if pe["dup_of"] is None else pe["dup_of"]] for pe in evd["particles"]
             if pe["parent"] is None]
    ev = pyrex.Event(roots)
    for pe in evd["particles"]:
        if pe["parent"] is not None:
            ev.add_children(ps[pe["parent"]], [ps[pe["id"]]])
    order = [p._pid for p in ev]
    return ev, ps, order


def nu_pol(np, d, e):
    from pyrex.internal_functions import normalize
    return normalize(np.vdot(e, d) * e - d)


def vid_of(evd, pid):
    return next(pe["vid"] for pe in evd["particles"] if pe["id"] == pid and pe["dup_of"] is None)


def run_stub(case):
    """one kernel, several consecutive event() calls.
    -> list of (request line for the model, reply text observed on the implementation)"""
    np = _np()
    import pyrex
    from pyrex.kernel import EventKernel
    from pyrex.signals import EmptySignal
    from pyrex.generation import ListGenerator
    log = Log()
    ctx = {"paths": {}, "refuse": set(), "by_length": {}}
    ice, build_paths, StubTracer, StubSignal, StubAntenna, Writer = make_stubs(ctx, log)
    built = []
    for evd in case["events"]:
        if evd.get("same_as") is not None:
            built.append(built[evd["same_as"]])
        else:
            built.append(build_event(evd) + (evd,))
    filler = pyrex.Event([pyrex.Particle("nu_e", (0, 0, -300), (0, 0, 1), 1e9, interaction_type="cc")])
    gen = ListGenerator([filler] + [b[0] for b in built], loop=False)
    gen.create_event()                      # count = 1 before the kernel exists
    ants = [StubAntenna(i) for i in range(case["nant"])]
    discarded = []

    class OnlyIter:
        """an antenna collection that promises what the kernel documents: len() and iteration, no indexing"""
        def __init__(self, items):
            self._items = items             # the caller's list itself: later in-place changes are visible

        def __len__(self):
            return len(self._items)

        def __iter__(self):
            return iter(self._items)
    form = case.get("ants_form", "list")
    ants_arg = tuple(ants) if form == "tuple" else OnlyIter(ants) if form == "iter" else ants
    wmin_arg = case["wmin"]
    if isinstance(wmin_arg, tuple) and case.get("wmin_form") == "list":
        wmin_arg = list(wmin_arg)
    elif isinstance(wmin_arg, tuple) and case.get("wmin_form") == "tuple3":
        wmin_arg = wmin_arg + (0.9,)                   # only the first two entries are looked at
    writer = Writer() if case["writer"] else None
    t = case["trig"]
    if t[0] == "N":
        triggers = None
    elif t[0] == "F":
        triggers = trig_fn(t[1])
    else:
        triggers = {k: trig_fn(s) for k, s in t[1]}
    times = np.array(case["times"])
    kern = EventKernel(gen, ants_arg, ice_model=ice, ray_tracer=StubTracer, signal_model=StubSignal,
                       signal_times=times, event_writer=writer, triggers=triggers,
                       offcone_max=case["offcone"], weight_min=wmin_arg,
                       attenuation_interpolation=case["interp"])
    offmax = float(np.radians(180 if case["offcone"] is None else case["offcone"]))
    wm = case["wmin"]
    if wm is None:
        wms = "S 0"
    elif isinstance(wm, tuple):
        wms = "P %s %s" % (frs(wm[0]), frs(wm[1]))
    else:
        wms = "S " + frs(wm)
    if t[0] == "N":
        ts_ = "N"
    elif t[0] == "F":
        ts_ = "F " + trig_s(t[1])
    else:
        ts_ = "D %d " % len(t[1]) + " ".join("%s %s" % (k, trig_s(s)) for k, s in t[1])
    results = []
    for k, (ev, ps, order, evd) in enumerate(built):
        ev._eid = 7 + k
        # the antenna container the kernel was given may be changed IN PLACE between calls
        change = case["events"][k].get("change")
        if change == "append":
            ants.append(StubAntenna(len(ants)))
        elif change == "pop":
            discarded.append(ants.pop())
        elif change == "rebuild":                                   # new antenna objects, the old ones are discarded
            discarded.extend(ants)
            ants[:] = [StubAntenna(i) for i in range(len(ants))]
        nant = len(ants)
        for a in discarded:
            a.calls = []                                            # anything they get from now on is a fault
        ctx["paths"] = paths = build_paths(evd["table"])       # fresh path objects for every call
        ctx["refuse"] = {tuple(x) for x in evd["refuse"]}
        ctx["by_length"] = {float(path.path_length): path.id for sols in paths.values() if sols for path in sols}
        for a in ants:
            a.clear()                                           # what detector.clear() does between events
        del log[:]
        gen.count = gen.count + case["events"][k]["extra_throws"]   # throws not returned since the last call
        seen = kern._gen_count
        try:
            res = kern.event()
        except KeyError:
            res = "keyerror"
        except Exception as e:
            results.append((None, "exception %s: %s" % (type(e).__name__, str(e)[:120])))
            break
        after = gen.count
        # ---- request for the model (independent recomputation of what the components answer)
        parts = []
        psi_of = {}
        for pid in order:
            p = ps[pid]
            vid = vid_of(evd, pid)
            theta_c = np.arccos(1 / ice.index(p.vertex[2]))
            # the model is handed |psi - theta_c| as the float the code computes (angle 0 for the cone), so that
            # its exact comparison with offcone_max is the code's float comparison - also exactly on the boundary
            s = "%d %s %s %s 0" % (pid, opt(p.survival_weight), opt(p.interaction_weight), opt(p._forced_weight))
            for i in range(nant):
                sols = paths[(vid, i)]
                if sols is None:
                    s += " N"
                else:
                    s += " S %d" % len(sols)
                    for path in sols:
                        psi = np.arccos(np.vdot(p.direction, path.emitted_direction))
                        psi_of[(pid, path.id)] = float(psi)
                        s += " %d %s %s %d" % (path.id, frs(path.tof), frs(float(np.abs(psi - theta_c))),
                                               0 if (pid, path.id) in ctx["refuse"] else 1)
            parts.append(s)
        req = "ev %d %s %s %s %s %d %d %d %d %d %s" % (
            nant, grid_s(case["times"]), wms, frs(offmax), ts_, 1 if writer else 0, seen, after, 7 + k,
            len(parts), " ".join(parts))
        # ---- what the implementation did, in the model's words
        bad = []
        allpaths = {path.id: path for sols in paths.values() if sols for path in sols}
        segs = []
        handed = []                          # every array of times handed to an antenna (object, snapshot)
        for i, a in enumerate(ants):
            out = []
            for sig, direction, pol, snap in a.calls:
                if isinstance(sig, EmptySignal) and direction is None and pol is None:
                    if sig.value_type != EmptySignal.Type.field:
                        bad.append("empty-signal-type")
                    out.append("E " + grid_s(snap))
                    handed.append((sig, snap))
                elif isinstance(sig, list) and all(hasattr(x, "_tag") for x in sig):
                    pid, pathid = sig[0]._tag
                    path = allpaths[pathid]
                    if not any(sig is o[0] and pol is o[1] for o in path.outs) \
                            or direction is not path.received_direction:
                        bad.append("receive-args")
                    out.append("P %d %d %s" % (pid, pathid, grid_s(snap)))
                    handed.append((sig[0], snap))
                else:
                    out.append("?")
            segs.append("a %d" % len(out) + "".join(" " + o for o in out))
        # aliasing: what was handed over must not change afterwards nor share mutable state
        if any(not np.array_equal(s.times, snap) for s, snap in handed):
            bad.append("signal-mutated-after-receive")
        if len({id(s) for s, _ in handed}) != len(handed):
            bad.append("same-signal-object-received-twice")
        for x in range(len(handed)):
            if np.shares_memory(handed[x][0].times, kern.signal_times) or any(
                    np.shares_memory(handed[x][0].times, handed[y][0].times) for y in range(x)):
                bad.append("received-signals-share-times")
                break
        if handed:
            handed[0][0].times += 1000.0                 # mutate one received signal in place ...
            if any(not np.array_equal(s.times, snap) for s, snap in handed[1:]) \
                    or not np.array_equal(kern.signal_times, times):
                bad.append("mutating-one-signal-changes-another")          # ... nothing else may move
            handed[0][0].times -= 1000.0
        if not np.array_equal(kern.signal_times, np.array(case["times"])):
            bad.append("signal_times-changed")
        # keyword arguments seen by the components
        for ent in log:
            if ent[0] == "tracer" and not ent[2]:
                bad.append("tracer-ice")
            if ent[0] == "signal":
                _, p, pathid, va, ice_ok, tms, vd = ent
                if pathid is None:
                    bad.append("viewing_distance=%r-is-no-solution's-path_length" % vd)
                elif not ice_ok or tms is not kern.signal_times or va != psi_of[(p._pid, pathid)] \
                        or vd != allpaths[pathid].path_length:
                    bad.append("signal-args")
            if ent[0] == "propagate":
                _, pid, pathid, sig, pol, interp = ent
                exp = nu_pol(np, ps[pid].direction, allpaths[pathid].emitted_direction)
                if not isinstance(sig, StubSignal) or interp != case["interp"] or not np.array_equal(pol, exp) \
                        or sig._pathid != pathid:          # the pulse built for THIS solution's path length
                    bad.append("propagate-args")

        def trig_txt(tr):
            if tr is None:
                return "none"
            if isinstance(tr, dict):
                return "d" + "".join(" %s=%d" % (kk, bool(v)) for kk, v in tr.items())
            return "b%d" % bool(tr)
        if isinstance(res, str):
            ret = res
            evid = 7 + k
        elif isinstance(res, tuple):
            ret = "event,%d" % bool(res[1])
            evid = res[0]._eid
        else:
            ret = "event"
            evid = res._eid
        if writer is None:
            wtxt = "written 0"
        elif len(writer.calls) != k + 1:
            wtxt = "written calls=%d" % len(writer.calls)
        else:
            w = writer.calls[-1]
            cand = {i: {} for i in range(nant)}
            for pid in set(order):
                vid = vid_of(evd, pid)
                for i in range(nant):
                    for path in paths[(vid, i)] or []:
                        cand[i][(pid, path.id)] = nu_pol(np, ps[pid].direction, path.emitted_direction)

            def pol_id(v, i):
                hits = [kk for kk, x in cand[i].items() if np.array_equal(x, v)]
                return "%d:%d" % hits[0] if len(hits) == 1 else "?"
            wtxt = "written 1 ev=%d thrown=%d trig=%s rp=%s pol=%s" % (
                w["event"]._eid, w["events_thrown"], trig_txt(w["triggered"]),
                ";".join(",".join(str(p.id) for p in l) for l in w["ray_paths"]),
                ";".join(",".join(pol_id(v, i) for v in l) for i, l in enumerate(w["polarizations"])))
            for i, seg in enumerate(segs):
                if i >= len(w["ray_paths"]) or i >= len(w["polarizations"]):
                    segs[i] = seg + " r ? q ?"            # the writer got fewer lists than there are antennas
                    continue
                segs[i] = seg + " r %d" % len(w["ray_paths"][i]) + "".join(" %d" % p.id for p in w["ray_paths"][i]) \
                    + " q %d" % len(w["polarizations"][i]) + "".join(" " + pol_id(v, i) for v in w["polarizations"][i])
            # the writer's lists are the kernel's own, not the tracers' solution lists, and distinct per antenna
            raw = w["raw_paths"]
            if len({id(l) for l in raw}) != len(raw) or any(l is s for l in raw for s in paths.values()):
                bad.append("ray_paths-lists-aliased")
            pol_arrays = [v for l in w["raw_pols"] for v in l]
            if len({id(v) for v in pol_arrays}) != len(pol_arrays):
                bad.append("polarization-arrays-aliased")
            if k > 0 and (raw is writer.calls[k - 1]["raw_paths"] or any(
                    l is m for l in raw for m in writer.calls[k - 1]["raw_paths"])):
                bad.append("ray_paths-reused-across-events")
        if kern._gen_count != after:
            bad.append("gen-count-not-updated")
        if any(a.calls for a in discarded):
            bad.append("discarded-antenna-object-was-fed")
        if writer is not None and writer.calls and (len(writer.calls[-1]["ray_paths"]) != nant
                                                    or len(writer.calls[-1]["polarizations"]) != nant):
            bad.append("writer-lists-not-one-per-current-antenna")
        txt = "ev %d | ret %s | %s" % (evid, ret, wtxt) + "".join(" | " + s for s in segs)
        if bad:
            txt += " | BAD " + ",".join(sorted(set(bad)))
        results.append((req, txt))
    return results


def model_view(reply, has_writer):
    """the part of the model's reply that is observable on the implementation"""
    segs = reply.split(" | ")
    out = [segs[0], segs[1]]             # ev, ret   (segs[2] = trig: only observable through the writer)
    out.append(segs[3])
    for s in segs[4:]:
        out.append(s if has_writer else s.split(" r ")[0])
    return " | ".join(out)


# ---------------------------------------------------------------------------------------------
def gen_stub_event(rng, nant, theta_c):
    np = _np()
    npart = rng.randint(1, 4) if rng.random() > 0.06 else 0       # also an event without any particle
    # None, exact zeros of every flavour (0.0, -0.0, numpy scalar, int), values equal to the cuts (1/4, 1/2)
    wpool = [None, None, 0.0, -0.0, np.float64(0.0), 0, 1 / 16, 1 / 4, 1 / 2, np.float64(0.5), 1.0, 1]
    nvid = rng.randint(1, max(1, npart - 1))          # fewer vertices than particles: shared vertices
    particles = []
    for k in range(npart):
        b = rng.choice([(0.0, 0.0, 1.0), (1.0, 0.0, 0.0), (0.0, 0.0, -1.0)])
        d = tuple(x + 0.013 * (k + 1) * y for x, y in zip(b, (0.3 + 0.07 * k, 0.5 - 0.03 * k, 0.2)))
        # (all directions distinct, also after projection onto any plane)
        if k == 0 and rng.random() < 0.4:
            d = b          # exactly axis-aligned: a path may leave exactly along it (psi = 0, nu_pol = 0 vector)
        particles.append({"id": k + 1, "vid": rng.randint(1, nvid), "sw": rng.choice(wpool), "iw": rng.choice(wpool),
                          "forced": rng.choice([None, None, None, None, 0.0, 1 / 8, 1 / 4, 1.0]), "dir": d, "base": b,
                          "parent": None if k == 0 or rng.random() < 0.6 else rng.randint(1, k), "dup_of": None,
                          # a particle that puts no energy into showers is a particle like any other
                          "shower": rng.choice(["normal"] * 5 + ["zero_frac", "zero_energy", "base_model"])})
    if particles and rng.random() < 0.3:               # the same Particle object once more, as a root
        src = rng.choice(particles)
        particles.append(dict(src, parent=None, dup_of=src["id"]))
    table = {}
    nid = 0
    first_dir = {}
    aligned = {}
    for pe in particles:
        first_dir.setdefault(pe["vid"], pe["base"])
        if pe["dir"] == pe["base"]:
            aligned[pe["vid"]] = pe["base"]
    for vid in range(1, nvid + 1):
        d0 = first_dir.get(vid, (0.0, 0.0, 1.0))
        for i in range(nant):
            if rng.random() < 0.15:
                table[(vid, i)] = None
                continue
            ents = []
            for _ in range(rng.choice([0, 1, 2, 2, 3, 3])):
                nid += 1
                delta = rng.choice([0, 2, -2, 4, 10, -10, 30, -30, 100]) * DEG
                psi = theta_c + delta
                phi = 0.1 + 0.37 * nid
                if d0[0] == 1.0:
                    e = (np.cos(psi), np.sin(psi) * np.cos(phi), np.sin(psi) * np.sin(phi))
                else:
                    e = (np.sin(psi) * np.cos(phi), np.sin(psi) * np.sin(phi), d0[2] * np.cos(psi))
                ents.append({"id": nid, "tof": rng.randint(1, 400) / 8.0, "e": tuple(float(x) for x in e)})
            if ents and aligned.get(vid) is not None and rng.random() < 0.5:
                ents[rng.randrange(len(ents))]["e"] = aligned[vid]       # emitted exactly along a particle direction
            table[(vid, i)] = ents
    # the signal model refuses some (particle, path) pairs - some, not all, of an antenna's solutions
    refuse = sorted({(pe["id"], e["id"]) for pe in particles if pe["dup_of"] is None for i in range(nant)
                     for e in (table[(pe["vid"], i)] or []) if rng.random() < 0.25})
    return {"particles": particles, "table": table, "refuse": refuse, "extra_throws": rng.choice([0, 0, 1, 5])}


def gen_stub_case(rng):
    np = _np()
    nant = rng.randint(1, 3) if rng.random() > 0.06 else 0         # also a kernel without any antenna
    theta_c = float(np.arccos(1 / 1.5))
    ants_form = rng.choice(["list", "list", "tuple", "iter"])      # the antenna collection
    events = [gen_stub_event(rng, nant, theta_c)]
    events[0]["nant"] = nant
    cur, changed = nant, False
    for _ in range(rng.choice([0, 1, 1, 2])):          # the kernel object is reused for further events
        change = None
        if ants_form != "tuple" and rng.random() < 0.4:          # ... after its container was changed in place
            change = rng.choice(["append", "rebuild"] + (["pop"] if cur > 0 else []))
            cur += {"append": 1, "pop": -1, "rebuild": 0}[change]
            changed = True
        if rng.random() < 0.25 and not changed:
            ev = {"same_as": 0, "extra_throws": rng.choice([0, 2])}
        else:
            ev = gen_stub_event(rng, cur, theta_c)
        ev["nant"], ev["change"] = cur, change
        events.append(ev)
    tk = rng.choice(["N", "F", "D", "D"])
    low = min(e["nant"] for e in events)               # trigger functions only look at antennas present throughout
    spec = lambda: (("K", int(rng.random() < 0.5)) if low == 0 or rng.random() < 0.1 else
                    rng.choice([("G", rng.randrange(low), rng.randint(0, 3)), ("U", rng.randrange(low))]))
    if tk == "N":
        trig = ("N",)
    elif tk == "F":
        trig = ("F", spec())
    else:
        keys = rng.sample(["global", "global", "two", "x"], rng.randint(1, 3))
        keys = [k for j, k in enumerate(keys) if k not in keys[:j]]
        trig = ("D", [(k, spec()) for k in keys])
    n = rng.randint(2, 5)
    t0 = rng.randint(-8, 8) / 4.0
    offcone = rng.choice([None, 5, 20])
    if rng.random() < 0.2:
        offcone = boundary_offcone(rng, events[0], nant, offcone)     # a view exactly ON the off-cone limit
    return {"nant": nant, "events": events, "times": [t0 + 0.25 * j for j in range(n)],
            "wmin": rng.choice([None, 0.0, 0.1, 0.25, 0.5, (0.5, 0.5), (0.25, 0.75), (0.0, 0.5), (0.25, 0.0),
                                (1 / 16, 1 / 16)]),
            "offcone": offcone, "interp": rng.choice([None, 0.1]),
            "trig": trig, "writer": rng.random() < 0.7,
            "wmin_form": rng.choice(["tuple", "tuple", "list", "tuple3"]),   # weight_min pair as tuple / list / longer
            "ants_form": ants_form}


def boundary_offcone(rng, evd, nant, default):
    """an `offcone_max` (degrees) whose radians are EXACTLY |psi - theta_c| of one (particle, path) of the event,
    as the kernel computes them in floating point; `default` when there is no path or no float hits it"""
    np = _np()
    from pyrex.internal_functions import normalize
    pairs = [(pe, e) for pe in evd["particles"] for i in range(nant) for e in (evd["table"][(pe["vid"], i)] or [])]
    if not pairs:
        return default
    pe, e = rng.choice(pairs)
    psi = np.arccos(np.vdot(normalize(pe["dir"]), np.array(e["e"])))
    delta = np.abs(psi - np.arccos(1 / stub_index(stub_vertex(pe["vid"])[2])))
    deg = float(np.degrees(delta))
    cands = [deg]
    lo = hi = deg
    for _ in range(40):
        lo, hi = float(np.nextafter(lo, -np.inf)), float(np.nextafter(hi, np.inf))
        cands += [lo, hi]
    for c in cands:
        if np.radians(c) == delta and 0 < c:
            return c
    return default


def event_def(case, k):
    evd = case["events"][k]
    return case["events"][evd["same_as"]] if evd.get("same_as") is not None else evd


def stub_nontrivial(case):
    return any(v for evd in case["events"] if "table" in evd for v in evd["table"].values())


def case_json(case):
    c = dict(case)
    c["events"] = [dict(e, table=[[list(k), v] for k, v in e["table"].items()]) if "table" in e else dict(e)
                   for e in case["events"]]
    return c


def case_from_json(c):
    c = dict(c)
    evs = []
    for e in c["events"]:
        e = dict(e)
        if "table" in e:
            e["table"] = {tuple(k): v for k, v in e["table"]}
            e["refuse"] = [tuple(x) for x in e["refuse"]]
            e["particles"] = [dict(pe, dir=tuple(pe["dir"]), base=tuple(pe["base"])) for pe in e["particles"]]
            for ents in e["table"].values():
                for ent in ents or []:
                    ent["e"] = tuple(ent["e"])
        evs.append(e)
    c["events"] = evs
    if isinstance(c["wmin"], list):
        c["wmin"] = tuple(c["wmin"])
    tr = c["trig"]
    if tr[0] == "F":
        c["trig"] = ("F", tuple(tr[1]))
    elif tr[0] == "D":
        c["trig"] = ("D", [(k, tuple(s)) for k, s in tr[1]])
    else:
        c["trig"] = ("N",)
    return c


# =============================================================================================
# the real kernel
class RealSetup:
    """shared, lazily built pieces of the real-component sweep"""
    def __init__(self, seed):
        np = _np()
        import pyrex
        from pyrex.ice_model import AntarcticIce, UniformIce
        from pyrex.ray_tracing import SpecializedRayTracer, BasicRayTracer, UniformRayTracer
        from pyrex.askaryan import ARZAskaryanSignal, AVZAskaryanSignal, ZHSAskaryanSignal
        from pyrex.custom.layered_ice import LayeredIce, LayeredRayTracer
        self.tracers = {
            "spec": (SpecializedRayTracer, AntarcticIce()),
            "basic": (BasicRayTracer, AntarcticIce()),
            "uni": (UniformRayTracer, UniformIce(1.6)),
            "unir": (type("UniformRayTracerRefl", (UniformRayTracer,), {"max_reflections": 1}),
                     UniformIce(1.6, valid_range=(-1000, 0))),          # reflected solutions: path length >> separation
            "lay": (LayeredRayTracer, LayeredIce([UniformIce(1.5, valid_range=(-200, 0), index_above=1),
                                                  UniformIce(1.7, valid_range=(-3000, -200), index_above=None)])),
        }
        from pyrex.askaryan import ARVZAskaryanSignal
        self.signals = {"ARZ": ARZAskaryanSignal, "AVZ": AVZAskaryanSignal, "ZHS": ZHSAskaryanSignal,
                        "ARVZ": ARVZAskaryanSignal}
        self.times = np.linspace(-20e-9, 80e-9, 128, endpoint=False)
        self.tmp = tempfile.mkdtemp(prefix="c10_")
        self.file = None

    def close(self):
        shutil.rmtree(self.tmp, ignore_errors=True)

    def list_events(self, rng, light=False, tau_ok=True):
        """multi-particle events: particles of one interaction share a vertex, and one Particle object
        may appear twice in an event.  `light`: two particles (+ repeat) only - every on-cone pulse costs
        ~0.3 s in Antenna.receive (deep copy of the propagated FunctionSignal), which matters when nothing is cut"""
        import pyrex
        np = _np()
        evs = []
        for k in range(2):
            verts = [(rng.uniform(40, 160), rng.uniform(-60, 60), rng.choice([-300.0, -450.0, -900.0]))
                     for _ in range(2)]
            ps = []
            for j in range(2 if light else 3):
                p = pyrex.Particle("nu_e", vertex=verts[0] if j < 2 else verts[1],
                                   direction=(rng.uniform(-1, 1), rng.uniform(-1, 1), rng.uniform(-1, 0.2)),
                                   energy=10 ** rng.uniform(8, 8.7), interaction_type="cc")
                # incl. exact zeros (what Generator.get_weights yields when exp(-x) underflows) and values equal
                # to the cuts used in the sweep (0.1 scalar, (0.5, 0.5) pair)
                p.survival_weight = rng.choice([1.0, 0.6, 0.05, 0.0, np.float64(0.0), -0.0, 0.5, 0.1, None])
                p.interaction_weight = rng.choice([1.0, 0.7, 0.3, 1.0, 0.0, 0.5, None])
                ps.append(p)
            if rng.random() < (0.3 if light else 0.5):
                ps.append(ps[rng.randrange(len(ps))])
            # non-showering particles in the middle of the event: shower fractions set to 0, energy exactly 0
            for p in ps[:1]:
                r = rng.random()
                if r < 0.25:
                    p.interaction.em_frac = 0
                    p.interaction.had_frac = 0
                elif r < 0.4 and tau_ok:         # (nor can a FileGenerator rebuild a particle of energy exactly 0)
                    p.energy = 0.0
            ev = pyrex.Event(ps)
            if tau_ok and not light and rng.random() < 0.5:     # (a FileGenerator cannot rebuild a charged lepton;
                # and every uncut pulse costs ~0.4 s of deep copying in Antenna.receive, hence not in `light` events)
                # nu_tau -> tau (base Interaction model: no shower) -> decay shower
                tau = pyrex.Particle("tau", vertex=verts[0], direction=ps[0].direction, energy=10 ** rng.uniform(8, 8.7),
                                     interaction_model=pyrex.particle.Interaction)
                decay = pyrex.Particle("nu_e", vertex=(verts[0][0] + 5.0, verts[0][1], verts[0][2] - 3.0),
                                       direction=ps[0].direction, energy=10 ** rng.uniform(8, 8.5),
                                       interaction_type="cc")
                ev.add_children(ps[0], [tau])
                ev.add_children(tau, [decay])
            evs.append(ev)
        return evs

    def angle_event(self, alpha_deg, tracer, ice):
        """one particle whose shower axis makes the angle `alpha` with the first ray solution towards
        antenna 0: viewing angles over the whole range 0..180 degrees, also behind the shower axis"""
        import pyrex
        np = _np()
        vertex = np.array([120.0, 40.0, -400.0])
        e = np.array(list(tracer(vertex, (0, 0, -100), ice_model=ice).solutions)[0].emitted_direction, dtype=float)
        u = np.cross(e, [0.0, 0.0, 1.0])
        u = u / np.linalg.norm(u)
        a = np.radians(alpha_deg)
        p = pyrex.Particle("nu_e", vertex=vertex, direction=np.cos(a) * e + np.sin(a) * u, energy=1e9,
                           interaction_type="cc")
        return pyrex.Event([p])

    def generator(self, kind, rng, light=False, tracer=None, ice=None):
        np = _np()
        from pyrex.generation import CylindricalGenerator, RectangularGenerator, ListGenerator, FileGenerator
        from pyrex.io import File
        if kind.startswith("ang:"):
            return ListGenerator([self.angle_event(float(kind[4:]), tracer, ice)])
        if kind == "cyl":
            return CylindricalGenerator(300, 900, 1e9)
        if kind == "rect":
            return RectangularGenerator(500, 400, 900, lambda: 10 ** np.random.uniform(8, 10))
        if kind == "list":
            return ListGenerator(self.list_events(rng, light))
        if self.file is None:
            self.file = os.path.join(self.tmp, "events.h5")
            with File(self.file, "w", write_rays=False, write_triggers=False, require_trigger=False) as f:
                for ev in self.list_events(rng, True, tau_ok=False) + self.list_events(rng, False, tau_ok=False):
                    f.add(ev)
        return FileGenerator(self.file)


K11_INPUTS = [((158.56017434364142, 0.9163620220348817, -25.211072081587826), (15, 5, -160)),
             ((-84.92308110016519, -7.7300708196662224, -14.974580780211813), (0, 0, -100)),
             ((-11.920061056863835, -89.97944697172835, -25.462571760239374), (15, 5, -160))]


def is_k6(combo, exc):
    """known finding K11: the numeric tracer's root search hits NaN for a shallow vertex"""
    return (combo[0] == "basic" and isinstance(exc, ValueError)
            and "is NaN; solver cannot continue" in str(exc))


def known_probes(run):
    np = _np()
    import logging
    import pyrex
    from pyrex.kernel import EventKernel
    from pyrex.generation import ListGenerator
    from pyrex.ice_model import AntarcticIce
    from pyrex.ray_tracing import BasicRayTracer
    from pyrex.askaryan import ZHSAskaryanSignal
    logging.disable(logging.CRITICAL)
    try:
        for vertex, pos in K11_INPUTS:
            p = pyrex.Particle("nu_e", vertex=vertex, direction=(0.3, 0.1, -0.5), energy=1e9, interaction_type="cc")
            kern = EventKernel(ListGenerator([pyrex.Event(p)]), [pyrex.Antenna(pos, noisy=False)],
                               ice_model=AntarcticIce(), ray_tracer=BasicRayTracer, signal_model=ZHSAskaryanSignal,
                               signal_times=np.linspace(-20e-9, 80e-9, 64, endpoint=False), offcone_max=5)
            try:
                kern.event()
            except ValueError as e:
                if is_k6(("basic",), e):
                    run.known_finding("K11")
    finally:
        logging.disable(logging.NOTSET)


COMBOS = None
SWEEP_ANGLES = [0.5, 20.0, 55.0, 70.0, 89.0, 91.0, 93.0, 120.0, 150.0, 179.5]


def angle_combos(rng, everything):
    """viewing-angle sweep 0..180 degrees (also behind the shower axis) for every shipped Askaryan model"""
    out = []
    for sname in ("ZHS", "AVZ", "ARZ", "ARVZ"):
        if everything:
            picks = [(a, o, t) for a in SWEEP_ANGLES for o in (None, 40) for t in ("spec", "uni", "unir")]
        else:
            picks = [(rng.choice([a for a in SWEEP_ANGLES if a < 90]), rng.choice([None, 40]),
                      "spec" if sname in ("ZHS", "ARZ") else "unir"),
                     (rng.choice([a for a in SWEEP_ANGLES if a > 90]), None, rng.choice(["spec", "uni", "unir"])),
                     (rng.choice([91.0, 93.0]), 40, "spec")]
        for j, (a, o, t) in enumerate(picks):
            # attenuation_interpolation None (no interpolation, documented) and 0.1 both occur with delivered pulses
            interp = (None if j % 2 == 0 else 0.1) if everything else (None if j == 0 else 0.1)
            out.append((t, sname, "ang:%s" % a, o, None, interp, True, "N"))
    return out


def all_combos():
    global COMBOS
    if COMBOS is None:
        COMBOS = [(t, s, g, o, w, a, wr, tr)
                  for t in ("spec", "basic", "uni", "lay") for s in ("ARZ", "AVZ", "ZHS")
                  for g in ("cyl", "rect", "list", "file") for o in (None, 5)
                  for w in (None, 0.1, (0.5, 0.5)) for a in (None, 0.1)
                  for wr in (True, False) for tr in ("N", "F", "D")]
    return COMBOS


def run_real(setup, combo, rng, nev=2):
    """one real kernel, `nev` consecutive event() calls (antennas cleared in between, as a detector is).
    -> list of (request, observation dict) ; raises on crashes"""
    np = _np()
    import pyrex
    from pyrex.kernel import EventKernel
    from pyrex.signals import EmptySignal
    tname, sname, gname, offc, wmin, interp, has_writer, tkind = combo
    tracer, ice = setup.tracers[tname]
    sm = setup.signals[sname]

    class RecAntenna(pyrex.Antenna):
        def __init__(self, position):
            super().__init__(position=position, noisy=False)
            self.calls = []

        def receive(self, signal, direction=None, polarization=None, force_real=False):
            first = signal[0] if isinstance(signal, (list, tuple)) else signal
            self.calls.append((signal, direction, polarization, np.array(first.times)))
            super().receive(signal, direction=direction, polarization=polarization, force_real=force_real)

    class Writer:
        is_open = True
        has_detector = True

        def __init__(self):
            self.calls = []

        def add(self, event, triggered=None, ray_paths=None, polarizations=None, events_thrown=1):
            self.calls.append(dict(event=event, triggered=triggered, ray_paths=[list(x) for x in ray_paths],
                                   polarizations=[list(x) for x in polarizations], events_thrown=events_thrown,
                                   raw_paths=ray_paths))

        def create_analysis_metadataset(self, *a, **k):
            pass

        def add_analysis_metadata(self, *a, **k):
            pass
    # the antenna container: a plain list (third antenna above the ice), or a Detector whose antennas are
    # (re)built with build_antennas; either may be changed IN PLACE between two event() calls of one kernel
    container = rng.choice(["list", "list", "det"])
    if container == "det":
        class Det(pyrex.Detector):
            def set_positions(self):
                self.antenna_positions = [(0, 0, -100), (15, 5, -160), (0, 0, -40)]
        holder = Det()
        holder.build_antennas(RecAntenna)
        ants = list(holder)
    else:
        holder = ants = [RecAntenna((0, 0, -100)), RecAntenna((15, 5, -160)), RecAntenna((0, 0, 40))]
    discarded = []
    np.random.seed(rng.randrange(2 ** 31))
    gen = setup.generator(gname, rng, light=offc is None, tracer=tracer, ice=ice)
    writer = Writer() if has_writer else None
    f1 = lambda d: len(d[0].signals) >= 1            # the model's `G 0 1`
    f2 = lambda d: len(d[1].signals) >= 1            # the model's `G 1 1`
    triggers = None if tkind == "N" else (f1 if tkind == "F" else {"two": f2, "global": f1})
    kern = EventKernel(gen, holder, ice_model=ice, ray_tracer=tracer, signal_model=sm, signal_times=setup.times,
                       event_writer=writer, triggers=triggers, offcone_max=offc, weight_min=wmin,
                       attenuation_interpolation=interp)
    times0 = np.array(setup.times)
    offmax = float(np.radians(180 if offc is None else offc))
    wms = "S 0" if wmin is None else ("P %s %s" % (frs(wmin[0]), frs(wmin[1])) if isinstance(wmin, tuple)
                                      else "S " + frs(wmin))
    ts_ = {"N": "N", "F": "F G 0 1", "D": "D 2 two G 1 1 global G 0 1"}[tkind]
    out = []
    for k in range(nev):
        change = None
        if k > 0 and rng.random() < 0.5:
            if container == "det":
                change = "rebuild"
                discarded.extend(ants)
                holder.build_antennas(RecAntenna)              # new antenna objects, the old ones are discarded
                ants = list(holder)
            elif rng.random() < 0.5:
                change = "append"
                ants.append(RecAntenna((30, -20, -120)))       # `ants` IS the list the kernel was given
            else:
                change = "rebuild"
                discarded.extend(ants)
                ants[:] = [RecAntenna(tuple(a.position)) for a in ants]
        nant = len(ants)
        for a in list(ants) + discarded:
            a.clear()
            a.calls = []
        if gname in ("cyl", "rect"):
            gen.count += rng.choice([0, 3])          # throws rejected before this call
        seen = kern._gen_count
        res = kern.event()
        after = gen.count
        ev = res[0] if isinstance(res, tuple) else res
        # ---- independent recomputation of the component answers
        parts, sol_of = [], {}
        particles = list(ev)
        for kk, p in enumerate(particles):
            pid = kk + 1
            theta_c = np.arccos(1 / ice.index(p.vertex[2]))
            s = "%d %s %s %s 0" % (pid, opt(p.survival_weight), opt(p.interaction_weight), opt(p._forced_weight))
            for i, a in enumerate(ants):
                rt = tracer(p.vertex, a.position, ice_model=ice)
                if not rt.exists:
                    s += " N"
                    continue
                sols = list(rt.solutions)
                s += " S %d" % len(sols)
                for j, path in enumerate(sols):
                    pathid = 1000 * pid + 100 * i + j
                    psi_np = np.arccos(np.vdot(p.direction, path.emitted_direction))
                    psi = float(psi_np)
                    # every shipped Askaryan model documents a single ValueError: |angle| > 180 degrees.  A viewing
                    # angle is an arccos, so inside the cut the kernel must deliver the model's pulse - the
                    # expectation is NOT taken from calling the (possibly changed) model
                    ok = 0.0 <= psi <= float(np.pi)
                    sol_of[pathid] = (pid, i, path, p, psi)
                    s += " %d %s %s %d" % (pathid, frs(path.tof), frs(float(np.abs(psi_np - theta_c))), ok)
            parts.append(s)
        req = "ev %d %s %s %s %s %d %d %d %d %d %s" % (nant, grid_s(setup.times), wms, frs(offmax), ts_,
                                                      1 if has_writer else 0, seen, after, 7, len(parts),
                                                      " ".join(parts))
        # ---- implementation, snapshotted now (the kernel and the antennas go on to the next event)
        recv, alias = [], []
        handed = []
        for i, a in enumerate(ants):
            o = []
            for sig, direction, pol, snap in a.calls:
                if isinstance(sig, EmptySignal) and direction is None:
                    o.append(("E", None, list(snap)))
                    handed.append((sig, snap))
                else:
                    o.append(("P", (direction, pol), list(snap)))
                    handed.append((sig[0], snap))
            recv.append(o)
        stored = [[np.array(s.times) for s in a.signals] for a in ants]
        objs = [s for a in ants for s in a.signals]
        if any(not np.array_equal(s.times, snap) for s, snap in handed):
            alias.append("a signal handed to an antenna was changed afterwards")
        if len({id(s) for s, _ in handed}) != len(handed):
            alias.append("the same signal object was handed to antennas twice")
        arrays = [s.times for s in objs] + [s.times for s, _ in handed]
        for x in range(len(arrays)):
            if np.shares_memory(arrays[x], kern.signal_times) or any(
                    arrays[x] is not arrays[y] and np.shares_memory(arrays[x], arrays[y]) for y in range(x)):
                alias.append("signals share their times array")
                break
        if objs:
            orig_times = np.array(objs[0].times)
            objs[0].times += 1.0                       # mutate one stored signal in place ...
            flat = [t for st in stored for t in st]
            if any(not np.array_equal(s.times, t) for s, t in list(zip(objs, flat))[1:]) \
                    or any(not np.array_equal(s.times, snap) for s, snap in handed):
                alias.append("mutating one received signal changes another")          # ... nothing else may move
            objs[0].times = orig_times                 # exact restore ((t+1)-1 is not t in floating point)
        if not np.array_equal(kern.signal_times, times0):
            alias.append("signal_times changed")
        if any(a.calls or len(a.signals) for a in discarded):
            alias.append("an antenna object no longer in the kernel's container was fed")
        wcall = None
        if writer is not None:
            if len(writer.calls) != k + 1:
                alias.append("writer called %d times after %d events" % (len(writer.calls), k + 1))
            else:
                wcall = writer.calls[k]
                if len(wcall["ray_paths"]) != nant or len(wcall["polarizations"]) != nant:
                    alias.append("writer got %d ray_paths / %d polarizations lists for %d antennas in the container"
                                 % (len(wcall["ray_paths"]), len(wcall["polarizations"]), nant))
                raw = wcall["raw_paths"]
                if len({id(l) for l in raw}) != len(raw) or (k > 0 and any(
                        l is m for l in raw for m in writer.calls[k - 1]["raw_paths"])):
                    alias.append("ray_paths lists are shared")
        # values of what the antennas stored, for the quantitative oracle (always in the viewing-angle sweep,
        # otherwise on a sample of the cheap events: every pulse costs a deep copy in Antenna.receive)
        npulse = sum(1 for r in recv for x in r if x[0] == "P")
        stored_vals = None
        if gname.startswith("ang:") or (npulse <= 4 and rng.random() < 0.4):
            stored_vals = [[np.array(s.values, dtype=float) for s in a.signals] for a in ants]
        out.append((req, dict(nant=nant, change=change, container=container,
                              stored_vals=stored_vals, ctx=(sm, interp, ice, [tuple(a.position) for a in ants]),
                              res=res, ev=ev, particles=particles, recv=recv, has_writer=writer is not None,
                              wcall=wcall, nsig=[len(a.signals) for a in ants], stored=stored, sol_of=sol_of,
                              seen=seen, after=after, e1=f1(ants), e2=f2(ants), tkind=tkind,
                              gen_ok=kern._gen_count == after, alias=alias, index=k)))
    return out


def expected_values(np, setup, ctx, i, p, path, psi):
    """independent evaluation of what antenna `i` must store for (particle, ray solution): the configured
    model's pulse at (viewing angle, path length) -> path.propagate -> antenna response.
    -> (values, None) or (None, complaint)"""
    import pyrex
    sm, interp, ice, positions = ctx
    try:
        pulse = sm(times=setup.times, particle=p, viewing_angle=psi, viewing_distance=path.path_length,
                   ice_model=ice)
    except ValueError as e:
        return None, ("%s raises ValueError('%s') at viewing angle %.2f deg, inside its documented domain [0, 180] - "
                      "the kernel turns that into a silently empty signal" % (sm.__name__, str(e)[:60], np.degrees(psi)))
    pulses, pols = path.propagate(signal=pulse, polarization=nu_pol(np, p.direction, path.emitted_direction),
                                  attenuation_interpolation=interp)
    fa = pyrex.Antenna(position=positions[i], noisy=False)
    fa.receive(pulses, direction=path.received_direction, polarization=pols)
    return np.array(fa.signals[0].values, dtype=float), None


def values_differ(np, exp, got):
    scale = float(np.max(np.abs(exp))) if len(exp) else 0.0
    if len(exp) != len(got) or not np.all(np.abs(exp - got) <= 1e-9 * scale + 1e-300):
        return "max |diff| %.3e, scale %.3e" % (float(np.max(np.abs(exp - got))) if len(exp) == len(got) else -1.0, scale)
    return None


def check_values(np, segs, obs, setup):
    import pyrex
    sm, interp, ice, positions = obs["ctx"]
    for i in range(obs["nant"]):
        toks = segs[4 + i].split()
        n = int(toks[1])
        pos = 2
        for j in range(n):
            kind = toks[pos]
            pos += 1
            got = obs["stored_vals"][i][j]
            if kind == "P":
                pathid = int(toks[pos + 1])
                pos += 2
                _, _, path, p, psi = obs["sol_of"][pathid]
                exp, complaint = expected_values(np, setup, obs["ctx"], i, p, path, psi)
                if complaint:
                    return "antenna %d signal %d: %s" % (i, j, complaint)
                d = values_differ(np, exp, got)
                if d:
                    return ("antenna %d signal %d: stored values differ from %s(angle=%.2f deg, distance=%.1f m) "
                            "passed through propagate (%s)" % (i, j, sm.__name__, np.degrees(psi), path.path_length, d))
            else:
                if np.any(got != 0):
                    return "antenna %d signal %d: a cut solution was stored with non-zero values" % (i, j)
            m = int(toks[pos])
            pos += 1 + m
    return None


def same_path(np, p, q):
    return (fw.close(q.tof, p.tof, 1e-12, 0) and fw.close(q.path_length, p.path_length, 1e-12, 0)
            and np.allclose(q.emitted_direction, p.emitted_direction, rtol=1e-12, atol=1e-15))


def compare_real(reply, obs, setup):
    """compare the model's prediction with what the real kernel did; returns None or a description"""
    np = _np()
    segs = reply.split(" | ")
    if len(segs) != 4 + obs["nant"]:
        return "model reply malformed: %s" % reply[:200]
    if obs["alias"]:
        return "shared mutable state: " + "; ".join(obs["alias"])
    w = obs["wcall"]
    if obs["has_writer"] and w is None:
        return "writer was not called once per event"
    for i in range(obs["nant"]):
        toks = segs[4 + i].split()
        n = int(toks[1])
        pos = 2
        got = obs["recv"][i]
        if n != len(got) or n != obs["nsig"][i]:
            return "antenna %d: model predicts %d signals, kernel delivered %d" % (i, n, len(got))
        ids = []
        for j in range(n):
            kind = toks[pos]
            pos += 1
            if kind == "P":
                pid, pathid = int(toks[pos]), int(toks[pos + 1])
                pos += 2
                ids.append(pathid)
            else:
                ids.append(None)
            m = int(toks[pos])
            grid = [Fraction(x) for x in toks[pos + 1:pos + 1 + m]]
            pos += 1 + m
            if kind != got[j][0]:
                return "antenna %d signal %d: model %s, kernel %s" % (i, j, kind, got[j][0])
            if len(grid) != len(got[j][2]) or not all(fw.close(float(a), b, 1e-12, 1e-18) for a, b in zip(grid, got[j][2])):
                return "antenna %d signal %d: grid is not signal_times + tof" % (i, j)
            if not np.allclose(obs["stored"][i][j], got[j][2], rtol=1e-12, atol=0):
                return "antenna %d signal %d: stored signal not on the received grid" % (i, j)
        assert toks[pos] == "r"
        nr = int(toks[pos + 1])
        rids = [int(x) for x in toks[pos + 2:pos + 2 + nr]]
        pos += 2 + nr
        nq = int(toks[pos + 1])
        qids = toks[pos + 2:pos + 2 + nq]
        if w is not None:
            if len(w["ray_paths"][i]) != nr:
                return "antenna %d: writer got %d ray paths, model (and signals) %d" % (i, len(w["ray_paths"][i]), nr)
            for p, rid in zip(w["ray_paths"][i], rids):
                if not same_path(np, p, obs["sol_of"][rid][2]):
                    return "antenna %d: ray_paths entry is not the path of the signal at that position (%d)" % (i, rid)
            if len(w["polarizations"][i]) != nq:
                return "antenna %d: %d polarizations for %d paths" % (i, len(w["polarizations"][i]), nq)
            for v, q in zip(w["polarizations"][i], qids):
                pid, pathid = (int(x) for x in q.split(":"))
                p = obs["particles"][pid - 1]
                exp = nu_pol(np, p.direction, obs["sol_of"][pathid][2].emitted_direction)
                if not np.allclose(v, exp, rtol=1e-9, atol=1e-12):
                    return "antenna %d: polarization does not belong to path %d" % (i, pathid)
        # pulses were received with the path's direction
        for j, pathid in enumerate(ids):
            if pathid is not None:
                d = obs["recv"][i][j][1][0]
                if not np.allclose(d, obs["sol_of"][pathid][2].received_direction, rtol=1e-9, atol=1e-12):
                    return "antenna %d signal %d: received with another path's direction" % (i, j)
    # quantitative: what an antenna stored for a ray solution is the configured model's pulse at that
    # (viewing angle, path length), passed through that path's propagate and the antenna response
    if obs["stored_vals"] is not None:
        why = check_values(np, segs, obs, setup)
        if why:
            return why
    # writer plumbing
    wseg = segs[3]
    if w is None:
        if wseg != "written 0":
            return "model expects a writer call"
    else:
        thrown = int(wseg.split("thrown=")[1].split()[0])
        if w["event"] is not obs["ev"] or w["events_thrown"] != thrown or thrown != obs["after"] - obs["seen"]:
            return "writer event/events_thrown wrong: %s vs model %d" % (w["events_thrown"], thrown)
    # trigger plumbing: evaluated on the antennas after reception
    res, tk = obs["res"], obs["tkind"]
    e1, e2 = obs["e1"], obs["e2"]
    if tk == "N":
        ok = not isinstance(res, tuple) and (w is None or w["triggered"] is None)
    elif tk == "F":
        ok = isinstance(res, tuple) and res[1] == e1 and (w is None or w["triggered"] == e1)
    else:
        ok = isinstance(res, tuple) and res[1] == e1 and (w is None or w["triggered"] == {"two": e2, "global": e1})
    if not ok:
        return "trigger result is not the supplied function(s) evaluated on the antennas"
    mt = segs[2]
    exp = {"N": "trig none", "F": "trig b%d" % e1, "D": "trig d two=%d global=%d" % (e2, e1)}[tk]
    if mt != exp:
        return "model trigger `%s` vs implementation `%s`" % (mt, exp)
    if not obs["gen_ok"]:
        return "_gen_count not updated"
    return None


def check_kernel_rejections(run):
    """inputs outside the model's `WeightMin` / `Gen` types: the implementation must raise, not go on"""
    np = _np()
    import pyrex
    from pyrex.kernel import EventKernel
    from pyrex.generation import ListGenerator
    ok = True

    def kernel(**kw):
        p = pyrex.Particle("nu_e", (100, 50, -300), (0.2, 0.1, -0.5), 1e9, interaction_type="cc")
        p.survival_weight, p.interaction_weight = 0.6, 0.7
        ants = [pyrex.Antenna((0, 0, -100), noisy=False)]
        return EventKernel(ListGenerator([pyrex.Event([p])], loop=kw.pop("loop", True)), ants,
                           signal_times=np.linspace(-20e-9, 80e-9, 64, endpoint=False), **kw), ants
    forms = [("numpy-array pair", dict(weight_min=np.array([0.5, 0.5])), (ValueError,)),
             ("1-tuple", dict(weight_min=(0.5,)), (IndexError,)),
             ("string", dict(weight_min="ab"), (TypeError,)),
             ("pair of None", dict(weight_min=(None, None)), (TypeError,))]
    for name, kw, types in forms:
        run.case(("kernel-rejects", name))
        try:
            k, ants = kernel(**kw)
            k.event()
            got = "no exception (%d signals delivered)" % len(ants[0].signals)
        except types:
            run.traces += 1
            run.count("kernel_rejects_" + name.replace(" ", "_"))
            continue
        except Exception as e:
            got = type(e).__name__
        ok = False
        run.note_broken("correspondence: weight_min as %s is outside the model (scalar | pair of numbers); the "
                        "implementation should raise %s, got %s" % (name, "/".join(t.__name__ for t in types), got))
    run.case(("kernel-rejects", "exhausted generator"))
    try:
        k, ants = kernel(loop=False)
        k.event()
        k.event()
        ok = False
        run.note_broken("correspondence: a ListGenerator(loop=False) past its end must raise StopIteration")
    except StopIteration:
        run.traces += 1
    return ok


# =============================================================================================
def correspondence(run):
    import logging
    logging.getLogger("pyrex").setLevel(logging.CRITICAL)      # the tracers log an error before raising (K11)
    ok = True
    # ---- stubs (exact)
    cases = [gen_stub_case(run.rng) for _ in range(run.scale(220, 2500))]
    reqs, imps, keep = [], [], []
    for c in cases:
        try:
            results = run_stub(c)
        except AssertionError:
            continue                      # a generated viewing angle sat on the off-cone boundary
        for k, (req, txt) in enumerate(results):
            if req is None:
                ok = False
                run.note_broken("correspondence: stub event %d crashed in the kernel: %s ; case %s"
                                % (k, txt, str(case_json(c))[:400]))
                continue
            reqs.append(req)
            imps.append(txt)
            keep.append((c, k))
        if len(run.broken) > 4:
            break
    replies = fw.run_driver("C10", reqs) if reqs else []
    for (c, k), rq, imp, rp in zip(keep, reqs, imps, replies):
        view = model_view(rp, c["writer"]) if rp != "bad-op" else rp
        evd = event_def(c, k)
        run.case(("stub", rq), nontrivial=stub_nontrivial(c), sample={"request": rq[:300], "model": rp[:300]})
        run.count("stub_trig_" + c["trig"][0])
        run.count("stub_writer_%d" % c["writer"])
        run.count("stub_wmin_%s" % ("none" if c["wmin"] is None else "pair" if isinstance(c["wmin"], tuple) else "scalar"))
        run.count("stub_recv_empty", imp.count(" E "))
        run.count("stub_recv_pulse", imp.count(" P "))
        run.count("stub_event_index_%d" % k)
        run.count("stub_events_with_non_showering_particle",
                  int(any(pe.get("shower", "normal") != "normal" for pe in evd["particles"])))
        run.count("stub_zero_antennas", int(c["events"][k].get("nant", c["nant"]) == 0))
        run.count("stub_container_changed_in_place_%s" % c["events"][k].get("change"))
        run.count("stub_empty_event", int(not evd["particles"]))
        run.count("stub_offcone_exactly_on_limit", int(c["offcone"] not in (None, 5, 20)))
        vids = [pe["vid"] for pe in evd["particles"] if pe["dup_of"] is None]
        run.count("stub_events_with_shared_vertex", int(len(set(vids)) < len(vids)))
        run.count("stub_events_with_repeated_particle_object", int(any(pe["dup_of"] is not None for pe in evd["particles"])))
        run.count("stub_antennas_with_2plus_empty", sum(1 for seg in imp.split(" | ")[3:] if seg.count(" E ") >= 2))
        if view == imp:
            run.traces += 1
        else:
            ok = False
            run.note_broken("correspondence: stub request (event %d of its kernel) `%s` model `%s` implementation `%s`"
                            % (k, rq[:500], view[:400], imp[:400]))
            if len(run.broken) > 5:
                break
    if not check_kernel_rejections(run):
        ok = False
    # ---- the real kernel
    combos = all_combos()
    if run.thorough():
        chosen = list(combos)
    else:
        chosen = run.rng.sample(combos, 80)
        # every tracer x signal x generator at least once
        base = [(t, s, g) for t in ("spec", "basic", "uni", "lay") for s in ("ARZ", "AVZ", "ZHS")
                for g in ("cyl", "rect", "list", "file")]
        have = {(c[0], c[1], c[2]) for c in chosen}
        for b in base:
            if b not in have:
                chosen.append(run.rng.choice([c for c in combos if c[:3] == b]))
    chosen = list(chosen) + angle_combos(run.rng, run.thorough())
    setup = RealSetup(run.seed)
    try:
        reqs, obss, cs = [], [], []
        for combo in chosen:
            try:
                nev = 2 if (not run.thorough() or run.rng.random() < 0.1) else 1
                pairs = run_real(setup, combo, run.rng, nev)
            except Exception as e:
                if is_k6(combo, e):
                    run.count("real_skipped_known_K11")
                    run.known_finding("K11")
                    continue
                ok = False
                run.note_broken("correspondence: real kernel %s crashed: %s: %s" % (combo, type(e).__name__, str(e)[:200]))
                if len(run.broken) > 5:
                    break
                continue
            for req, obs in pairs:
                reqs.append(req)
                obss.append(obs)
                cs.append(combo)
        replies = fw.run_driver("C10", reqs) if reqs else []
        for combo, rq, obs, rp in zip(cs, reqs, obss, replies):
            nrecv = sum(len(r) for r in obs["recv"])
            run.case(("real", combo, obs["index"], rq[-200:]), nontrivial=nrecv > 0,
                     sample={"combo": combo, "model": rp[:200]})
            run.count("real_%s" % combo[0])
            run.count("real_container_%s_change_%s" % (obs["container"], obs["change"]))
            run.count("real_signals_received", nrecv)
            run.count("real_pulses", sum(1 for r in obs["recv"] for x in r if x[0] == "P"))
            run.count("real_antennas_with_2plus_empty", sum(1 for r in obs["recv"] if sum(x[0] == "E" for x in r) >= 2))
            verts = [tuple(p.vertex) for p in obs["particles"]]
            run.count("real_events_with_shared_vertex", int(len(set(verts)) < len(verts)))
            run.count("real_events_with_repeated_particle_object",
                      int(len({id(p) for p in obs["particles"]}) < len(obs["particles"])))
            why = compare_real(rp, obs, setup) if rp != "bad-op" else "model rejected the request"
            if why is None:
                run.traces += 1
            else:
                ok = False
                run.note_broken("correspondence: real kernel %s event %d: %s" % (combo, obs["index"], why))
                if len(run.broken) > 5:
                    break
    finally:
        setup.close()
    return ok


# =============================================================================================
# search: property-level oracle on the implementation alone
def stub_oracle(case):
    """counts / alignment / emptiness / weights / writer args straight from the property, for every
    event() call of the case (one kernel object)"""
    np = _np()
    results = run_stub(case)
    wm = case["wmin"]
    theta_c = float(np.arccos(1 / 1.5))
    offmax = float(np.radians(180 if case["offcone"] is None else case["offcone"]))
    for k, (req, txt) in enumerate(results):
        if req is None:
            return "event %d: %s" % (k, txt)
        if " | BAD " in txt:
            return "event %d: shared state / wrong arguments: %s" % (k, txt.split(" | BAD ")[1])
        segs = txt.split(" | ")
        evd = event_def(case, k)
        ev, ps, order = build_event(evd)
        refuse = {tuple(x) for x in evd["refuse"]}

        def passes(p):
            if isinstance(wm, tuple):
                return not ((p.survival_weight is not None and p.survival_weight < wm[0])
                            or (p.interaction_weight is not None and p.interaction_weight < wm[1]))
            return not (p.weight < (0 if wm is None else wm))
        exp_all = []
        for i in range(case["events"][k].get("nant", case["nant"])):
            exp, ids, pq = [], [], []
            exp_all.append(exp)
            for pid in order:
                if not passes(ps[pid]):
                    continue
                for e in evd["table"][(vid_of(evd, pid), i)] or []:
                    psi = np.arccos(np.vdot(ps[pid].direction, np.array(e["e"])))
                    theta_c = np.arccos(1 / stub_index(ps[pid].vertex[2]))
                    empty = bool(np.abs(psi - theta_c) > np.radians(180 if case["offcone"] is None
                                                                    else case["offcone"])) \
                        or (pid, e["id"]) in refuse
                    grid = grid_s([t + e["tof"] for t in case["times"]])
                    exp.append(("E " + grid) if empty else ("P %d %d %s" % (pid, e["id"], grid)))
                    ids.append(e["id"])
                    pq.append("%d:%d" % (pid, e["id"]))
            want = "a %d" % len(exp) + "".join(" " + x for x in exp)
            if case["writer"]:
                want += " r %d" % len(ids) + "".join(" %d" % x for x in ids) + " q %d" % len(pq) \
                    + "".join(" " + x for x in pq)
            if segs[3 + i] != want:
                return "event %d antenna %d: expected `%s` got `%s`" % (k, i, want[:200], segs[3 + i][:200])
        # the trigger result is the supplied function(s) evaluated on the antennas after reception
        def ev_trig(spec):
            if spec[0] == "K":
                return bool(spec[1])
            if spec[0] == "G":
                return len(exp_all[spec[1]]) >= spec[2]
            return any(x.startswith("P ") for x in exp_all[spec[1]])
        t = case["trig"]
        if t[0] == "N":
            want_ret, want_tr = "ret event", "trig=none"
        elif t[0] == "F":
            want_ret, want_tr = "ret event,%d" % ev_trig(t[1]), "trig=b%d" % ev_trig(t[1])
        else:
            vals = {kk: ev_trig(sp) for kk, sp in t[1]}
            want_ret = "ret event,%d" % vals["global"] if "global" in vals else "ret keyerror"
            want_tr = "trig=d" + "".join(" %s=%d" % (kk, vals[kk]) for kk, _ in t[1])
        if segs[1] != want_ret:
            return "event %d: returned `%s`, the trigger function(s) on the antennas give `%s`" % (k, segs[1], want_ret)
        if case["writer"] and (want_tr + " rp=") not in segs[2]:
            return "event %d: writer got `%s`, expected `%s`" % (k, segs[2][:120], want_tr)
        if case["writer"] and "thrown=%d " % (1 + case["events"][k]["extra_throws"]) not in segs[2]:
            return "event %d: events_thrown is not the advance of the generator counter: %s" % (k, segs[2][:80])
    if len(results) != len(case["events"]):
        return "kernel stopped after %d of %d events" % (len(results), len(case["events"]))
    return None


def search(run, deep):
    n = 2500 if deep else run.scale(120, 2500)
    for _ in range(n):
        case = gen_stub_case(run.rng)
        run.case(("oracle", str(sorted(case_json(case).items()))[:2000]), nontrivial=stub_nontrivial(case))
        try:
            why = stub_oracle(case)
        except AssertionError:
            continue
        if why:
            run.fail_input("stub-event", {"case": case_json(case)}, observed=why, what=why[:200])
            if len(run.violations) >= 3:
                return
    # real combinations: the kernel must run and deliver one signal per independently traced solution
    setup = RealSetup(run.seed)
    try:
        combos = all_combos()
        chosen = run.rng.sample(combos, 20 if not deep else 60)   # the correspondence run enumerates the product
        sweep = angle_combos(run.rng, False)
        chosen = chosen + sweep
        for combo in chosen:
            why = real_oracle(setup, combo, run.rng)
            run.case(("real-oracle", combo, run.rng.random()))
            if why == "K11":
                run.known_finding("K11")
            elif why:
                run.fail_input("real-event", {"combo": list(combo)}, observed=why, what=why[:200])
                if len(run.violations) >= 3:
                    return
    finally:
        setup.close()


def real_oracle(setup, combo, rng):
    np = _np()
    try:
        pairs = run_real(setup, combo, rng)
    except Exception as e:
        if is_k6(combo, e):
            return "K11"
        return "EventKernel.event() with %s raised %s: %s" % (combo, type(e).__name__, str(e)[:160])
    wmin = combo[4]
    ice = setup.tracers[combo[0]][1]
    tracer = setup.tracers[combo[0]][0]
    for req, obs in pairs:
        k = obs["index"]
        ant_pos = obs["ctx"][3]                      # the antennas in the kernel's container at that call
        if obs["alias"]:
            return "event %d: shared mutable state: %s" % (k, "; ".join(obs["alias"]))
        if obs["has_writer"] and obs["wcall"] is None:
            return "event %d: writer not called once per event" % k
        for i in range(obs["nant"]):
            exp, owners = [], []
            for p in obs["particles"]:
                if isinstance(wmin, tuple):
                    if (p.survival_weight is not None and p.survival_weight < wmin[0]) or \
                            (p.interaction_weight is not None and p.interaction_weight < wmin[1]):
                        continue
                elif p.weight < (0 if wmin is None else wmin):
                    continue
                rt = tracer(p.vertex, ant_pos[i], ice_model=ice)
                if rt.exists:
                    exp += list(rt.solutions)
                    owners += [p] * len(list(rt.solutions))
            if obs["nsig"][i] != len(exp):
                return "event %d: antenna %d received %d signals for %d ray solutions" % (k, i, obs["nsig"][i], len(exp))
            for t, got, path in zip(obs["stored"][i], obs["recv"][i], exp):
                if not np.allclose(t, setup.times + path.tof, rtol=1e-12, atol=0) \
                        or not np.allclose(got[2], setup.times + path.tof, rtol=1e-12, atol=0):
                    return "event %d: antenna %d: a signal is not on signal_times + tof of its ray solution" % (k, i)
            # the off-cone cut - and nothing else - replaces a pulse by an empty signal; inside the cut the
            # stored signal is the configured model's pulse for that viewing angle (0..180 degrees)
            offmax = float(np.radians(180 if combo[3] is None else combo[3]))
            for j, (got, path, p) in enumerate(zip(obs["recv"][i], exp, owners)):
                psi = np.arccos(np.vdot(p.direction, path.emitted_direction))
                theta_c = np.arccos(1 / ice.index(p.vertex[2]))
                inside = not (np.abs(psi - theta_c) > np.radians(180 if combo[3] is None else combo[3]))
                if (got[0] == "P") != inside:
                    return ("event %d: antenna %d solution %d: viewing angle %.2f deg is %s the off-cone cut but the "
                            "antenna was handed %s signal" % (k, i, j, np.degrees(psi), "inside" if inside else "outside",
                                                               "an empty" if got[0] == "E" else "a pulse"))
                if obs["stored_vals"] is not None and inside:
                    want, complaint = expected_values(np, setup, obs["ctx"], i, p, path, psi)
                    if complaint:
                        return "event %d: antenna %d solution %d: %s" % (k, i, j, complaint)
                    d = values_differ(np, want, obs["stored_vals"][i][j])
                    if d:
                        return ("event %d: antenna %d solution %d: stored values are not the model's pulse at %.2f deg "
                                "passed through propagate (%s)" % (k, i, j, np.degrees(psi), d))
            if obs["wcall"] is not None:
                w = obs["wcall"]
                if len(w["ray_paths"][i]) != len(exp) or len(w["polarizations"][i]) != len(exp):
                    return "event %d: antenna %d: writer got %d ray_paths / %d polarizations for %d signals" % (
                        k, i, len(w["ray_paths"][i]), len(w["polarizations"][i]), len(exp))
                for q, path in zip(w["ray_paths"][i], exp):
                    if not same_path(np, q, path):
                        return "event %d: antenna %d: ray_paths not aligned with the received signals" % (k, i)
    return None


def replay(run, data):
    inp = data["input"]
    if data["kind"] == "stub-event":
        why = stub_oracle(case_from_json(inp["case"]))
        if why:
            run.fail_input("stub-event", inp, observed=why, what=why[:200])
    else:
        setup = RealSetup(run.seed)
        try:
            c = inp["combo"]
            combo = tuple(tuple(x) if isinstance(x, list) else x for x in c)
            for _ in range(5):
                why = real_oracle(setup, combo, run.rng)
                if why == "K11":
                    run.known_finding("K11")
                elif why:
                    run.fail_input("real-event", inp, observed=why, what=why[:200])
                    break
        finally:
            setup.close()
