"""C11 - HDF5 write / read round trip.  Exact differential run of lean/PyrexVerif/D/H5.lean against
pyrex.io.HDF5Writer / HDF5Reader / EventIterator on real files (see props/h5lib.py), plus a
model-independent "file re-read vs what was added" oracle."""
import os

import framework as fw
from props import h5lib as H

H.FORMS = True      # every event is also read through all argument forms of its accessors

LEVEL = "proof"
RULE = ("random add histories (<=10 add calls, 0-3 of them fault-injected at one of 11 raise points of "
        "HDF5Writer.add, placed first / between / last; occasional close+reopen in mode 'a') x write-flag "
        "sets (12 random ones per quick run, every valid one of the 2^6 in thorough) x require_trigger "
        "spellings (True, False, [], ['rays'], ['waveforms','noise'], random subsets, bare string) x "
        "1-3 stub antennas x 0-4 particles x 0-3 waveforms / ray paths per antenna x bool / dict / "
        "per-waveform-list triggers; every file is written with the real writer and read back through "
        "dump (raw h5py), iteration with slice_range None/1/2/3 and f[i] for all i in -n-1..n; a case "
        "is one request on one file, non-trivial when the file has >=2 add calls or a fault; distinct "
        "= distinct (file, request) pairs; further dimensions: require_trigger given as list / tuple / bare string, "
        "antennas wrapped in 0-2 levels of antenna systems (noise master reached through .antenna), append sessions "
        "opened with 'a' or 'r+'; every event read is also read through ALL argument forms of its accessors "
        "(get_particle_info(attr / vertex / direction / interaction_info), flavor / is_nubar / is_neutrino, "
        "get_rays_info(polarization / emitted_direction / received_direction / dicts), get_waveforms(antenna_id, "
        "waveform_type incl. 'direct'/'reflected' and the first out-of-range index), get_triggered_components(ray)); "
        "the detector changed in place after set_detector (antenna objects of the list / of a non-list detector "
        "object replaced by new ones before some adds); one REAL ray path object (SpecializedRayTracePath, "
        "BasicRayTracePath) shared by several antennas in one add() with a different polarization per antenna, and "
        "the paths' own _metadata unchanged afterwards; guard probes: invalid constructor arguments, accessors before the first next(), closed readers / writers")
LEVEL_TEXT = ("machine-checked Lean 4 theorems (induction over unbounded histories of accepted adds, rejected adds cut "
              "after any bookkeeping step, and append-mode reopens; all event shapes; all option sets that record "
              "particles) about an executable model of HDF5Writer.add and of the reader's index lookup; the model is "
              "tied to pyrex/io.py on every run by an exact differential run on real HDF5 files (acceptance of every "
              "call, table lengths, counters, /event_indices cell by cell, column order, total_thrown, every event "
              "through len / iteration / indexing with decoded row contents)")
LEVEL_NOTE = ("all C11 theorems are fully proved (no _partial): C11_index_in_bounds and C11_index_monotone (for EVERY option "
              "set), C11_counters_any_options (counters / index length / event counter for every option set), "
              "C11_round_trip_any_options (round trip for EVERY option set for histories without reopen; the file shows all "
              "accepted events or, while no dataset exists, none), C11_accepted_count, C11_round_trip, C11_reject_isolated, C11_reject_last, C11_empty_file_iterates_empty, "
              "C11_orphans_unreachable (these under option sets that record particles), C11_keys_stable, "
              "C11_all_gated_untriggered_witness; C11_steps_match_source, C11_writer_ops_match_source, "
              "C11_add_shape_matches_source, C11_records_is_gate tie the model's step order, gating keys, micro-operation "
              "order, preset order and the try/shrink/increment shape of add() to tables regenerated from pyrex/io.py by "
              "harness/extract/h5_steps.py on every run; C11_component_flags_round_trip (+ _old_code_witness) covers the "
              "column-name bookkeeping of the component-trigger table.  Assumed / outside the theorems: row CONTENTS other "
              "than the component-trigger flags (a row is a (call, position) tag; values and the accessor functions are "
              "checked by the correspondence run and the search only); a failing add is a cut after any bookkeeping "
              "micro-operation - a superset of the raise points of the code, except that a cut between a counter increment "
              "and the resize is modelled only where the source has a raising call there (_write_trigger; rule `stageOf`, "
              "checked against the source by C11_writer_ops_match_source); the round trip needs option sets that record "
              "particles unconditionally: otherwise EventIterator cannot open the file (witness theorem) - such files are "
              "still compared with the model exactly (acceptance of every call, counters, raw index); column names of one "
              "_write_trigger call are assumed distinct (no dict key named antenna_<i>); h5py datasets behave as resizable "
              "arrays with fill values.  Hypothesis audit: `AlwaysParticles` is the property's own restriction (\"option sets "
              "that record particles\"); without it and WITH an append session a first session that recorded nothing "
              "(everything gated, nothing triggered) is forgotten by the writer (`counters['indices']` is recovered from "
              "the empty index) - excluded by the property text, compared exactly with the model all the same; raise "
              "points other than the 11 injected ones are covered by the cut-point theorems and one probe (add() before "
              "set_detector); per-waveform trigger lists longer than the number of waveforms are generated (extra "
              "values ignored)")
TECHNIQUE = "Lean 4 model of the writer/reader bookkeeping + exact differential run on real HDF5 files"
EXTRACTORS = ["h5_steps"]
ASSUMPTIONS = [
    "row *content* is not modelled: rows are identified by (add call, position); the harness encodes that "
    "identity in the values it writes and decodes it when reading (h5lib.build_call / canon_event)",
    "antennas, ray paths, waveforms and noise masters are stubs exposing exactly the attributes HDF5Writer "
    "touches; particles/events are real pyrex objects",
    "a failing add is injected at 11 raise points (h5lib.FAULTS); other exceptions (I/O errors, MemoryError, "
    "KeyboardInterrupt inside h5py) are not covered",
    "h5py dataset create/resize/read/write follow their documented semantics (resize pads with fill values)",
    "one writer at a time; files are version 1.1 (h5py >= 3)",
]

SRS = [None, 1, 2, 3]


def _real_answers(b, batch, nontrivial, run):
    """register dump / iter / int requests of one written file together with the implementation's answers"""
    import h5py
    line = H.file_line(b.spec)
    with h5py.File(b.fn, "r") as f:
        n = f["/event_indices"].shape[0]
    ints = {}
    with H.Reader(b.fn, None) as r:
        if len(r) != n:
            run.note_broken("correspondence: len(File) %d != rows of /event_indices %d for `%s`" % (len(r), n, line))
        for i in range(-n - 1, n + 1):
            ints[i] = r.getint(i)
            batch.add("int", "int %s %d" % (line, i), b, ints[i], nontrivial)
        err, evs = r.iterate()
        batch.add("iter", "iter %s N" % line, b, (err, evs), nontrivial)
        if err == "key":
            run.count("unreadable_file(iter->KeyError)")
        for ev in evs:
            for t in H.TABLES:
                if not ev[t]:
                    run.count("event_without_rows_in_" + t)
    for sr in SRS[1:]:
        with H.Reader(b.fn, sr) as r:
            batch.add("iter", "iter %s %d" % (line, sr), b, r.iterate(), nontrivial)
    by_index = [ints[i][1] for i in range(n)] if all(ints[i][0] == "ok" for i in range(n)) else None
    batch.add_dump(b, by_index, nontrivial)


def _count_spec(run, spec, b):
    run.count("files")
    if H.always_particles(spec):
        run.count("opts_always_particles")
    elif H.wbit(spec, "particles"):
        run.count("opts_particles_gated")
    else:
        run.count("opts_particles_not_written")
    run.count("rt_" + ("list" if spec["rt"][0] == "L" else spec["rt"]) + ("_str" if spec.get("rt_str") and spec["rt"].count("1") == 1 else ""))
    run.count("nant_%d" % spec["nant"])
    adds = [o for o in spec["ops"] if o["op"] == "A"]
    flags = [a for a in b.acc if a != "r"]
    for o, a in zip(adds, flags):
        if o["fault"] != "none":
            run.count("fault_%s_%s" % (o["fault"], "rejected" if a == "0" else "accepted"))
        run.count("trigger_form_" + o["form"])
    if "r" in b.acc:
        run.count("files_with_reopen")
    if flags and flags[-1] == "0":
        run.count("rejected_add_is_last")
    if flags and flags[0] == "0":
        run.count("rejected_add_is_first")
    if "0" in flags[1:-1]:
        run.count("rejected_add_between")
    if not flags:
        run.count("file_without_add")


def _corr_job(specs, col, d):
    """worker: write each file, collect the implementation's answers, one driver call for the chunk"""
    batch = H.Batch("C11", col)
    for i, spec in enumerate(specs):
        b = H.write_file(spec, os.path.join(d, "f%d.h5" % i))
        _count_spec(col, spec, b)
        nadds = sum(1 for o in spec["ops"] if o["op"] == "A")
        nontrivial = nadds >= 2 or any(o.get("fault", "none") != "none" for o in spec["ops"])
        _real_answers(b, batch, nontrivial, col)
        os.remove(b.fn)
    col.extra["requests"] = len(batch)
    batch.flush()


def _mc_job(specs, col, d):
    """component-trigger table of fault-free files: keys in creation order and the whole flag matrix
    vs the model of the column bookkeeping (lean/PyrexVerif/D/H5Mc.lean)"""
    reqs, real = [], []
    for i, spec in enumerate(specs):
        b = H.write_file(spec, os.path.join(d, "m%d.h5" % i))
        if any(x is not None for x in b.excs):
            col.broken.append("correspondence: fault-free add raised %r for `%s`" % (b.excs, H.describe(spec)))
        reqs.append(H.mc_request(b))
        real.append(H.mc_raw(b.fn))
        keys = real[-1].split(" | ")[0][5:].split(",")
        if H.displaced([k for k in keys if k]):
            col.count("mc_files_named_key_before_antenna_columns")
        col.count("mc_files")
        os.remove(b.fn)
    for rq, rl, rp, spec in zip(reqs, real, fw.run_driver("C11", reqs), specs):
        col.case(("mc", rq), nontrivial=rq.count("antenna_") > 0 or " extra " in rq, sample={"request": rq[:300], "model": rp[:200]})
        if rp.strip() == rl.strip():
            col.traces += 1
        else:
            col.broken.append("correspondence: request `%s` model `%s` implementation `%s` (file %s)"
                              % (rq[:500], rp[:300], rl[:300], H.describe(spec)[:300]))


def _mc_specs(run, n):
    specs = []
    for _ in range(n):
        w = "11" + run.rng.choice("01") * 1 + "".join(run.rng.choice("01") for _ in range(3))
        spec = H.gen_spec(run.rng, always=True, w=w, nfaults=0, max_adds=8)
        r = run.rng.random()
        if w[2] == "1" and r < 0.6:      # antenna triggers gated: named keys may come first
            bits = ["0"] * 6
            bits[2] = "1"
            for j in (3, 4, 5):
                bits[j] = run.rng.choice("01")
            spec["rt"], spec["rt_str"] = "L" + "".join(bits), False
        for o in spec["ops"]:
            if o["op"] == "A" and run.rng.random() < 0.6:
                o["form"] = run.rng.choice(["dict", "dictlist"])
        specs.append(spec)
    return specs


def correspondence(run):
    nfiles = run.scale(150, 3000)
    allw = H.all_wbits()
    if run.thorough():
        wsets = [(w, w[0] == "1") for w in allw]
    else:
        wsets = [(H.gen_wbits(run.rng, True), True) for _ in range(10)] + \
                [(H.gen_wbits(run.rng, False), False) for _ in range(2)]
    specs = []
    for i in range(nfiles):
        if run.thorough():
            w, can = wsets[i % len(wsets)]
            always = can and run.rng.random() < 0.85
        else:
            # ~85% of the files from the AlwaysParticles sets
            w, always = run.rng.choice(wsets[:10]) if run.rng.random() < 0.85 else run.rng.choice(wsets[10:])
        specs.append(H.gen_spec(run.rng, always=always, w=w, zero_particles=0.04))
    H.run_jobs(run, _corr_job, H.chunks(specs, 15))
    H.run_jobs(run, _mc_job, H.chunks(_mc_specs(run, run.scale(60, 1200)), 15))
    return not run.broken


# ---------------------------------------------------------------------------------------------
# model-independent oracle
def oracle_file(spec, d, name="s.h5"):
    """write `spec`, read it back every way, compare with the harness's own bookkeeping.
    -> None or (what, observed, expected)"""
    fn = os.path.join(d, name)
    try:
        b = H.write_file(spec, fn)
    except Exception as e:      # noqa: BLE001 - constructor / open / set_detector / close of a valid configuration
        return ("writing a file with a valid option set raised outside add()", H._tail(e), "file written")
    try:
        exp = b.expected_stream()
        for c, (op, exc) in enumerate(zip(b.call_ops, b.excs)):
            if op["fault"] == "none" and exc is not None:
                return ("add call %d with valid arguments (no fault injected) raised" % c, exc, "accepted")
        bad = H.raw_invariants(fn)
        if bad:
            return ("raw /event_indices invariant broken", bad[:3], "start+len <= dataset length, ordered per column")
        for sr in (None, 1, 2):
            with H.Reader(fn, sr) as r:
                if len(r) != len(exp):
                    return ("len(file) != number of adds that did not raise", len(r), len(exp))
                err, evs = r.iterate()
                if err != "stop":
                    return ("iteration (slice_range=%s) raised" % sr, err, "stop")
                why = H.diff_events(exp, evs)
                if why:
                    return ("iteration (slice_range=%s) differs from what was added" % sr, why, None)
                if sr is None:
                    for i in range(len(exp)):
                        for key in (i, i - len(exp)):
                            err, ev = r.getint(key)
                            if err != "ok":
                                return ("f[%d] raised" % key, err, "ok")
                            why = H.diff_events([exp[i]], [ev])
                            if why:
                                return ("f[%d] differs from what was added" % key, why, None)
        # nested / interleaved passes over one open reader, partially consumed iterators
        if len(exp) <= 5:
            for sr in (None, 1, 2):
                bad = H.oracle_passes(fn, exp, sr)
                if bad:
                    return bad
        return None
    finally:
        if os.path.exists(fn):
            os.remove(fn)


def _fail(run, spec, res, kind="history"):
    what, obs, exp = res
    run.fail_input(kind, {"spec": spec, "desc": H.describe(spec)}, observed=obs, expected=exp, what=what)


def _search_job(specs, col, d):
    for spec in specs:
        col.case(("oracle", H.describe(spec)), nontrivial=len(spec["ops"]) >= 2)
        col.count("oracle_files")
        res = oracle_file(spec, d)
        if res:
            _fail(col, spec, res)


def search(run, deep):
    n = 600 if deep else 32
    specs = [H.gen_spec(run.rng, always=True) for _ in range(n)]
    H.run_jobs(run, _search_job, H.chunks(specs, 4 if not deep else 15))


def replay(run, data):
    inp = data["input"]
    with H.tempdir() as d:
        if data.get("kind") == "corpus" and inp.get("name") == "shared_paths":
            for what, obs, exp in shared_paths_probe(d):
                run.fail_input("corpus", {"name": "shared_paths", "probe": what}, observed=obs, expected=exp,
                               what="one ray path shared by several antennas: " + what)
            return
        if data.get("kind") == "corpus" and inp.get("name") == "guards":
            for what, obs, exp in guard_probes(d):
                run.fail_input("corpus", {"name": "guards", "probe": what}, observed=obs, expected=exp,
                               what="guard `%s` does not reject" % what)
            return
        if data.get("kind") == "corpus":
            for name, res in _corpus_checks(d, only=inp.get("name")):
                if res:
                    run.fail_input("corpus", {"name": name}, observed=res[1], expected=res[2], what=res[0])
            return
        res = oracle_file(inp["spec"], d)
        if res:
            _fail(run, inp["spec"], res)


# ---------------------------------------------------------------------------------------------
# regression corpus
def _A(np_=1, trig=1, waves=(0,), rays=(0,), fault="none", form="bool", thrown=1):
    return {"op": "A", "np": np_, "trig": trig, "form": form, "waves": list(waves), "rays": list(rays),
            "thrown": thrown, "fault": fault}


def _spec(w, rt, ops, nant=1):
    return {"w": w, "rt": rt, "rt_str": False, "nant": nant, "noisy": [0] * nant, "ops": ops}


CORPUS = {
    # commit bd12f14: events before a rays dataset that only a rejected add created
    "rays_dataset_from_rejected_add": _spec("110100", "L000100", [
        _A(trig=0, rays=(1,)), _A(trig=0, rays=(1,)), _A(trig=1, rays=(2,), fault="badRayMeta")]),
    # probes/exp13.py (F12): trailing rejected add must not leave a phantom event
    "trailing_rejected_add": _spec("110100", "F", [_A(rays=(1,)), _A(np_=2, rays=(1,), fault="polMismatch")]),
    # F12 (b): a file without events iterates empty
    "empty_file": _spec("110100", "T", []),
    # F8: variable particle counts, step slices and negative stops
    # commit ed0aae8: a named trigger column created before the antenna_* columns (antenna triggers gated,
    # first add untriggered with a dict trigger): antenna flags must land in the columns named antenna_i
    "antenna_columns_after_named_key": _spec("111000", "L001000", [
        _A(trig=0, form="dict", waves=(1, 1), rays=(0, 0)), _A(trig=1, form="dict", waves=(1, 1), rays=(0, 0)),
        _A(trig=1, form="dict", waves=(2, 1), rays=(0, 0)), _A(trig=0, form="dict", waves=(1, 2), rays=(0, 0)),
        _A(trig=1, form="dictlist", waves=(2, 2), rays=(0, 0))], nant=2),
    # commit 0e28173: component-trigger dataset created only by a trailing rejected add (antenna.trigger
    # raises): get_triggered_components() of the earlier event must be [] (used to raise IndexError)
    "mc_dataset_from_rejected_add": _spec("111000", "L001000", [
        _A(trig=0, waves=(1,)), _A(trig=1, waves=(1,), fault="antTrigRaises")]),
    "variable_rows": _spec("110000", "F", [_A(np_=k, trig=i % 2) for i, k in enumerate([1, 3, 2, 1, 4, 2, 1])]),
}


def _corpus_checks(d, only=None):
    for name, spec in CORPUS.items():
        if only and name != only:
            continue
        res = oracle_file(spec, d, name + ".h5")
        if res is None and name == "rays_dataset_from_rejected_add":
            b = H.write_file(spec, os.path.join(d, "c.h5"))
            try:
                with H.Reader(b.fn, None) as r:
                    for i in (0, 1):
                        ev = r.f[i]
                        try:
                            got = ev.get_rays_info()
                            if len(got) != 0:
                                res = ("get_rays_info() of an event without rays is not empty", repr(got)[:200], "empty")
                        except Exception as e:      # noqa: BLE001
                            res = ("get_rays_info() raised for an event without rays", H._tail(e), "empty")
            finally:
                os.remove(b.fn)
        if res is None and name == "variable_rows":
            b = H.write_file(spec, os.path.join(d, "c.h5"))
            try:
                exp = b.expected_stream()
                with H.Reader(b.fn, None) as r:
                    for (a, bb, c), want in (((0, 7, 2), exp[0:7:2]), ((None, -1, None), exp[:-1]),
                                             ((1, None, 3), exp[1::3]), ((-3, None, None), exp[-3:])):
                        err, evs = r.slice(a, bb, c)
                        why = "raised " + err if err != "stop" else H.diff_events(want, evs)
                        if why:
                            res = ("f[%s:%s:%s] differs from the sequential stream" % (a, bb, c), why, None)
                            break
            finally:
                os.remove(b.fn)
        if res is None and name == "empty_file":
            from pyrex.io import File
            b = H.write_file(spec, os.path.join(d, "c.h5"))
            try:
                with File(b.fn, "r") as f:
                    got = list(f)
                    if len(f) != 0 or got != []:
                        res = ("empty file does not iterate empty", (len(f), len(got)), (0, 0))
            except Exception as e:      # noqa: BLE001
                res = ("iterating an empty file raised", H._tail(e), "no events")
            finally:
                os.remove(b.fn)
        yield name, res


def guard_probes(d):
    """rejections and early exits the properties rely on -> list of (what, observed, expected)"""
    from pyrex.io import File
    bad = []
    fn = os.path.join(d, "guard.h5")

    def must_raise(what, fn_, excs):
        try:
            fn_()
        except excs:
            return
        except Exception as e:      # noqa: BLE001
            bad.append((what, H._tail(e), "/".join(x.__name__ for x in excs)))
            return
        bad.append((what, "no exception", "/".join(x.__name__ for x in excs)))
    # constructor: antenna triggers need triggers (the model's optsValid); unknown keys; unknown mode
    must_raise("File(..., write_triggers=False, write_antenna_triggers=True)",
               lambda: File(fn, "w", write_triggers=False, write_antenna_triggers=True), (ValueError,))
    must_raise("File(..., require_trigger=['nonsense'])", lambda: File(fn, "w", require_trigger=["nonsense"]), (ValueError,))
    must_raise("File(..., require_trigger=('rays', 'nonsense'))", lambda: File(fn, "w", require_trigger=("rays", "nonsense")), (ValueError,))
    must_raise("File(..., mode 'z')", lambda: File(fn, "z"), (ValueError,))
    spec = _spec("110101", "F", [_A(np_=2, waves=(2,), rays=(1,)), _A(np_=1, waves=(1,), rays=(2,))])
    b = H.write_file(spec, fn)
    f = File(b.fn, "r")
    must_raise("f[0] on a reader that was never opened", lambda: f[0], (OSError,))
    f.open()
    try:
        it = iter(f)
        for name, call in (("get_particle_info", lambda: it.get_particle_info()), ("get_rays_info", lambda: it.get_rays_info()),
                           ("get_waveforms", lambda: it.get_waveforms()), ("triggered", lambda: it.triggered),
                           ("noise_bases", lambda: it.noise_bases), ("get_triggered_components", lambda: it.get_triggered_components())):
            must_raise("%s on an iterator before the first next()" % name, call, (ValueError,))
        sl = f[0:2]
        must_raise("get_particle_info on a slice iterator before the first next()", lambda: sl.get_particle_info(), (ValueError,))
        w = File(b.fn, "a")
        must_raise("add() on a writer that is not open", lambda: w.add(None), (OSError,))
    finally:
        f.close()
    # a raise point outside the 11 injected ones: add() before set_detector (rejected inside the ray writer
    # after particles and triggers were written), then set_detector and a good add
    fn2 = os.path.join(d, "nodet.h5")
    w2 = File(fn2, "w", write_rays=True, write_waveforms=True, require_trigger=False)
    w2.open()
    try:
        ants = H.make_detector(spec)
        ev0, kw0, _ = H.build_call(spec, 0, spec["ops"][0], ants)
        must_raise("add() before set_detector", lambda: w2.add(ev0, **kw0), (ValueError,))
        w2.set_detector(ants)
        ev1, kw1, rec1 = H.build_call(spec, 1, spec["ops"][1], ants)
        w2.add(ev1, **kw1)
    finally:
        w2.close()
    with H.Reader(fn2, 1) as r2:
        err, evs = r2.iterate()
        if err != "stop" or len(r2) != 1 or len(evs) != 1 or evs[0]["particles"] != rec1["particles"] \
                or evs[0]["waveforms"] != rec1["waveforms"] or evs[0]["rays"] != rec1["rays"]:
            bad.append(("file after an add() rejected for lack of a detector", (err, len(r2)), "exactly the later event"))
    os.remove(fn2)
    must_raise("len() of a closed reader", lambda: len(f), (OSError,))
    must_raise("f[0] on a closed reader", lambda: f[0], (OSError,))
    must_raise("iter() of a closed reader", lambda: iter(f), (OSError,))
    os.remove(b.fn)
    return bad


def shared_paths_probe(d):
    """ONE real ray-path object handed to several antennas in a single add(), with a different polarization
    per antenna: every antenna's stored polarization is its own, the other path columns are the path's, and
    the path objects' own `_metadata` is the same before and after (the writer must not leave its additions
    inside the path) -> list of (what, observed, expected)"""
    import copy
    import numpy as np
    from pyrex.io import File
    from pyrex.ray_tracing import BasicRayTracer, SpecializedRayTracer
    bad = []
    for tracer in (SpecializedRayTracer, BasicRayTracer):
        sols = tracer((0.0, 0.0, -500.0), (120.0, 30.0, -100.0)).solutions
        if len(sols) != 2:
            bad.append(("%s solutions for the probe geometry" % tracer.__name__, len(sols), 2))
            continue
        spec = _spec("110100", "F", [_A(np_=1, rays=(2, 2, 1), waves=(0, 0, 0)), _A(np_=2, rays=(1, 2, 2), waves=(0, 0, 0))], nant=3)
        fn = os.path.join(d, "shared_%s.h5" % tracer.__name__)
        ants = H.make_detector(spec)
        before = [copy.deepcopy(p._metadata) for p in sols]
        w = File(fn, "w", **H.writer_kwargs(spec))
        w.open()
        given = []
        try:
            w.set_detector(ants)
            for c, op in enumerate(spec["ops"]):
                ev, _kw, _rec = H.build_call(spec, c, op, ants)
                paths = [[sols[k] for k in range(op["rays"][i])] for i in range(3)]      # the SAME objects per antenna
                pols = [[(0.5 + i + 10 * c, -1.0 - k, 0.25 * (i + 1) * (k + 1)) for k in range(op["rays"][i])] for i in range(3)]
                w.add(ev, triggered=True, ray_paths=paths, polarizations=pols)
                given.append((op["rays"], pols))
                after = [p._metadata for p in sols]
                if after != before:
                    bad.append(("%s: path._metadata changed by add() number %d" % (tracer.__name__, c),
                                sorted(set(after[0]) ^ set(before[0])) or "values", "unchanged"))
        finally:
            w.close()
        with File(fn, "r") as f:
            for c, (ev, (rays, pols)) in enumerate(zip(f, given)):
                pol = ev.get_rays_info("polarization")
                tof = ev.get_rays_info("tof")
                for i in range(3):
                    for k in range(rays[i]):
                        if tuple(float(x) for x in pol[k][i]) != tuple(float(x) for x in pols[i][k]):
                            bad.append(("%s: event %d antenna %d solution %d polarization" % (tracer.__name__, c, i, k),
                                        tuple(float(x) for x in pol[k][i]), pols[i][k]))
                        if float(tof[k][i]) != float(before[k]["tof"]):
                            bad.append(("%s: event %d antenna %d solution %d tof" % (tracer.__name__, c, i, k),
                                        float(tof[k][i]), float(before[k]["tof"])))
        os.remove(fn)
    return bad[:4]


def corpus(run):
    ok = True
    with H.tempdir() as d:
        for what, obs, exp in shared_paths_probe(d):
            ok = False
            run.fail_input("corpus", {"name": "shared_paths", "probe": what}, observed=obs, expected=exp,
                           what="one ray path shared by several antennas: " + what)
        run.case(("corpus", "shared_paths"))
        run.count("corpus_cases")
    with H.tempdir() as d:
        for what, obs, exp in guard_probes(d):
            ok = False
            run.fail_input("corpus", {"name": "guards", "probe": what}, observed=obs, expected=exp,
                           what="guard `%s` does not reject" % what)
        run.case(("corpus", "guards"))
        run.count("corpus_cases")
    with H.tempdir() as d:
        for name, res in _corpus_checks(d):
            run.case(("corpus", name))
            run.count("corpus_cases")
            if res:
                ok = False
                run.fail_input("corpus", {"name": name, "spec": CORPUS[name]}, observed=res[1], expected=res[2],
                               what="regression corpus `%s`: %s" % (name, res[0]))
    return ok


def known_probes(run):
    return None
