"""C12 - every way of reading or continuing a file yields the same stream.  Exact differential run of the
reader / append / FileGenerator part of lean/PyrexVerif/D/H5.lean against pyrex.io.HDF5Reader,
EventIterator, HDF5Writer.open (mode 'a') and pyrex.generation.FileGenerator on real files (see
props/h5lib.py), exhaustive over the access paths of small files, plus model-independent oracles."""
import os
import random

import framework as fw
from props import h5lib as H

LEVEL = "proof"
RULE = ("files from the C11 generator restricted to option sets that always record particles (variable rows "
        "per event, events without rows in a table, rejected adds leaving orphan rows, 1-3 writer sessions) "
        "with n = 1..6 (quick) / 1..12 (thorough) events; per file EXHAUSTIVELY: iteration for every "
        "slice_range in 1..n+1 and None, f[i] for every i in -n-1..n, f[a:b:c] for every spelling "
        "a in {None,-n..n-1}, b in {None,-n+1..n} with 0<=a'<b'<=n after normalisation, c in {None,1..n}, under "
        "the file slice_ranges {1,2,3,n,n+1,None} (thorough: 2 of them per file), plus a sample of "
        "out-of-claim slices (a>=b, out of range, step<=0); append splits of one add history into 1-3 sessions; "
        "FileGenerator over 1-3 files x slice_range in {1,2,3,100}; LIVE-HANDLE sessions: random scripts on 1-2 open "
        "readers of one file (different slice_ranges) that create handles by f[i], f[-i], f[a:b:c], iter(f), advance "
        "iterators, close()+open() a reader, and examine every handle later, out of creation order and interleaved "
        "with further accesses - each handle must show the event the model assigns to its access path; search only: "
        "HDF5Reader.get_waveforms(event_id, antenna_id, waveform_type) as one more access path, ONE reader object "
        "opened again after each append session ('a' / 'r+') while the file grows, FileGenerator given a bare file "
        "name, FileGenerator.count after the count setter; stored particle values that are falsy but valid (weights "
        "exactly 0.0, vertex components 0.0 and -0.0, em/had fraction 0) compared exactly incl. the sign of zero; FileGenerator file lists in the CALLER's order with names "
        "that are not in lexicographic order (run_8..run_11, reversed letters, different directories, glob "
        "characters, a file listed twice); LOOK-UP tables written with create_analysis_dataset and indexed out of "
        "event order with add_analysis_indices (shared rows, cells pointing back, overlapping ranges, an early event "
        "reaching further than all later ones, zero cells) read through event.get_data under iteration for every "
        "slice_range and under slices, against the model (`lk`/`lki`) and against f[i] / slice_range=1; a case is one "
        "request (or one session) on one file; "
        "distinct = distinct (file, request) pairs")
LEVEL_TEXT = ("machine-checked Lean 4 theorems, for files of any length written by any add / reject / reopen history: "
              "chunked iteration with every slice_range >= 1, f[i] for -n <= i < n (IndexError outside), f[a:b:c] for every "
              "None / non-negative / negative spelling with 0 <= a < b <= n and c >= 1 under every chunk size, append "
              "sessions, and FileGenerator replay and count over every non-empty list of non-empty files all equal the "
              "sequential pass; the executable model (EventIterator state machine incl. _load_data, __getitem__ dispatch, "
              "append-mode open, FileGenerator) is tied to the code by a differential run that is EXHAUSTIVE over all access "
              "paths of real files with n <= 6 (quick) / n <= 12 (thorough) events")
LEVEL_NOTE = ("all C12 theorems are fully proved (no _partial): C12_iterate_eq_sequential, C12_getitem_int, "
              "C12_getitem_int_out_of_range, C12_getitem_slice, C12_append_eq_single, C12_append_iterate, C12_filegen_chunk, "
              "C12_filegen_replays, C12_filegen_count, C12_filegen_count_total, C12_filegen_count_setter, C12_handles_independent, C12_load_cut_matches_source (statements of "
              "_load_data / __next__ regenerated from pyrex/io.py on every run), C12_step2_witness, C12_orphan_witness (the last "
              "two show that the unrepaired cumulative cut of _load_data is wrong).  Assumed / outside the theorems: row "
              "contents (see C11); files are written under option sets that record particles; slice_range <= 0, slices "
              "with a >= b or step <= 0 are outside the claim (still compared with the model on a sample); the share "
              "function of total_events_thrown (float formula int((k+1)/n*T)) is a parameter of the count theorems and is "
              "evaluated in IEEE doubles by the driver; a zero-event file inside a FileGenerator file list crashes the "
              "generator (known finding K6) and is excluded from the claim.  Hypothesis audit: slice_range >= 1 is a hypothesis "
              "of every access-path theorem; at slice_range = 0 code and model raise ValueError before the first event "
              "(theorem + probe); for slice_range < 0 the model is NOT faithful (Python's negative slice end) - the probe "
              "checks on the real code that whatever is yielded is a correct prefix and that the pass ends with ValueError "
              "or completely; the count-setter theorem assumes the custom count is at least what the files account for "
              "(naturals in the model; the search also sets a count of 0)")
TECHNIQUE = "Lean 4 model of EventIterator / __getitem__ / append / FileGenerator + exhaustive differential run on real files"
EXTRACTORS = ["h5_steps"]
ASSUMPTIONS = [
    "row content is not modelled, rows are identified by (add call, position) encoded in the written values",
    "file slice_range >= 1 (requests with slice_range <= 0 are not made)",
    "FileGenerator file lists contain no zero-event file (known finding K6 is probed separately)",
    "FileGenerator is compared on particle id, vertex, direction (rounded to 1e-12 after re-normalisation), "
    "energy, interaction kind/inelasticity/em_frac/had_frac, survival and interaction weight, and on `count`",
    "stub antennas / ray paths / waveforms as in C11; h5py primitives follow their documented semantics",
    "an event handle IS its iterator (EventIterator.__next__ returns self): handles obtained from one iterator are "
    "the same object by design; independence is claimed and checked for handles of DIFFERENT iterators (every f[i], "
    "f[a:b:c], iter(f) call creates one), also across close()/open() of the reader",
]


def sr_set(n):
    out = []
    for s in (1, 2, 3, n, n + 1, None):
        if s not in out:
            out.append(s)
    return out


def norm(x, n, default):
    if x is None:
        return default
    return x + n if x < 0 else x


def in_claim(n):
    """every spelling of a slice with 0 <= a' < b' <= n, c in {None, 1..n}"""
    out = []
    for a in [None] + list(range(-n, n)):
        for b in [None] + list(range(-n + 1, n + 1)):
            if 0 <= norm(a, n, 0) < norm(b, n, n) <= n:
                for c in [None] + list(range(1, n + 1)):
                    out.append((a, b, c))
    return out


def is_in_claim(a, b, c, n):
    return (a is None or -n <= a <= n - 1) and (b is None or -n + 1 <= b <= n) and \
        0 <= norm(a, n, 0) < norm(b, n, n) <= n and (c is None or 1 <= c <= n)


def out_of_claim(rng, n, k):
    """sample of slices outside the claim: a>=b inside the range, bounds out of range, step <= 0 or > n"""
    out = []
    inside_a = [None] + list(range(-n, n))
    inside_b = [None] + list(range(-n + 1, n + 1))
    wide = [None] + list(range(-n - 2, n + 3))
    tries = 0
    while len(out) < k and tries < 100 * k:
        tries += 1
        r = rng.random()
        if r < 0.35:      # empty or reversed range
            a, b, c = rng.choice(inside_a), rng.choice(inside_b), rng.choice([None, 1, 2, n])
        elif r < 0.65:    # bad step on an otherwise valid range
            a, b, c = rng.choice(inside_a), rng.choice(inside_b), rng.choice([0, -1, -2, n + 1, n + 3])
        else:
            a, b, c = rng.choice(wide), rng.choice(wide), rng.choice([None, 1, 2, 0, -1])
        if not is_in_claim(a, b, c, n):
            out.append((rng.choice(sr_set(n)), a, b, c))
    return out


def gen_file(rng, n, deep=False):
    """spec of an AlwaysParticles file with exactly n events (checked by the caller after writing)"""
    return H.gen_spec(rng, always=True, n_ok=n, nfaults=rng.choice([0, 1, 1, 2]), p_reopen=0.6)


def make_files(run, ns, d):
    """specs with exactly the requested numbers of events (written once here to count them)"""
    out = []
    for n in ns:
        for _ in range(30):
            spec = gen_file(run.rng, n)
            b = H.write_file(spec, os.path.join(d, "probe.h5"))
            if len(b.ok_calls) == n:
                out.append((n, spec))
                break
        else:
            raise RuntimeError("could not generate a file with %d events" % n)
    return out


# ---------------------------------------------------------------------------------------------
# correspondence jobs
def _live_job(job, col, d):
    """several handles / iterators of 1-2 open readers alive at once: what each handle shows when it is
    examined later vs the event the MODEL assigns to its access path (iterators are values there)"""
    spec, n, srs = job["spec"], job["n"], job["srs"]
    b = H.write_file(spec, os.path.join(d, "l.h5"))
    line = H.file_line(spec)
    rng = random.Random(job["seed"])
    for _ in range(job["scripts"]):
        script = H.gen_script(rng, n, len(srs), job["length"])
        obs, _alias = H.run_session(b.fn, srs, script)
        reqs = []
        for a in H.script_paths(script):
            sr = H.tok(srs[a[1]])
            if a[0] == "int":
                reqs.append("int %s %d" % (line, a[2]))
            elif a[0] == "slice":
                reqs.append("slice %s %s %s %s %s" % (line, sr, H.tok(a[2]), H.tok(a[3]), H.tok(a[4])))
            else:
                reqs.append("iter %s %s" % (line, sr))
        lists = []
        for rq, rp in zip(reqs, fw.run_driver("C12", reqs)):
            head, _, body = rp.partition(" | ")
            if rq.startswith("int "):
                lists.append([b.event_of_tags(body)] if head.strip() == "ok" else head.strip())
            else:
                lists.append(b.events_of_tags(body) if head.strip() == "stop" else head.strip())
        desc = ("live", line, [H.tok(x) for x in srs], script)
        col.case(desc, nontrivial=True, sample={"request": "live-handles " + repr(script)[:240], "model": repr(reqs[:2])[:200]})
        col.count("live_sessions")
        col.count("live_handles", len(reqs))
        col.count("live_examinations", sum(1 for a in script if a[0] == "exam"))
        col.count("live_reopen_actions", sum(1 for a in script if a[0] == "reopen"))
        why = "model raised for an in-claim access path" if any(isinstance(x, str) for x in lists) else \
            H.diff_session(script, H.session_expected(script, lists), obs)
        if why is None:
            col.traces += 1
        else:
            col.note_broken("correspondence: request `live-handles on %s readers %s script %r` model `%s` "
                            "implementation `%s`" % (line[:300], srs, script, reqs[:3], why[:600]))
    os.remove(b.fn)


def lookup_paths(rng, n, k):
    """access paths of a look-up file: iteration for every slice_range, and k in-claim slices"""
    paths = [("iter", sr) for sr in list(range(1, n + 2)) + [None]]
    space = [(sr, a, b, c) for sr in sr_set(n) for (a, b, c) in in_claim(n)]
    for sr, a, b, c in (rng.sample(space, k) if len(space) > k else space):
        paths.append(("slice", sr, a, b, c))
    return paths


def _lookup_job(job, col, d):
    """a look-up table indexed OUT OF EVENT ORDER with add_analysis_indices, read through the event handles
    under chunked iteration / slices: the model (`loadTable` on arbitrary cells) against the real reader"""
    from pyrex.io import File
    spec, n, cells, nrows = job["spec"], job["n"], [tuple(c) for c in job["cells"]], job["nrows"]
    fn = os.path.join(d, "lk.h5")
    H.write_file(spec, fn)
    H.add_lookup(fn, spec, cells, nrows)
    rng = random.Random(job["seed"])
    head = "%d %d %s" % (nrows, n, " ".join("%d %d" % c for c in cells))
    reqs, real = [], []
    for path in lookup_paths(rng, n, job["nslices"]):
        if path[0] == "iter":
            with File(fn, "r", slice_range=path[1]) as f:
                real.append(H.lookup_reply(*H.lookup_drain(lambda: iter(f))))
            reqs.append("lki %s %s" % (head, H.tok(path[1])))
        else:
            _, sr, a, b, c = path
            with File(fn, "r", slice_range=sr) as f:
                real.append(H.lookup_reply(*H.lookup_drain(lambda: f[a:b:c])))
            reqs.append("lk %s %s %s %s %s" % (head, H.tok(sr), H.tok(a), H.tok(b), H.tok(c)))
    col.count("lookup_files")
    col.count("lookup_cells_" + job["cellkind"])
    if any(s2 < s1 for (s1, _), (s2, _) in zip(cells, cells[1:])):
        col.count("lookup_files_with_decreasing_starts")
    os.remove(fn)
    for rq, rl, rp in zip(reqs, real, fw.run_driver("C12", reqs)):
        col.case(("lookup", rq), nontrivial=True, sample={"request": rq[:200], "model": rp[:120]})
        if rp.strip() == rl.strip():
            col.traces += 1
        else:
            col.note_broken("correspondence: request `%s` model `%s` implementation `%s`" % (rq[:400], rp[:300], rl[:300]))


def _job(job, col, d):
    kind = job["kind"]
    if kind == "live":
        return _live_job(job, col, d)
    if kind == "lookup":
        return _lookup_job(job, col, d)
    batch = H.Batch("C12", col)
    if kind == "base":
        spec, n = job["spec"], job["n"]
        b = H.write_file(spec, os.path.join(d, "a.h5"))
        line = H.file_line(spec)
        rng = random.Random(job["seed"])
        col.count("files_n=%d" % n)
        col.count("files")
        col.count("files_sessions=%d" % (1 + b.acc.count("r")))
        col.count("files_rejected_adds=%d" % b.acc.count("0"))
        ints = {}
        with H.Reader(b.fn, None) as r:
            for i in range(-n - 1, n + 1):
                ints[i] = r.getint(i)
                batch.add("int", "int %s %d" % (line, i), b, ints[i])
                col.count("paths_int")
            batch.add("iter", "iter %s N" % line, b, r.iterate())
            col.count("paths_iter")
        for sr in range(1, n + 2):
            with H.Reader(b.fn, sr) as r:
                batch.add("iter", "iter %s %d" % (line, sr), b, r.iterate())
                col.count("paths_iter")
        by_index = [ints[i][1] for i in range(n)] if all(ints[i][0] == "ok" for i in range(n)) else None
        batch.add_dump(b, by_index)
        readers = {}
        try:
            for sr, a, bb, c in out_of_claim(rng, n, job["ooc"]):
                if sr not in readers:
                    readers[sr] = H.Reader(b.fn, sr)
                real = readers[sr].slice(a, bb, c)
                batch.add("slice", "slice %s %s %s %s %s" % (line, H.tok(sr), H.tok(a), H.tok(bb), H.tok(c)), b, real)
                col.count("paths_slice_out_of_claim")
                col.count("out_of_claim_" + real[0])
        finally:
            for r in readers.values():
                r.close()
    elif kind == "slices":
        spec, n, sr = job["spec"], job["n"], job["sr"]
        b = H.write_file(spec, os.path.join(d, "a.h5"))
        line = H.file_line(spec)
        with H.Reader(b.fn, sr) as r:
            for a, bb, c in in_claim(n):
                batch.add("slice", "slice %s %s %s %s %s" % (line, H.tok(sr), H.tok(a), H.tok(bb), H.tok(c)),
                          b, r.slice(a, bb, c))
        col.count("paths_slice_in_claim", len(batch))
        if n == job.get("nmax"):
            col.count("slices_on_largest_file", len(batch))
    elif kind == "split":
        base = job["base"]
        answers = []
        for j, spec in enumerate([base] + job["variants"]):
            b = H.write_file(spec, os.path.join(d, "s%d.h5" % j))
            line = H.file_line(spec)
            got = []
            for sr in (None, 2):
                with H.Reader(b.fn, sr) as r:
                    real = r.iterate()
                    got.append(real)
                    batch.add("iter", "iter %s %s" % (line, H.tok(sr)), b, real)
            batch.add_dump(b, None)
            answers.append((spec, got, H.raw_dump(b)[0][1:]))
            col.count("split_sessions=%d" % (1 + b.acc.count("r")))
        col.count("split_histories")
        clean = all(o.get("fault", "none") == "none" for o in base["ops"])
        col.count("split_histories_fault_free" if clean else "split_histories_with_faults")
        for spec, got, raw in answers[1:]:
            for g0, g in zip(answers[0][1], got):
                why = "err %s vs %s" % (g0[0], g[0]) if g0[0] != g[0] else H.diff_events(g0[1], g[1])
                if why:
                    col.note_broken("correspondence: append split `%s` reads differently from the single session: %s"
                                    % (H.file_line(spec)[:500], why[:500]))
            if clean and raw != answers[0][2]:
                col.note_broken("correspondence: append split `%s` raw tables/index %r differ from the single "
                                "session %r" % (H.file_line(spec)[:500], raw, answers[0][2]))
            col.traces += 1
    elif kind == "fg":
        builts, specs = fg_write(job, d)
        files = [b.fn for b in builts]
        col.count("fg_lists_of_%d" % len(files))
        col.count("fg_naming_" + job.get("layout", {}).get("scheme", "plain"))
        if sorted(files) != files:
            col.count("fg_lists_not_in_lexicographic_order")
        if len(set(files)) < len(files):
            col.count("fg_lists_with_a_file_twice")
        for sr in job["srs"]:
            real = H.real_fg(files, sr)
            batch.add("fg", "fg %d %d %s" % (sr, len(files), " ".join(H.file_line(s) for s in specs)),
                      builts, real)
            col.count("fg_runs")
            col.count("fg_events", len(real[1]))
    col.extra["access_paths"] = len(batch)
    batch.flush()


NAME_SCHEMES = {
    # caller's order differs from the lexicographic order of the names
    "numeric": ["run_8.h5", "run_9.h5", "run_10.h5", "run_11.h5"],
    "reversed": ["c.h5", "b.h5", "a.h5", "Z.h5"],
    "dirs": ["z/first.h5", "a/second.h5", "m/a/third.h5", "a/b.h5"],
    "glob": ["ev[1].h5", "ev[0].h5", "x?y.h5", "s*t.h5"],
    "mixed": ["run_10.h5", "z/run_2.h5", "ev[3].hdf5", "b.h5"],
}


def gen_fg_layout(rng, nspecs):
    """file names and the order in which the caller lists the files (a file may be listed twice)"""
    scheme = rng.choice(sorted(NAME_SCHEMES))
    names = NAME_SCHEMES[scheme][:nspecs]
    order = list(range(nspecs))
    r = rng.random()
    if r < 0.3:
        order.reverse()
    elif r < 0.6:
        rng.shuffle(order)
    if rng.random() < 0.3:
        order.insert(rng.randint(0, len(order)), rng.randrange(nspecs))      # [a, b, a]
    listed = [names[i] for i in order]
    if len(listed) > 1 and sorted(listed) == listed:
        order.reverse()
    return {"scheme": scheme, "names": names, "order": order}


def fg_write(job, d):
    """write the files of an fg job under the names of its layout -> (builts, specs) in the caller's order"""
    lay = job.get("layout") or {"names": ["g%d.h5" % j for j in range(len(job["specs"]))],
                                "order": list(range(len(job["specs"])))}
    builts = []
    for j, spec in enumerate(job["specs"]):
        fn = os.path.join(d, lay["names"][j])
        os.makedirs(os.path.dirname(fn), exist_ok=True)
        builts.append(H.write_file(spec, fn))
    return [builts[i] for i in lay["order"]], [job["specs"][i] for i in lay["order"]]


def gen_fg_specs(rng, deep=False):
    specs = []
    for fid in range(rng.randint(1, 3)):
        s = H.gen_spec(rng, always=True, n_ok=rng.randint(1, 7), nfaults=rng.choice([0, 0, 1, 2]), p_reopen=0.0)
        s = H.with_reopens(rng, s, rng.randint(1, 3))
        s["fid"] = fid
        specs.append(s)
    return specs


def gen_late_table(rng):
    """first session: only untriggered events under require_trigger (gated tables do not exist yet, not even
    as index columns); the file is read; a second session in the same process adds triggered events, so the
    ray / noise / waveform tables and their index columns appear only then"""
    w = "11" + rng.choice("01") + "".join(rng.choice(["1", "1", "0"]) for _ in range(3))
    if w[3:] == "000":
        w = w[:5] + "1"
    base = H.gen_spec(rng, always=True, w=w, n_ok=0, nfaults=0, p_reopen=0.0)
    base["rt"], base["rt_str"], base["rt_tuple"] = rng.choice(["T", "L001111", "L000111"]), False, False
    first = [H.gen_add(rng, base["nant"]) for _ in range(rng.randint(1, 3))]
    for o in first:
        o["trig"] = 0
    second = [H.gen_add(rng, base["nant"]) for _ in range(rng.randint(1, 3))]
    for o in second:
        o["trig"] = 1
        if max(o["waves"]) == 0:
            o["waves"][0] = rng.randint(1, 3)
        if max(o["rays"]) == 0:
            o["rays"][0] = rng.randint(1, 3)
    base["ops"] = first + second
    split = dict(base)
    split["ops"] = first + [{"op": "R", "mode": rng.choice(["a", "r+"])}] + second
    return {"kind": "split", "base": base, "variants": [split], "late_table": True}


def gen_split(rng):
    base = H.gen_spec(rng, always=True, n_ok=rng.randint(1, 7), nfaults=rng.choice([0, 0, 1, 2]), p_reopen=0.0)
    return {"kind": "split", "base": base,
            "variants": [H.with_reopens(rng, base, k) for k in (2, 3, rng.randint(2, 3))]}


def correspondence(run):
    nmax = run.scale(6, 12)
    ns = list(range(1, nmax + 1)) + [run.rng.randint(2, nmax) for _ in range(run.scale(2, 4))]
    jobs = []
    with H.tempdir() as d:
        files = make_files(run, ns, d)
    srs_used = {}
    for n, spec in files:
        jobs.append({"kind": "base", "spec": spec, "n": n, "seed": run.rng.getrandbits(32), "ooc": run.scale(40, 120)})
        srs = sr_set(n)
        if run.thorough():
            srs = run.rng.sample(srs, min(2, len(srs)))
        elif n >= 5:
            srs = [x for x in srs if x != n + 1]      # None (= n) already stands for "one chunk"; keeps quick < 2 min
        srs_used.setdefault(n, []).append([H.tok(s) for s in srs])
        for sr in srs:
            jobs.append({"kind": "slices", "spec": spec, "n": n, "sr": sr, "nmax": nmax})
    for n, spec in files:
        if n >= 2:
            jobs.append({"kind": "live", "spec": spec, "n": n, "seed": run.rng.getrandbits(32),
                         "srs": run.rng.choice([[None], [2], [None, 1], [3, None], [1, 2]]),
                         "scripts": run.scale(6, 25), "length": 24})
    for n, spec in files[:run.scale(8, 16)]:
        if n >= 2:
            nrows = run.rng.randint(2, 8)
            ck, cells = H.gen_cells(run.rng, n, nrows)
            jobs.append({"kind": "lookup", "spec": spec, "n": n, "cells": cells, "nrows": nrows, "cellkind": ck,
                         "seed": run.rng.getrandbits(32), "nslices": run.scale(40, 150)})
    for _ in range(run.scale(12, 120)):
        jobs.append(gen_split(run.rng))
    for _ in range(run.scale(3, 30)):
        jobs.append(gen_late_table(run.rng))
    for _ in range(run.scale(10, 100)):
        sp = gen_fg_specs(run.rng)
        jobs.append({"kind": "fg", "specs": sp, "srs": [1, 2, 3, 100], "layout": gen_fg_layout(run.rng, len(sp))})
    # heavy jobs first so that the pool is balanced; results are merged in this (deterministic) order
    jobs.sort(key=lambda j: -(j.get("n", 3) ** 3 if j["kind"] == "slices" else 20))
    H.run_jobs(run, _job, jobs)
    run.extra["exhaustive"] = True
    run.extra["exhaustive_n_max"] = nmax
    run.extra["exhaustive_file_slice_ranges"] = {str(k): v for k, v in srs_used.items()}
    run.extra["exhaustive_note"] = ("per file: all iteration slice_ranges 1..n+1 and None, all int keys -n-1..n, all "
                                    "in-claim slice spellings x steps under the listed file slice_ranges")
    return not run.broken


# ---------------------------------------------------------------------------------------------
# model-independent oracles
def oracle_access(spec, n, seed, nslices, d):
    """every access path against ONE sequential pass list(File(fn,'r')) -> None or (what, observed, expected)"""
    b = H.write_file(spec, os.path.join(d, "o.h5"))
    rng = random.Random(seed)
    with H.Reader(b.fn, None) as r:
        err, seq = r.iterate()
        if err != "stop":
            return ("sequential pass raised", err, "stop")
        if len(r) != len(seq) or len(seq) != n:
            return ("len(file) / sequential pass / accepted adds disagree", (len(r), len(seq)), n)
        for i in range(-n - 1, n + 1):
            e, ev = r.getint(i)
            if -n <= i < n:
                why = "raised " + e if e != "ok" else H.diff_events([seq[i]], [ev])
                if why:
                    return ("f[%d] differs from the sequential pass" % i, why, None)
            elif e != "index":
                return ("f[%d] on %d events" % (i, n), e, "index")
        why = reader_level_waveforms(r, seq)
        if why:
            return ("HDF5Reader.get_waveforms(event_id=...) differs from the event's own waveforms", why, None)
    for sr in ([None, 1, 2, 3] if n <= 6 else [None, 2]):
        bad = H.oracle_passes(b.fn, seq, sr)
        if bad:
            return bad
    for sr in range(1, n + 2):
        with H.Reader(b.fn, sr) as r:
            err, evs = r.iterate()
            why = "raised " + err if err != "stop" else H.diff_events(seq, evs)
            if why:
                return ("iteration with slice_range=%d differs from the sequential pass" % sr, why, None)
    space = in_claim(n)
    todo = [(sr, a, bb, c) for sr in sr_set(n) for (a, bb, c) in space]
    if len(todo) > nslices:
        todo = rng.sample(todo, nslices)
    readers = {}
    try:
        for sr, a, bb, c in todo:
            if sr not in readers:
                readers[sr] = H.Reader(b.fn, sr)
            err, evs = readers[sr].slice(a, bb, c)
            why = "raised " + err if err != "stop" else H.diff_events(seq[a:bb:c], evs)
            if why:
                return ("f[%s:%s:%s] with slice_range=%s differs from the sequential pass" % (a, bb, c, sr), why, None)
        for a, bb, c in ((0, n, 0), (None, None, -1)):
            err, evs = readers[todo[0][0]].slice(a, bb, c)
            if err != "value":
                return ("f[%s:%s:%s] must raise ValueError" % (a, bb, c), err, "value")
    finally:
        for r in readers.values():
            r.close()
    return None


def reader_level_waveforms(r, seq):
    """the reader-level access path to one event's waveforms (`File.get_waveforms(event_id, antenna_id,
    waveform_type)`, rows cut by `_get_table_slice`) against the event handles of the sequential pass"""
    import numpy as np
    for i, ev in enumerate(seq):
        rows = ev["waveforms"]
        try:
            got = r.f.get_waveforms(event_id=i)
        except ValueError as e:
            if "not saved" in str(e) and not any(e2["waveforms"] for e2 in seq):
                return None
            return "event %d: raised %s" % (i, H._tail(e))
        except Exception as e:      # noqa: BLE001
            return "event %d: raised %s" % (i, H._tail(e))
        if len(got) != len(rows):
            return "event %d: %d rows, the event handle shows %d" % (i, len(got), len(rows))
        canon = H.canon_waveform_rows(got)
        if canon != rows:
            return "event %d: rows differ from the event handle" % i
        for k in range(len(rows)):
            for a in range(got.shape[1]):
                try:
                    one = r.f.get_waveforms(event_id=i, antenna_id=a, waveform_type=k)
                except Exception as e:      # noqa: BLE001
                    return "event %d antenna %d waveform %d: raised %s" % (i, a, k, H._tail(e))
                if not H._same(one, got[k, a]):
                    return "event %d antenna %d waveform %d differs from get_waveforms(event_id)[k, a]" % (i, a, k)
    return None


def oracle_grow(spec, d):
    """ONE reader object opened again and again while the file grows (the writer appends in sessions):
    after every session len / iteration / f[-1] must show everything written so far"""
    from pyrex.io import File
    fn = os.path.join(d, "g.h5")
    state = {"reader": None, "bad": None}

    def look(b):
        if state["bad"] or not b.ok_calls:
            return
        exp = b.expected_stream()
        if state["reader"] is None:
            state["reader"] = File(fn, "r", slice_range=state.get("sr"))
        f = state["reader"]
        f.open()
        try:
            mck = [str(k) for k in f._file[H.LOC["mc_triggers"]].attrs["keys"]] if H.LOC["mc_triggers"] in f._file else []
            if len(f) != len(exp):
                state["bad"] = ("a reader opened again after the file grew reports a stale length", len(f), len(exp))
                return
            got = [H.canon_event(ev, mck) for ev in f]
            why = H.diff_events(exp, got)
            if not why:
                why = H.diff_events([exp[-1]], [H.canon_event(f[-1], mck)])
            if why:
                state["bad"] = ("a reader opened again after the file grew does not show the current content", why, None)
        except Exception as e:      # noqa: BLE001
            state["bad"] = ("a reader opened again after the file grew raised", H._tail(e), None)
        finally:
            f.close()
    b = H.write_file(spec, fn, on_reopen=look)
    look(b)
    os.remove(fn)
    return state["bad"]


def oracle_split(base, variants, d):
    out = []
    for j, spec in enumerate([base] + variants):
        b = H.write_file(spec, os.path.join(d, "p%d.h5" % j))
        with H.Reader(b.fn, None) as r:
            out.append((r.iterate(), H.raw_dump(b)[0], b.expected_stream()))
    (err0, seq0), raw0, exp0 = out[0]
    if err0 != "stop" or H.diff_events(exp0, seq0):
        return ("single-session file does not read back what was added", err0 + " " + str(H.diff_events(exp0, seq0)), None)
    clean = all(o.get("fault", "none") == "none" for o in base["ops"])
    for spec, ((err, seq), raw, _) in zip(variants, out[1:]):
        why = "raised " + err if err != "stop" else H.diff_events(seq0, seq)
        if why:
            return ("append-split file reads differently from the single-session file (%s)" % H.describe(spec)[:300], why, None)
        if clean and raw[1:] != raw0[1:]:
            return ("append-split file has different tables / index (%s)" % H.describe(spec)[:300], raw[1:], raw0[1:])
    return None


def oracle_fg(specs, srs, d, layout=None):
    """the replayed stream must be the concatenation of the sequential passes over the files IN THE ORDER
    THE CALLER LISTED THEM (whatever their names: numeric suffixes, directories, glob characters, a file
    listed twice), for every slice_range"""
    import h5py
    builts, specs = fg_write({"specs": specs, "layout": layout}, d)
    want, ends = [], []
    total = 0
    for b in builts:
        evs = b.expected_stream()
        want += [H.sig_of_rows(ev["particles"]) for ev in evs]
        with h5py.File(b.fn, "r") as f:
            total += int(f[H.LOC["particles"]].attrs["total_thrown"])
        ends.append((len(want), total))
    for sr in srs:
        err, got = H.real_fg([b.fn for b in builts], sr)
        if err != "stop":
            return ("FileGenerator(slice_range=%d) ended with %s" % (sr, err), err, "stop")
        if [g[0] for g in got] != want:
            return ("FileGenerator(slice_range=%d) does not replay the particles handed to add" % sr,
                    "%d events, first difference at %s" % (len(got), next((i for i, (x, y) in enumerate(zip(got, want)) if x[0] != y), "length")),
                    "%d events" % len(want))
        counts = [g[1] for g in got]
        if any(x > y for x, y in zip(counts, counts[1:])):
            return ("FileGenerator.count decreases (slice_range=%d)" % sr, counts, "non-decreasing")
        for k, tot in ends:
            if counts[k - 1] != tot:
                return ("FileGenerator.count after the last event of a file (slice_range=%d)" % sr, counts[k - 1], tot)
        # the count setter: a custom count set mid-stream shifts every later count by the same amount
        why = fg_count_setter([b.fn for b in builts], sr, counts)
        if why:
            return ("FileGenerator.count after `generator.count = c`", why, None)
    if len(builts) == 1:      # a single file may be given as a plain string
        from pyrex.generation import FileGenerator
        try:
            g = FileGenerator(builts[0].fn, slice_range=2)
            got = []
            try:
                while True:
                    got.append(H.particle_sig(g.create_event()))
            except StopIteration:
                pass
            finally:
                g._file.close()
        except Exception as e:      # noqa: BLE001
            return ("FileGenerator(<single file name as str>) raised", H._tail(e), "replay")
        if got != want:
            return ("FileGenerator(<single file name as str>) does not replay the file", len(got), len(want))
    return None


def fg_count_setter(files, sr, counts):
    from pyrex.generation import FileGenerator
    if len(counts) < 2:
        return None
    j = len(counts) // 2
    g = FileGenerator(list(files), slice_range=sr)
    try:
        for _ in range(j):
            g.create_event()
        c0 = (1000 + counts[j - 1]) if sr != 2 else 0      # also a custom count BELOW what the files account for
        g.count = c0
        if g.count != c0:
            return "count reads %r right after being set to %r" % (g.count, c0)
        for k in range(j, len(counts)):
            g.create_event()
            if g.count != c0 + counts[k] - counts[j - 1]:
                return "after event %d: count %r, expected %r" % (k, g.count, c0 + counts[k] - counts[j - 1])
    except Exception as e:      # noqa: BLE001
        return "raised " + H._tail(e)
    finally:
        try:
            g._file.close()
        except Exception:      # noqa: BLE001
            pass
    return None


def oracle_lookup(spec, n, cells, nrows, seed, nslices, d):
    """a table whose rows are referenced out of event order: what every event shows under chunked
    iteration (every slice_range) and under slices must equal f[i] and the slice_range=1 pass
    (and the rows its own cell names)"""
    from pyrex.io import File
    fn = os.path.join(d, "lko.h5")
    cells = [tuple(c) for c in cells]
    H.write_file(spec, fn)
    H.add_lookup(fn, spec, cells, nrows)
    try:
        want = [tuple(range(s, s + ln)) for s, ln in cells]
        with File(fn, "r") as f:
            single = [H.lookup_rows(f[i]) for i in range(n)]
        with File(fn, "r", slice_range=1) as f:
            err, one = H.lookup_drain(lambda: iter(f))
        if single != want or err != "stop" or one != want:
            return ("f[i] / slice_range=1 do not show the rows the index cells name", (single, err, one), want)
        rng = random.Random(seed)
        for path in lookup_paths(rng, n, nslices):
            if path[0] == "iter":
                with File(fn, "r", slice_range=path[1]) as f:
                    err, got = H.lookup_drain(lambda: iter(f))
                exp = want
            else:
                _, sr, a, b, c = path
                with File(fn, "r", slice_range=sr) as f:
                    err, got = H.lookup_drain(lambda: f[a:b:c])
                exp = want[a:b:c]
            if err != "stop" or got != exp:
                return ("%r on a look-up table with cells %r differs from f[i] / slice_range=1" % (path, cells),
                        (err, got), exp)
        return None
    finally:
        if os.path.exists(fn):
            os.remove(fn)


def oracle_live(spec, n, srs, seed, nscripts, length, d):
    """several handles of open readers alive at once, examined later and out of order: every handle must
    keep showing the event of ONE sequential pass that its access path designates; distinct iterators
    must not share their loaded-chunk storage (object identity)"""
    fn = os.path.join(d, "lv.h5")
    H.write_file(spec, fn)
    try:
        with H.Reader(fn, None) as r:
            err, ref = r.iterate()
        if err != "stop" or len(ref) != n:
            return ("sequential pass failed", (err, len(ref)), n)
        rng = random.Random(seed)
        for _ in range(nscripts):
            script = H.gen_script(rng, n, len(srs), length)
            obs, alias = H.run_session(fn, srs, script)
            lists = []
            for a in H.script_paths(script):
                if a[0] == "int":
                    lists.append([ref[a[2] % n]])
                elif a[0] == "slice":
                    lists.append(ref[slice(a[2], a[3], a[4])])
                else:
                    lists.append(list(ref))
            why = H.diff_session(script, H.session_expected(script, lists), obs)
            if why:
                return ("an event handle kept while other handles of the reader are used shows another event's data",
                        {"script": script, "why": why}, "each handle keeps its own event")
            if alias:
                return ("distinct iterators of one reader share their loaded data", {"script": script, "alias": alias[:3]},
                        "separate storage per iterator")
        return None
    finally:
        if os.path.exists(fn):
            os.remove(fn)


def _search_job(job, col, d):
    kind = job["kind"]
    if kind == "lookup":
        res = oracle_lookup(job["spec"], job["n"], job["cells"], job["nrows"], job["seed"], job["nslices"], d)
        col.case(("oracle-lookup", job["cells"], job["seed"]))
    elif kind == "live":
        res = oracle_live(job["spec"], job["n"], job["srs"], job["seed"], job["scripts"], job["length"], d)
        col.case(("oracle-live", H.describe(job["spec"]), job["seed"]))
    elif kind == "access":
        res = oracle_access(job["spec"], job["n"], job["seed"], job["nslices"], d)
        col.case(("oracle-access", H.describe(job["spec"])))
    elif kind == "split":
        res = oracle_split(job["base"], job["variants"], d)
        col.case(("oracle-split", H.describe(job["base"])))
        if res is None:
            for v in job["variants"]:
                res = oracle_grow(v, d)
                col.count("oracle_grow")
                if res:
                    break
    else:
        res = oracle_fg(job["specs"], job["srs"], d, job.get("layout"))
        col.case(("oracle-fg", [H.describe(s) for s in job["specs"]]))
    col.count("oracle_" + kind)
    if res:
        data = dict(job)
        data["desc"] = H.describe(job.get("spec") or job.get("base") or job["specs"][0])
        col.fail_input(kind, data, observed=res[1], expected=res[2], what=res[0])


def search(run, deep):
    nmax = 12 if deep else 6
    jobs = []
    ns = [run.rng.randint(1, nmax) for _ in range(30 if deep else 4)]
    nlive = 10 if deep else 2
    ns += [run.rng.randint(3, nmax) for _ in range(nlive)]      # files used for the live-handle sessions only
    with H.tempdir() as d:
        files = make_files(run, ns, d)
    for idx, (n, spec) in enumerate(files):
        if idx < len(ns) - nlive:
            jobs.append({"kind": "access", "spec": spec, "n": n, "seed": run.rng.getrandbits(32),
                         "nslices": 1500 if deep else 150})
        if n >= 2:
            nrows = run.rng.randint(2, 8)
            ck, cells = H.gen_cells(run.rng, n, nrows)
            jobs.append({"kind": "lookup", "spec": spec, "n": n, "cells": cells, "nrows": nrows, "cellkind": ck,
                         "seed": run.rng.getrandbits(32), "nslices": 300 if deep else 40})
            jobs.append({"kind": "live", "spec": spec, "n": n, "seed": run.rng.getrandbits(32),
                         "srs": run.rng.choice([[None], [2], [None, 1], [3, None]]),
                         "scripts": 40 if deep else 8, "length": 24})
    for _ in range(120 if deep else 6):
        j = gen_split(run.rng)
        jobs.append(j)
    for _ in range(40 if deep else 4):
        jobs.append(gen_late_table(run.rng))
    for _ in range(100 if deep else 8):
        sp = gen_fg_specs(run.rng)
        jobs.append({"kind": "fg", "specs": sp, "srs": [1, 2, 3, 100], "layout": gen_fg_layout(run.rng, len(sp))})
    H.run_jobs(run, _search_job, jobs)


def degenerate_probes(spec, d):
    """excluded points of the C12 theorems on the real code, against what the MODEL says there:
    slice_range = 0 -> ValueError before any event (theorem C12_slice_range_zero_raises); slice_range < 0 ->
    whatever is yielded is a correct prefix and the pass ends with ValueError or normally (model not
    faithful there); FileGenerator([]) -> StopIteration, FileGenerator(slice_range=0) -> IndexError in the
    constructor (theorem C12_filegen_degenerate)"""
    from pyrex.generation import FileGenerator
    bad = []
    fn = os.path.join(d, "deg.h5")
    b = H.write_file(spec, fn)
    exp = b.expected_stream()
    n = len(exp)
    for sr in (0, -1, -2, -n - 1):
        for label, a, bb, c in (("iter", None, None, None), ("slice", 0, n, 1), ("slice", 1, None, 2)):
            with H.Reader(fn, sr) as r:
                err, evs = r.iterate() if label == "iter" else r.slice(a, bb, c)
            want = exp if label == "iter" else exp[a:bb:c]
            if H.diff_events(want[:len(evs)], evs):
                bad.append(("%s with slice_range=%d yields wrong events" % (label, sr), H.diff_events(want[:len(evs)], evs), "a prefix"))
            elif sr == 0 and (err != "value" or evs) and want:
                bad.append(("%s with slice_range=0" % label, (err, len(evs)), "ValueError before the first event"))
            elif err not in ("value", "stop") or (err == "stop" and len(evs) != len(want)):
                bad.append(("%s with slice_range=%d ends with" % (label, sr), (err, len(evs)), "ValueError or the complete stream"))
    for files, sr, want in (([], 2, StopIteration), ([fn], 0, IndexError)):
        try:
            FileGenerator(list(files), slice_range=sr)
            bad.append(("FileGenerator(%d files, slice_range=%d)" % (len(files), sr), "no exception", want.__name__))
        except want:
            pass
        except Exception as e:      # noqa: BLE001
            bad.append(("FileGenerator(%d files, slice_range=%d)" % (len(files), sr), H._tail(e), want.__name__))
    replies = fw.run_driver("C12", ["fg 0 1 " + H.file_line(spec), "fg 2 0", "iter %s 0" % H.file_line(spec)])
    for rp, want in zip(replies, ("init-index", "init-stop", "value")):
        if rp.split(" | ")[0].strip() != want:
            bad.append(("model on the degenerate request", rp, want))
    os.remove(fn)
    return bad


F20_CELLS = [(0, 5), (3, 1), (1, 2), (4, 1), (0, 1)]


def corpus(run):
    """regression: the minimal input of F20 (4e94c15) - an early event reaching further than the event with
    the largest start, chunks of two / stride two"""
    spec = H.gen_spec(random.Random(20), always=True, n_ok=5, nfaults=0, p_reopen=0.0, w="110000")
    with H.tempdir() as d:
        res = oracle_lookup(spec, 5, F20_CELLS, 6, 20, 400, d)
        for what, obs, exp in degenerate_probes(spec, d):
            run.fail_input("degenerate", {"kind": "degenerate", "spec": spec, "desc": what}, observed=obs, expected=exp,
                           what="degenerate input: " + what)
            res = res or ("degenerate", obs, exp)
    run.case(("corpus", "degenerate"))
    run.case(("corpus", "F20_block_end"))
    run.count("corpus_cases")
    if res:
        run.fail_input("lookup", {"kind": "lookup", "spec": spec, "n": 5, "cells": F20_CELLS, "nrows": 6, "seed": 20,
                                  "nslices": 400, "desc": "F20 minimal input"},
                       observed=res[1], expected=res[2], what="regression corpus F20: " + res[0])
        return False
    return True


def replay(run, data):
    job = dict(data["input"])
    job["kind"] = data["kind"]
    if job["kind"] == "K6":
        known_probes(run)
        return
    col = H.Collector()
    with H.tempdir() as d:
        _search_job(job, col, d)
    col.merge_into(run)


# ---------------------------------------------------------------------------------------------
# known finding K6: a zero-event file in the FileGenerator list
def _k6_specs():
    def add(np_):
        return {"op": "A", "np": np_, "trig": 1, "form": "bool", "waves": [0], "rays": [0], "thrown": 1, "fault": "none"}

    def spec(fid, ops):
        return {"w": "110000", "rt": "F", "rt_str": False, "nant": 1, "noisy": [0], "ops": ops, "fid": fid}
    return [spec(0, [add(1), add(2)]), spec(1, []), spec(2, [add(2), add(1)])]


def k6_probe(d):
    """-> (fails, observed): FileGenerator([A, E, B], slice_range=2) where E has no events"""
    specs = _k6_specs()
    builts = [H.write_file(s, os.path.join(d, "k%d.h5" % j)) for j, s in enumerate(specs)]
    err, got = H.real_fg([b.fn for b in builts], 2)
    want = [H.sig_of_rows(ev["particles"]) for b in builts for ev in b.expected_stream()]
    ok = err == "stop" and [g[0] for g in got] == want
    return (not ok), "%s after %d of %d events" % (err, len(got), len(want))


def known_probes(run):
    with H.tempdir() as d:
        fails, observed = k6_probe(d)
    run.count("K6_probe")
    if fails:
        if not run.known_finding("K6"):
            run.fail_input("K6", {"files": "A(2 events), E(0 events), B(2 events)", "slice_range": 2,
                                  "specs": _k6_specs()}, observed=observed,
                           expected="A's and B's events, then StopIteration",
                           what="FileGenerator over a file list containing a zero-event file")
