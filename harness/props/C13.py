"""C13 - generators throw uniform, isotropic, correctly weighted neutrinos; count throws.

Float twin of lean/twin/Gen.body (+ Earth.body, Interaction.body) and the index machine
lean/PyrexVerif/D/ListGen.lean against pyrex.generation; numpy.random is fed from a tape."""
import math

import numpy as np

import framework as fw
from props._gen_tape import Tape
from props import C14 as c14

LEVEL = "proof"
USE_TWINS = True
EXTRACTORS = ["generation_consts", "interaction_consts", "earth_consts"]
TECHNIQUE = ("Lean 4 theorems over the real-number reading of a twin model (samplers as functions of the uniform tape, "
             "exit-point geometry, weights, rejection loop) + discrete list-generator machine; tape-fed differential run")
RULE = ("volumes: cylinders and boxes with dimensions log-uniform over 10..1e4 m (aspect ratios up to 1e3); samplers "
        "on random tapes plus injected 0/1-adjacent and threshold-adjacent uniforms; exit points for vertices inside "
        "the volume x directions {isotropic, axis-parallel (+-x,+-y,+-z), in-plane, vertical, grazing the cylinder "
        "side / box edges}; whole create_event calls with energies 1e3..1e12 GeV, both interaction models, both Earth "
        "models, shadow on/off, flavour ratios and both sources, secondaries on/off; shadowed generators fed by a "
        "counting, non-constant energy callable at energies where throws are rejected; list generators of 0..6 events "
        "with random create/set-count/query histories (also as an oracle against the reference position/offset "
        "machine); one generator object reused for particles of both signs at equal and different energies; a case is non-trivial when a direction is not degenerate / a "
        "draw decides a branch; distinct = distinct request lines")
LEVEL_TEXT = ("theorems over R: radius inverse-CDF law, z/azimuth/box affine laws, unit direction, flavour threshold "
              "intervals, box exit points on the boundary / collinear / bracketing the vertex (slab method incl. "
              "axis-parallel directions) and totality of the box exit, shadow acceptance as a measure statement, both cylinder side candidates on the side surface and on the line, cap "
              "override on the cap and on the line, weight formulas, count = number of passes by induction over the "
              "tape, list-generator cycle/stop/count; model and implementation agree on every sampled tape")
LEVEL_NOTE = ("floating-point rounding not modelled (rel 1e-9, exit points abs 1e-7*size); numpy.random variates are the "
              "tape; C13_vertex_uniform_partial / C13_isotropic_partial prove the marginal inverse-CDF laws (measure of "
              "{u | r(u) <= rho} = (rho/dr)^2, cos(theta) affine in u, z and box coordinates affine) but not the 3-D "
              "change of variables to volume / solid-angle measure; C13_cyl_exit_brackets_vertex_partial covers the "
              "classification of returned points for any input; C13_cyl_exit_total_generic proves totality + strict bracketing + "
              "collinearity for a vertex strictly inside and d_x != 0, C13_cyl_exit_total_dx_zero the same for d_x = 0, d_y != 0 "
              "(the exactly vertical direction divides by zero in the source - IEEE vs Lean semantics differ -, boundary "
              "vertices and grazing tangency are left to the correspondence run); C13_box_exit_total is proved at full strength; a vertex exactly on the "
              "cylinder SIDE surface makes get_exit_points raise in about half of the directions (K18, reachable only when "
              "dr*sqrt(u) rounds to dr); hypothesis audit: "
              "the exactly vertical direction is answered CORRECTLY by the real code (IEEE inf + cap override) - only the R-"
              "reading cannot carry the proof, hence the guard d.x!=0 or d.y!=0 on C13_cyl_exit_brackets_vertex_partial; a zero "
              "direction is rejected with ValueError (theorems C13_box_exit_zero_direction / C13_cyl_exit_zero_direction, "
              "exception type demanded by the harness); vertices outside the volume, non-positive dimensions, flavour ratios "
              "summing to 0 (nan ratios, always tau) and an undefined source (ValueError) are outside the property's quantifier; "
              "ListGenerator([]) with loop=True raises ZeroDivisionError and still increments count (observation, compared with "
              "the model); 1000 consecutive shadow rejections would exceed Python's recursion limit (probability < 0.6^990 at "
              "1e12 GeV); the model's `fuel` is the tape length and never binds; the "
              "survival weight inherits the exit-node ambiguity of slant_depth (C15): the run accepts either value and "
              "skips shadow decisions within 1e-3 of the threshold; KS tests only in the thorough search (p=1e-6)")
ASSUMPTIONS = ["np.random.uniform(low, high) = low + (high-low)*u elementwise", "np.linalg.norm, np.sum by specification"]


def G():
    import pyrex.generation as g
    return g


def earths():
    from pyrex.earth_model import PREM, CoreMantleCrustModel
    return {"prem": PREM(), "cmc": CoreMantleCrustModel()}


# ------------------------------------------------------------------------------------------------
# configurations
def draw_volume(rng):
    if rng.random() < 0.5:
        return ("cyl", 10 ** rng.uniform(1, 4), 10 ** rng.uniform(1, 4))
    return ("box", 10 ** rng.uniform(1, 4), 10 ** rng.uniform(1, 4), 10 ** rng.uniform(1, 4))


def vol_toks(vol):
    return "%s %s" % (vol[0], fw.fl(vol[1:]))


def make_gen(vol, energy=1e9, **kw):
    g = G()
    if vol[0] == "cyl":
        return g.CylindricalGenerator(vol[1], vol[2], energy, **kw)
    return g.RectangularGenerator(vol[1], vol[2], vol[3], energy, **kw)


def inside_vertex(rng, vol):
    if vol[0] == "cyl":
        r = vol[1] * math.sqrt(rng.random()) * rng.choice([1, 1, 1, 0.999999, 0])
        th = rng.uniform(0, 2 * math.pi)
        return [r * math.cos(th), r * math.sin(th), -vol[2] * rng.random()]
    return [vol[1] * (rng.random() - 0.5), vol[2] * (rng.random() - 0.5), -vol[3] * rng.random()]


def boundary_vertex(rng, vol):
    """a vertex EXACTLY on the boundary: box faces / edges / corners, cylinder caps (the cylinder side is K18)"""
    v = inside_vertex(rng, vol)
    if vol[0] == "box":
        sides = [(-vol[1] / 2, vol[1] / 2), (-vol[2] / 2, vol[2] / 2), (-vol[3], 0.0)]
        for j in rng.sample([0, 1, 2], rng.randint(1, 3)):
            v[j] = rng.choice(sides[j])
    else:
        v[2] = rng.choice([0.0, -vol[2]])
    return v


def draw_direction(rng, vol, v):
    kind = rng.choice(["iso", "iso", "iso", "iso", "axis", "plane", "vertical", "vertical", "grazing", "xzero", "tiny",
                       "tinyxy", "zero"])
    if kind == "iso":
        d = [rng.gauss(0, 1) for _ in range(3)]
    elif kind == "axis":
        d = [0.0, 0.0, 0.0]
        d[rng.randrange(3)] = rng.choice([-1.0, 1.0])
    elif kind == "plane":
        d = [rng.gauss(0, 1), rng.gauss(0, 1), rng.gauss(0, 1)]
        d[rng.randrange(3)] = 0.0
    elif kind == "vertical":
        d = [0.0, 0.0, rng.choice([-1.0, 1.0])]
    elif kind == "grazing":
        if vol[0] == "cyl":       # nearly tangent to the circle through a point close to the side
            ph = rng.uniform(0, 2 * math.pi)
            d = [-math.sin(ph), math.cos(ph), rng.gauss(0, 0.3)]
            rr = vol[1] * (1 - 10 ** rng.uniform(-9, -2))
            v[0], v[1] = rr * math.cos(ph), rr * math.sin(ph)
        else:                      # nearly along an edge
            d = [1.0, 10 ** rng.uniform(-12, -3) * rng.choice([-1, 1]), 10 ** rng.uniform(-12, -3) * rng.choice([-1, 1])]
            rng.shuffle(d)
    elif kind == "zero":       # no direction at all: both generators must raise ValueError
        d = [0.0, 0.0, 0.0]
    elif kind == "xzero":
        d = [0.0, rng.gauss(0, 1), rng.gauss(0, 1)]
    elif kind == "tinyxy":     # a horizontal component that is tiny but NOT zero (general branch of the cylinder code)
        d = [rng.gauss(0, 1), rng.gauss(0, 1), rng.gauss(0, 1)]
        d[rng.randrange(2)] = 10 ** rng.uniform(-7.5, -3) * rng.choice([-1, 1])   # below ~1e-8 the slope form loses digits
    else:
        d = [rng.gauss(0, 1), rng.gauss(0, 1), 10 ** rng.uniform(-14, -6) * rng.choice([-1, 1])]
    return d, kind


def base_particle(v, d, E=1e9):
    import pyrex.particle as pp
    return pp.Particle("nu_e", v, d, E, interaction_model=pp.Interaction)


def exit_impl(gen, p):
    """exit points; None = the documented ValueError; any other exception is returned as text (never swallowed)"""
    try:
        a, b = gen.get_exit_points(p)
        return [float(x) for x in a] + [float(x) for x in b]
    except ValueError:
        return None
    except Exception as e:      # noqa: BLE001
        return "EXC %s: %s" % (type(e).__name__, str(e)[:100])


def vol_size(vol):
    return max(vol[1:])


def draw_event_cfg(run):
    rng = run.rng
    vol = draw_volume(rng)
    return dict(vol=vol, shadow=rng.random() < 0.35, ratio=rng.choice([(1, 1, 1), (1, 2, 0), (0, 1, 0), (3, 1, 2), (1, 0, 0)]),
                source=rng.choice(["cosmogenic", "astrophysical"]), model=rng.choice(["gqrs", "ctw"]),
                sec=rng.random() < 0.5, earth=rng.choice(["prem", "cmc"]), E=10 ** rng.uniform(3, 12))


def cfg_gen(cfg):
    return make_gen(cfg["vol"], cfg["E"], shadow=cfg["shadow"], flavor_ratio=cfg["ratio"], source=cfg["source"],
                    interaction_model=c14.model_cls(cfg["model"]), earth_model=earths()[cfg["earth"]])


def run_event(run, cfg, inject=None):
    """one create_event under the tape; records the weights of every pass"""
    import pyrex.particle as pp
    gen = cfg_gen(cfg)
    passes = []
    orig = gen.get_weights

    def rec(p):
        w = orig(p)
        passes.append((float(w[0]), float(w[1])))
        return w
    gen.get_weights = rec
    tape = Tape(run.rng, "nominal", inject)
    old = pp.GQRSInteraction.include_secondaries
    ev, err = None, None
    try:
        pp.GQRSInteraction.include_secondaries = cfg["sec"]
        with tape:
            try:
                ev = gen.create_event()
            except (ValueError, TypeError, OverflowError) as e:
                err = "%s: %s" % (type(e).__name__, e)
    finally:
        pp.GQRSInteraction.include_secondaries = old
    return gen, ev, err, tape, passes


def event_line(cfg, tape):
    return "event %s %d %s %d %s %d %s %s | %s | %s" % (
        vol_toks(cfg["vol"]), 1 if cfg["shadow"] else 0, fw.fl([float(x) for x in cfg["ratio"]]),
        1 if cfg["source"] == "cosmogenic" else 0, cfg["model"], 1 if cfg["sec"] else 0, cfg["earth"], fw.f2b(cfg["E"]),
        fw.fl(tape.us + [0.5]), " ".join(str(k) for k in tape.ks + [0, 0, 0]))


FL = {12: ("e", 0), -12: ("e", 1), 14: ("mu", 0), -14: ("mu", 1), 16: ("tau", 0), -16: ("tau", 1)}


# ------------------------------------------------------------------------------------------------
def correspondence(run):
    rng = run.rng
    ok = True
    reqs = c14.sectab_lines()
    checks = [("sectab", None)] * len(reqs)
    g = G()
    # ---- samplers
    for i in range(run.scale(150, 1500)):
        vol = draw_volume(rng)
        gen = make_gen(vol)
        inj = [rng.choice([2.0 ** -53, 1 - 2.0 ** -53, 0.5, 0.25])] * 3 if rng.random() < 0.1 else None
        t = Tape(rng, inject=inj)
        with t:
            v = gen.get_vertex()
        reqs.append("vertex %s %s" % (vol_toks(vol), fw.fl(t.us))); checks.append(("floats", ("vertex", vol, [float(x) for x in v], 1e-12 * vol_size(vol))))
        t = Tape(rng)
        with t:
            d = gen.get_direction()
        import pyrex.internal_functions as pif
        reqs.append("direction %s" % fw.fl(t.us)); checks.append(("floats", ("direction", None, [float(x) for x in d] + [float(x) for x in pif.normalize(d)], 1e-15)))
        ratio = rng.choice([(1, 1, 1), (1, 2, 0), (0, 1, 0), (3, 1, 2), (0.2, 0.5, 0.3)])
        src = rng.choice(["cosmogenic", "astrophysical"])
        gen2 = make_gen(vol, flavor_ratio=ratio, source=src)
        r0, r1 = float(gen2.ratio[0]), float(gen2.ratio[0] + gen2.ratio[1])
        inj = None
        if rng.random() < 0.3:
            thr = rng.choice([r0, r1])
            inj = [min(max(thr * (1 + rng.choice([-1, 1]) * 1e-12), 0.0), 1 - 2.0 ** -53), rng.choice([0.78, 0.61, 0.5]) * (1 + rng.choice([-1, 1]) * 1e-12)]
        t = Tape(rng, inject=inj)
        with t:
            pt = gen2.get_particle_type()
        reqs.append("ptype %s %d %s" % (fw.fl([float(x) for x in ratio]), 1 if src == "cosmogenic" else 0, fw.fl(t.us)))
        checks.append(("ptype", (ratio, src, t.us, "%s %d" % FL[pt.value])))
    # ---- exit points
    for i in range(run.scale(400, 5000)):
        vol = draw_volume(rng)
        gen = make_gen(vol)
        onb = rng.random() < 0.15
        v = boundary_vertex(rng, vol) if onb else inside_vertex(rng, vol)
        d, kind = draw_direction(rng, vol, v)
        if onb:
            if kind == "grazing":
                d, kind = [rng.gauss(0, 1) for _ in range(3)], "iso"
            kind = kind + "_boundaryvertex"
        p = base_particle(v, d)
        impl = exit_impl(gen, p)
        reqs.append("exit %s %s" % (vol_toks(vol), fw.fl([float(x) for x in p.vertex] + [float(x) for x in p.direction])))
        checks.append(("exit", (vol, v, d, kind, impl)))
    # ---- whole events
    for i in range(run.scale(90, 900)):
        cfg = draw_event_cfg(run)
        gen, ev, err, tape, passes = run_event(run, cfg)
        reqs.append(event_line(cfg, tape)); checks.append(("event", (cfg, gen, ev, err, tape, passes)))
    # ---- list generators
    for i in range(run.scale(60, 600)):
        n = rng.randint(0, 6)
        loop = rng.random() < 0.5
        ops = [rng.choice(["c", "c", "c", "q", "s%d" % rng.randint(-5, 50)]) for _ in range(rng.randint(1, 20))]
        reqs.append("list %d %d %s" % (n, 1 if loop else 0, " ".join(ops))); checks.append(("list", (n, loop, ops, list_impl(n, loop, ops))))

    replies = fw.run_driver("C13", reqs)
    for rq, (op, arg), rp in zip(reqs, checks, replies):
        if op == "sectab":
            continue
        if rp == "bad-op":
            ok = False
            run.note_broken("correspondence: model rejected request %s" % rq[:160])
            continue
        if op == "floats":
            what, vol, impl, atol = arg
            got = fw.unfl(rp.split())
            run.case((what, rq), sample={"op": what, "request": rq[:120], "impl": impl})
            run.count("sampler_" + what)
            if fw.all_close(got, impl, 1e-12, atol):
                run.traces += 1
            else:
                ok = False
                run.note_broken("correspondence: %s %s model=%s impl=%s" % (what, rq[:200], got, impl))
        elif op == "ptype":
            ratio, src, us, impl = arg
            run.case(("ptype", rq))
            run.count("sampler_ptype")
            if rp == impl:
                run.traces += 1
            else:
                ok = False
                run.note_broken("correspondence: get_particle_type ratio=%s source=%s draws=%s model=%s impl=%s" % (ratio, src, us, rp, impl))
        elif op == "exit":
            vol, v, d, kind, impl = arg
            run.case(("exit", rq), nontrivial=kind not in ("vertical",), sample={"volume": vol, "vertex": v, "direction": d, "impl": impl})
            run.count("exit_" + vol[0] + "_" + kind)
            if isinstance(impl, str):
                good = False
            elif impl is None or rp == "none":
                run.count("exit_none")
                good = (impl is None) == (rp == "none")
            else:
                good = fw.all_close(fw.unfl(rp.split()), impl, 1e-9, 1e-7 * vol_size(vol))
            if good:
                run.traces += 1
            else:
                ok = False
                run.note_broken("correspondence: get_exit_points volume=%s vertex=%s direction=%s model=%s impl=%s"
                                % (vol, v, d, rp if rp == "none" else fw.unfl(rp.split()), impl))
        elif op == "list":
            n, loop, ops, impl = arg
            run.case(("list", rq))
            run.count("list_histories")
            if rp == impl:
                run.traces += 1
            else:
                ok = False
                run.note_broken("correspondence: ListGenerator n=%d loop=%s ops=%s model=%s impl=%s" % (n, loop, ops, rp, impl))
        else:
            cfg, gen, ev, err, tape, passes = arg
            desc = {k: cfg[k] for k in ("vol", "shadow", "ratio", "source", "model", "sec", "earth", "E")}
            run.case(("event", rq), sample={"config": desc, "uniforms": tape.us[:7], "passes": len(passes)})
            run.count("event_%s_%s" % (cfg["vol"][0], "shadow" if cfg["shadow"] else "noshadow"))
            run.count("event_passes", len(passes))
            # shadow decisions too close to the threshold would turn the exit-node rounding of slant_depth into a
            # different history: skip them (see LEVEL_NOTE)
            if ev is None:
                run.count("event_exception")
                if rp == "none":
                    run.traces += 1
                else:
                    ok = False
                    run.note_broken("correspondence: create_event %s raised %s, model %s" % (desc, err, rp[:200]))
                continue
            if rp == "none":
                ok = False
                run.note_broken("correspondence: create_event %s model gives none, impl returned an event (tape %s)" % (desc, tape.us[:9]))
                continue
            head, vals = rp.split("|")
            h = head.split()
            vals = fw.unfl(vals.split())
            p = ev.roots[0]
            I = p.interaction
            fl_, anti = FL[p.id.value]
            impl_head = [str(gen.count), str(len(tape.us)), str(len(tape.ks)), fl_, str(anti), "cc" if I.kind == I.Type.cc else "nc"]
            surv_impl = passes[-1][0]
            impl_vals = [float(x) for x in p.vertex] + [float(x) for x in p.direction] + [float(p.energy), float(I.inelasticity),
                        float(I.em_frac), float(I.had_frac), float(p.survival_weight), float(p.interaction_weight)]
            good = h == impl_head and fw.all_close(vals[:10], impl_vals[:10], 1e-9, 1e-12 * vol_size(cfg["vol"])) \
                and fw.close(vals[11], impl_vals[11], 1e-9, 0.0)
            if good and not fw.close(vals[10], impl_vals[10], 1e-9, 0.0):
                # exit-node ambiguity of slant_depth: recompute the alternative column with the implementation
                good = surv_alternative_ok(cfg, p, vals[10], surv_impl)
                run.count("event_survival_exit_node_other_rounding")
            if good:
                run.traces += 1
            else:
                near = any(abs(u - w[0]) <= 1e-3 * w[0] for w in passes for u in tape.us)
                if cfg["shadow"] and near:
                    run.count("event_skipped_threshold")
                    continue
                ok = False
                run.note_broken("correspondence: create_event %s uniforms=%s poisson=%s model=%s %s impl=%s %s"
                                % (desc, tape.us[:9], tape.ks[:6], h, vals, impl_head, impl_vals))
    return ok


def surv_alternative_ok(cfg, p, model_surv, impl_surv):
    """the two survival weights may differ by the weight of the exit node of the trapezoid sum"""
    earth = earths()[cfg["earth"]]
    L = p.interaction.total_interaction_length
    dist_bound = 500.0 * 2          # node spacing is below 2*step
    crust = float(earth.densities[-1])
    dx = dist_bound * crust * 100 / 2 / L
    return abs(math.log(model_surv) - math.log(impl_surv)) <= dx * (1 + 1e-6) if model_surv > 0 and impl_surv > 0 else model_surv == impl_surv


def list_impl(n, loop, ops):
    g = G()
    import pyrex.particle as pp
    evs = [pp.Event(base_particle((0, 0, -i - 1), (0, 0, 1))) for i in range(n)]
    gen = g.ListGenerator(list(evs), loop=loop)
    out = []
    for op in ops:
        if op == "c":
            try:
                e = gen.create_event()
                out.append(str([id(x) for x in evs].index(id(e))))
            except StopIteration:
                out.append("stop")
            except ZeroDivisionError:
                out.append("zerodiv")
        elif op == "q":
            out.append("q%d" % gen.count)
        else:
            gen.count = int(op[1:])
            out.append("ok")
    return " ".join(out)


# ------------------------------------------------------------------------------------------------
# property-level oracles on the implementation alone
def on_boundary(vol, pt, tol):
    if vol[0] == "cyl":
        r = math.hypot(pt[0], pt[1])
        side = abs(r - vol[1]) <= tol and -vol[2] - tol <= pt[2] <= tol
        cap = (abs(pt[2]) <= tol or abs(pt[2] + vol[2]) <= tol) and r <= vol[1] + tol
        return side or cap
    fx = abs(abs(pt[0]) - vol[1] / 2) <= tol
    fy = abs(abs(pt[1]) - vol[2] / 2) <= tol
    fz = abs(pt[2]) <= tol or abs(pt[2] + vol[3]) <= tol
    inside = abs(pt[0]) <= vol[1] / 2 + tol and abs(pt[1]) <= vol[2] / 2 + tol and -vol[3] - tol <= pt[2] <= tol
    return (fx or fy or fz) and inside


def true_chord(vol, v, u):
    """independent computation of the parameters (t_in <= 0 <= t_out) where the line v + t u leaves the volume"""
    lo, hi = -math.inf, math.inf
    def slab(p, dcomp, a, b):
        nonlocal lo, hi
        if dcomp == 0:
            return
        t1, t2 = (a - p) / dcomp, (b - p) / dcomp
        lo, hi = max(lo, min(t1, t2)), min(hi, max(t1, t2))
    if vol[0] == "box":
        slab(v[0], u[0], -vol[1] / 2, vol[1] / 2); slab(v[1], u[1], -vol[2] / 2, vol[2] / 2); slab(v[2], u[2], -vol[3], 0.0)
    else:
        slab(v[2], u[2], -vol[2], 0.0)
        a = u[0] ** 2 + u[1] ** 2
        if a > 0:
            b = v[0] * u[0] + v[1] * u[1]
            c = v[0] ** 2 + v[1] ** 2 - vol[1] ** 2
            disc = max(b * b - a * c, 0.0)
            lo, hi = max(lo, (-b - math.sqrt(disc)) / a), min(hi, (-b + math.sqrt(disc)) / a)
    return lo, hi


def check_exit(run, vol, v, d, kind):
    gen = make_gen(vol)
    p = base_particle(v, d)
    res = exit_impl(gen, p)
    inp = {"volume": list(vol), "vertex": list(v), "direction": list(d)}
    size = vol_size(vol)
    if isinstance(res, str):
        run.fail_input("exit-points", inp, observed=res, what="get_exit_points raised something else than the documented ValueError")
        return
    if kind.startswith("zero"):
        if res is not None:
            run.fail_input("exit-points", inp, observed=res, what="a zero direction must be rejected with ValueError, not answered")
        return
    if res is None:
        # generic position must give points; degenerate directions (tangency, rounding at an edge) may not
        if kind in ("iso", "axis", "plane", "vertical", "xzero", "tinyxy"):
            run.fail_input("exit-points", inp, observed="ValueError", what="exit points could not be determined")
        return
    a, b = np.array(res[:3]), np.array(res[3:])
    vv, u = np.array(p.vertex, float), np.array(p.direction, float)
    ta, tb = float((a - vv) @ u), float((b - vv) @ u)
    tol = 1e-7 * size * (1 if kind != "grazing" else 1e3)
    off = max(np.linalg.norm((a - vv) - ta * u), np.linalg.norm((b - vv) - tb * u))
    bad = []
    if not (on_boundary(vol, a, tol) and on_boundary(vol, b, tol)):
        bad.append("a point is not on the volume boundary")
    if not off <= tol:
        bad.append("a point is off the line of flight by %g" % off)
    if not (ta <= tol and tb >= -tol):
        bad.append("the vertex is not between entry and exit (t_in=%g, t_out=%g)" % (ta, tb))
    lo, hi = true_chord(vol, vv, u)
    if kind != "grazing" and math.isfinite(lo) and math.isfinite(hi) and not (abs(ta - lo) <= 10 * tol and abs(tb - hi) <= 10 * tol):
        bad.append("entry/exit parameters (%g, %g) differ from the chord (%g, %g)" % (ta, tb, lo, hi))
    if bad:
        run.fail_input("exit-points", inp, observed=res, what="; ".join(bad))


def check_exit_inputs(run, vol, v, d):
    """integer-valued dimensions / vertex / direction given as ints, tuples, integer arrays: same exit points as floats"""
    voli = (vol[0],) + tuple(int(x) for x in vol[1:])
    vi, di = [int(x) for x in v], [int(x) for x in d]
    ref = exit_impl(make_gen((vol[0],) + tuple(float(x) for x in voli[1:])), base_particle([float(x) for x in vi], [float(x) for x in di]))
    for cls, mk in (("list_int", list), ("tuple_int", tuple), ("array_int64", lambda z: np.array(z, dtype=np.int64))):
        try:
            got = exit_impl(make_gen(voli), base_particle(mk(vi), mk(di)))
        except Exception as e:      # noqa: BLE001
            got = "%s: %s" % (type(e).__name__, e)
        same = (got is None and ref is None) or (isinstance(got, list) and ref is not None and fw.all_close(got, ref, 1e-12, 0.0))
        if not same:
            run.fail_input("exit-input", {"volume": list(voli), "vertex": vi, "direction": di, "class": cls}, observed=got,
                           expected=ref, what="exit points for integer-typed %s input differ from the float64 call" % cls)
            return


def check_samplers(run, vol):
    rng = run.rng
    gen = make_gen(vol)
    size = vol_size(vol)
    t = Tape(rng)
    with t:
        v = [float(x) for x in gen.get_vertex()]
    bad = []
    if vol[0] == "cyl":
        if not fw.close(v[0] ** 2 + v[1] ** 2, vol[1] ** 2 * t.us[0], 1e-9, 1e-12 * size * size):
            bad.append("r^2/dr^2 is not the first draw (inverse CDF of a uniform disc)")
        if not fw.close(v[2], -vol[2] * t.us[2], 1e-12, 0.0):
            bad.append("z is not -dz*u")
        ang = math.atan2(v[1], v[0]) % (2 * math.pi)
        if v[0] ** 2 + v[1] ** 2 > 0 and min(abs(ang - 2 * math.pi * t.us[1]), 2 * math.pi - abs(ang - 2 * math.pi * t.us[1])) > 1e-6:
            bad.append("azimuth is not 2 pi u")
        if not (v[0] ** 2 + v[1] ** 2 <= vol[1] ** 2 * (1 + 1e-12) and -vol[2] <= v[2] <= 0):
            bad.append("vertex outside the cylinder")
    else:
        want = [-vol[1] / 2 + vol[1] * t.us[0], -vol[2] / 2 + vol[2] * t.us[1], -vol[3] + vol[3] * t.us[2]]
        if not fw.all_close(v, want, 1e-9, 1e-12 * size):
            bad.append("box vertex is not the affine image of the draws")
    if bad or len(t.us) != 3:
        run.fail_input("vertex", {"volume": list(vol), "uniforms": t.us}, observed=v, what="; ".join(bad) or "number of draws != 3")
    t = Tape(rng, inject=[rng.choice([rng.random(), 2.0 ** -53, 1 - 2.0 ** -53])])
    with t:
        d = [float(x) for x in gen.get_direction()]
    bad = []
    if not abs(d[0] ** 2 + d[1] ** 2 + d[2] ** 2 - 1) <= 1e-12:
        bad.append("direction is not a unit vector")
    if not fw.close(d[2], 2 * t.us[0] - 1, 1e-12, 1e-15):
        bad.append("cos(theta) is not 2u-1")
    ph = math.atan2(d[1], d[0]) % (2 * math.pi)
    if d[0] ** 2 + d[1] ** 2 > 1e-20 and min(abs(ph - 2 * math.pi * t.us[1]), 2 * math.pi - abs(ph - 2 * math.pi * t.us[1])) > 1e-6:
        bad.append("phi is not 2 pi u")
    if bad or len(t.us) != 2:
        run.fail_input("direction", {"uniforms": t.us}, observed=d, what="; ".join(bad) or "number of draws != 2")
    ratio = rng.choice([(1, 1, 1), (1, 2, 0), (0, 1, 0), (3, 1, 2)])
    src = rng.choice(["cosmogenic", "astrophysical"])
    g2 = make_gen(vol, flavor_ratio=ratio, source=src)
    t = Tape(rng)
    with t:
        pt = g2.get_particle_type()
    s = float(sum(ratio))
    fl_ = "e" if t.us[0] < ratio[0] / s else ("mu" if t.us[0] < (ratio[0] + ratio[1]) / s else "tau")
    frac = {"cosmogenic": {"e": 0.78, "mu": 0.61, "tau": 0.61}, "astrophysical": {"e": 0.5, "mu": 0.5, "tau": 0.5}}[src][fl_]
    want = (fl_, 0 if t.us[1] < frac else 1)
    near = min(abs(t.us[0] - ratio[0] / s), abs(t.us[0] - (ratio[0] + ratio[1]) / s), abs(t.us[1] - frac)) < 1e-12
    if FL[pt.value] != want and not near:
        run.fail_input("particle-type", {"ratio": list(ratio), "source": src, "uniforms": t.us}, observed=FL[pt.value],
                       expected=want, what="flavour / antineutrino choice does not follow the configured ratios")


def check_event(run, cfg):
    gen, ev, err, tape, passes = run_event(run, cfg)
    inp = {"config": {k: (list(cfg[k]) if isinstance(cfg[k], tuple) else cfg[k]) for k in cfg}, "uniforms": tape.us, "poisson": tape.ks}
    if ev is None:
        if "OverflowError" in (err or "") and 0.0 in tape.us:
            return              # K14 (C14): a draw of exactly 0.0
        run.fail_input("event", inp, observed=err, what="create_event raised")
        return
    p = ev.roots[0]
    bad = []
    if gen.count != len(passes):
        bad.append("count=%d but %d neutrinos were thrown" % (gen.count, len(passes)))
    vol = cfg["vol"]
    earth = earths()[cfg["earth"]]
    L = float(p.interaction.total_interaction_length)
    vv, u = np.array(p.vertex, float), np.array(p.direction, float)
    lo, hi = true_chord(vol, vv, u)
    col = float(earth.slant_depth(vv, -u))
    surv = math.exp(-col / L)
    Lice = L / 0.92 / 100
    iw = (hi - lo) / Lice * math.exp(-(-lo) / Lice)
    if not fw.close(float(p.interaction_weight), iw, 1e-6, 0.0):
        bad.append("interaction weight %r is not (l_ice/L_ice) exp(-l_travel/L_ice) = %r" % (float(p.interaction_weight), iw))
    if cfg["shadow"]:
        if p.survival_weight != 1:
            bad.append("accepted shadowed particle must carry survival weight 1")
        # acceptance rule: every pass but the last was rejected by u >= w, the last accepted by u < w.  The decision
        # draw of a pass is the last uniform consumed by it; recover it from the end of the tape
        if not tape.us[-1] < passes[-1][0]:
            bad.append("accepted although the draw is not below the survival weight")
    else:
        if not fw.close(float(p.survival_weight), surv, 1e-9, 0.0):
            bad.append("survival weight %r is not exp(-X/L) = %r" % (float(p.survival_weight), surv))
        if len(passes) != 1:
            bad.append("rejection without shadowing")
    if not fw.close(passes[-1][0], surv, 1e-9, 0.0):
        bad.append("survival weight of the accepted pass is not exp(-X/L)")
    if bad:
        run.fail_input("event", inp, observed={"count": gen.count, "passes": passes[-3:], "weights": [float(p.survival_weight), float(p.interaction_weight)]},
                       what="; ".join(bad))


def check_fresh_draws(run, cfg, energies, inject=None):
    """every throw - rejected ones included - is a fresh neutrino: one call of the energy source, one particle type,
    one vertex and one direction per pass, `count` advancing by the same number; the returned particle carries the
    energy / type of the LAST pass.  Energy source: a counting callable stepping through `energies`."""
    import pyrex.particle as pp
    cfg = dict(cfg, sec=False)          # no Poisson draws: the recorded uniforms replay exactly
    calls = {"energy": 0, "type": 0, "vertex": 0, "direction": 0, "weights": 0}
    last = {}

    def source():
        e = energies[calls["energy"] % len(energies)]
        calls["energy"] += 1
        last["energy"] = e
        return e
    gen = make_gen(cfg["vol"], source, shadow=cfg["shadow"], flavor_ratio=cfg["ratio"], source=cfg["source"],
                   interaction_model=c14.model_cls(cfg["model"]), earth_model=earths()[cfg["earth"]])

    def wrap(name, key, keep=None):
        orig = getattr(gen, name)

        def f(*a):
            calls[key] += 1
            r = orig(*a)
            if keep:
                last[keep] = r
            return r
        setattr(gen, name, f)
    wrap("get_particle_type", "type", "type"); wrap("get_vertex", "vertex", "vertex")
    wrap("get_direction", "direction", "direction"); wrap("get_weights", "weights")
    tape = Tape(run.rng, "nominal", inject)
    old = pp.GQRSInteraction.include_secondaries
    ev, err = None, None
    c0 = gen.count
    try:
        pp.GQRSInteraction.include_secondaries = False
        with tape:
            try:
                ev = gen.create_event()
            except (ValueError, TypeError, OverflowError, RecursionError) as e:
                err = "%s: %s" % (type(e).__name__, e)
    finally:
        pp.GQRSInteraction.include_secondaries = old
    inp = {"config": {k: (list(cfg[k]) if isinstance(cfg[k], tuple) else cfg[k]) for k in cfg if k != "E"},
           "energies": list(energies), "uniforms": list(tape.us)}
    if ev is None:
        if not ("OverflowError" in (err or "") and 0.0 in tape.us):
            run.fail_input("fresh-draws", inp, observed=err, what="create_event raised")
        return 0
    adv = gen.count - c0
    p = ev.roots[0]
    bad = []
    for k in ("energy", "type", "vertex", "direction", "weights"):
        if calls[k] != adv:
            bad.append("count advanced by %d but %s was drawn %d time(s)" % (adv, k, calls[k]))
    if float(p.energy) != float(last["energy"]):
        bad.append("returned energy %r is not the energy drawn for the accepted throw (%r)" % (float(p.energy), float(last["energy"])))
    if p.id != last.get("type"):
        bad.append("returned particle type is not the one drawn for the accepted throw")
    if not np.array_equal(np.asarray(p.vertex), np.asarray(last["vertex"])):
        bad.append("returned vertex is not the one drawn for the accepted throw")
    if bad:
        run.fail_input("fresh-draws", inp, observed={"count_advance": adv, "calls": dict(calls), "energy": float(p.energy)},
                       what="; ".join(bad))
    return adv


def check_list(run, n, loop, k):
    g = G()
    import pyrex.particle as pp
    evs = [pp.Event(base_particle((0, 0, -i - 1), (0, 0, 1))) for i in range(n)]
    gen = g.ListGenerator(list(evs), loop=loop)
    got, stopped = [], None
    for i in range(k):
        try:
            got.append([id(x) for x in evs].index(id(gen.create_event())))
        except StopIteration:
            stopped = i
            break
    want = [i % n for i in range(k)] if loop else list(range(min(k, n)))
    if got != want or (not loop and k > n and stopped != n) or gen.count != len(got):
        run.fail_input("list", {"n": n, "loop": loop, "calls": k}, observed={"returned": got, "stopped": stopped, "count": gen.count},
                       expected=want, what="list generator does not cycle/stop/count as configured")


def check_list_history(run, n, loop, ops):
    """create_event interleaved with assignments to `.count` and reads of it, against the reference
    "the position in the list advances by one per successful throw; `count` = throws + an offset that only the
    setter changes; the offset never influences which event comes next or when the list stops" """
    g = G()
    import pyrex.particle as pp
    evs = [pp.Event(base_particle((0, 0, -i - 1), (0, 0, 1))) for i in range(n)]
    gen = g.ListGenerator(list(evs), loop=loop)
    pos, offset = 0, 0          # reference state
    got, want = [], []
    for op in ops:
        if op == "c":
            if not loop and pos >= n:
                want.append("stop")
            else:
                want.append(str(pos % n))
                pos += 1
            try:
                e = gen.create_event()
                got.append(str([id(x) for x in evs].index(id(e))))
            except StopIteration:
                got.append("stop")
        elif op == "q":
            want.append("q%d" % (pos + offset))
            got.append("q%d" % gen.count)
        else:
            c = int(op[1:])
            offset = c - pos
            gen.count = c
            want.append("ok"); got.append("ok")
        if got[-1] != want[-1]:
            k = len(got)
            run.fail_input("list-history", {"n": n, "loop": loop, "ops": list(ops[:k])}, observed=got, expected=want,
                           what="list generator: after `%s` the %s differs from the reference (position advances one per "
                                "throw, count offset kept separately)" % (" ".join(ops[:k]), "returned event / stop" if op == "c" else "count"))
            return


def check_weights_reuse(run, vol, model, earth_name, calls):
    """ONE generator object asked for the weights of many particles (same and different energies, neutrinos and
    antineutrinos, all flavours): every answer must equal the answer of a fresh generator and the independent formula.
    `calls` = [(particle type name, energy, vertex, direction)]"""
    import pyrex.particle as pp
    cls = c14.model_cls(model)
    mk = lambda: make_gen(vol, 1e9, interaction_model=cls, earth_model=earths()[earth_name])
    gen = mk()
    for k, (tname, E, v, d) in enumerate(calls):
        with Tape(run.rng):
            p = pp.Particle(tname, v, d, E, interaction_model=cls, interaction_type="cc")
        try:
            w = [float(x) for x in gen.get_weights(p)]
            wf = [float(x) for x in mk().get_weights(p)]
        except ValueError:
            continue
        L = float(p.interaction.total_interaction_length)
        vv, u = np.array(p.vertex, float), np.array(p.direction, float)
        lo, hi = true_chord(vol, vv, u)
        Lice = L / 0.92 / 100
        ref = [math.exp(-float(earths()[earth_name].slant_depth(vv, -u)) / L), (hi - lo) / Lice * math.exp(lo / Lice)]
        if not (fw.all_close(w, wf, 1e-12, 0.0) and fw.close(w[0], ref[0], 1e-9, 0.0) and fw.close(w[1], ref[1], 1e-6, 0.0)):
            run.fail_input("weights-reuse", {"volume": list(vol), "model": model, "earth": earth_name,
                                             "calls": [[t, e, list(a), list(b)] for t, e, a, b in calls[:k + 1]]},
                           observed={"reused_generator": w, "fresh_generator": wf, "formula": ref, "call": k},
                           what="weights from a generator object that has been used before differ from those of a fresh "
                                "generator / from exp(-X/L), (l/L_ice)exp(-t/L_ice) with the particle's own length")
            return


def check_reconfigure(run, vol0, steps):
    """query - mutate - query on ONE generator: public attributes (dimensions, flavour ratio, source, Earth model,
    interaction model) are reassigned between draws; after every reassignment the samplers, exit points and weights
    must be those of a FRESH generator built with the current configuration (same tape).
    steps: ["set", attr, value] | ["vertex"] | ["ptype"] | ["exit", v, d] | ["weights", type, E, v, d]"""
    import pyrex.particle as pp
    cfg = {"vol": list(vol0), "ratio": (1, 1, 1), "source": "cosmogenic", "earth": "prem", "model": "ctw"}

    def fresh():
        return make_gen(tuple(cfg["vol"]), 1e9, flavor_ratio=cfg["ratio"], source=cfg["source"],
                        interaction_model=c14.model_cls(cfg["model"]), earth_model=earths()[cfg["earth"]])
    gen = fresh()
    names = {"cyl": ["dr", "dz"], "box": ["dx", "dy", "dz"]}[vol0[0]]
    for k, st in enumerate(steps):
        got = want = None
        if st[0] == "set":
            attr, val = st[1], st[2]
            if attr in names:
                setattr(gen, attr, val); cfg["vol"][1 + names.index(attr)] = val
            elif attr == "ratio":
                gen.ratio = np.array(val) / np.sum(val); cfg["ratio"] = tuple(val)
            elif attr == "source":
                gen.source = val; cfg["source"] = val
            elif attr == "earth":
                gen.earth_model = earths()[val]; cfg["earth"] = val
            elif attr == "model":
                gen.interaction_model = c14.model_cls(val); cfg["model"] = val
            continue
        us = [run.rng.random() for _ in range(3)]
        if st[0] == "vertex":
            with Tape(run.rng, inject=list(us)):
                got = [float(x) for x in gen.get_vertex()]
            with Tape(run.rng, inject=list(us)):
                want = [float(x) for x in fresh().get_vertex()]
        elif st[0] == "ptype":
            with Tape(run.rng, inject=list(us)):
                got = FL[gen.get_particle_type().value]
            with Tape(run.rng, inject=list(us)):
                want = FL[fresh().get_particle_type().value]
        elif st[0] == "exit":
            p = base_particle(st[1], st[2])
            got, want = exit_impl(gen, p), exit_impl(fresh(), p)
        elif st[0] == "weights":
            with Tape(run.rng):
                p = pp.Particle(st[1], st[3], st[4], st[2], interaction_model=c14.model_cls(cfg["model"]), interaction_type="cc")
            try:
                got = [float(x) for x in gen.get_weights(p)]
                want = [float(x) for x in fresh().get_weights(p)]
            except ValueError:
                continue
        same = got == want if not isinstance(got, list) or got is None or want is None else fw.all_close(got, want, 1e-12, 0.0)
        if not same:
            run.fail_input("reconfigure", {"volume": list(vol0), "steps": [list(x) for x in steps[:k + 1]]},
                           observed={"step": k, "reused": got, "fresh": want, "config": {kk: (list(v) if isinstance(v, tuple) else v) for kk, v in cfg.items()}},
                           what="after reassigning attributes of a generator its %s differs from that of a fresh generator "
                                "with the same configuration" % st[0])
            return


def check_tape_disjoint(run, cfg, inject=None, j=None, newval=None):
    """vertex and direction of one event are functions of DISJOINT tape entries: replacing a single uniform of the
    tape may change the vertex, or the direction, or neither (type / interaction draws) - never both"""
    cfg = dict(cfg, shadow=False, sec=False)
    gen, ev, err, tape, passes = run_event(run, cfg, inject=inject)
    if ev is None:
        return
    us = list(tape.us)
    p0 = ev.roots[0]
    v0, d0 = np.array(p0.vertex, float), np.array(p0.direction, float)
    dep_v, dep_d = set(), set()
    for jj in ([j] if j is not None else range(min(len(us), 8))):
        alt = list(us)
        alt[jj] = newval if newval is not None else (us[jj] + 0.37) % 1.0
        gen2, ev2, err2, tape2, _ = run_event(run, cfg, inject=alt)
        if ev2 is None:
            continue
        p1 = ev2.roots[0]
        cv = not np.array_equal(np.array(p1.vertex, float), v0)
        cd = not np.array_equal(np.array(p1.direction, float), d0)
        if cv:
            dep_v.add(jj)
        if cd:
            dep_d.add(jj)
        if cv and cd:
            run.fail_input("tape-disjoint", {"config": {k: (list(cfg[k]) if isinstance(cfg[k], tuple) else cfg[k]) for k in cfg},
                                             "uniforms": us, "entry": jj, "new_value": alt[jj]},
                           observed={"vertex": [v0.tolist(), [float(x) for x in p1.vertex]],
                                     "direction": [d0.tolist(), [float(x) for x in p1.direction]]},
                           what="replacing tape entry %d alone changes BOTH the vertex and the direction: they are not drawn "
                                "independently" % jj)
            return
    if j is None and not (len(dep_v) == 3 and len(dep_d) == 2):
        run.fail_input("tape-disjoint", {"config": {k: (list(cfg[k]) if isinstance(cfg[k], tuple) else cfg[k]) for k in cfg},
                                         "uniforms": us, "entry": None, "new_value": None},
                       observed={"vertex_depends_on": sorted(dep_v), "direction_depends_on": sorted(dep_d)},
                       what="the vertex must depend on exactly three tape entries and the direction on exactly two others")


def check_joint(run, vol, n, seed):
    """JOINT statistics of create_event() on one generator (real numpy randomness, seeded): every vertex coordinate is
    uncorrelated with every direction component, and the mean direction inside sub-volumes (upper / lower half, inner /
    outer part) vanishes.  Thresholds: |z| < 6.5 per test (a correct tree fails with probability < 1e-8 per run)."""
    np.random.seed(seed)
    gen = make_gen(vol, 1e6)
    V, D = np.empty((n, 3)), np.empty((n, 3))
    for i in range(n):
        p = gen.create_event().roots[0]
        V[i], D[i] = p.vertex, p.direction
    bad = []
    zmax = 6.5
    for a in range(3):
        for b in range(3):
            x, y = V[:, a] - V[:, a].mean(), D[:, b] - D[:, b].mean()
            den = math.sqrt(float((x * x).sum() * (y * y).sum()))
            if den > 0:
                z = float((x * y).sum()) / den * math.sqrt(n)
                if abs(z) > zmax:
                    bad.append("vertex[%d] and direction[%d] correlated: r*sqrt(n) = %.1f" % (a, b, z))
    rad = np.hypot(V[:, 0], V[:, 1])
    depth_mid = -(vol[2] if vol[0] == "cyl" else vol[3]) / 2
    subsets = {"upper half": V[:, 2] > depth_mid, "lower half": V[:, 2] <= depth_mid,
               "inner part": rad < np.median(rad), "outer part": rad >= np.median(rad),
               "x > 0": V[:, 0] > 0, "y > 0": V[:, 1] > 0}
    for name, m in subsets.items():
        k = int(m.sum())
        if k < 50:
            continue
        for b in range(3):
            z = float(D[m, b].mean()) / (math.sqrt(1 / 3) / math.sqrt(k))     # Var(component of an isotropic unit vector) = 1/3
            if abs(z) > zmax:
                bad.append("mean direction[%d] in the %s is %.3f (%.1f sigma)" % (b, name, D[m, b].mean(), z))
    if bad:
        run.fail_input("joint", {"volume": list(vol), "n": n, "numpy_seed": seed}, observed=bad[:6],
                       what="vertex and direction of the thrown neutrinos are not independent: " + "; ".join(bad[:3]))


def check_caller_buffers(run, vol, ratios, energy):
    """CALLER-OWNED arrays handed to the constructor and MUTATED IN PLACE afterwards (one buffer reused to build one
    generator per flavour): each generator must keep the ratio / energy it was constructed with - compared, on the same
    tape, with a generator built from a tuple / float of the original values"""
    buf = np.zeros(3)
    ebuf = np.array(float(energy))
    gens = []
    for r in ratios:
        buf[:] = r                                  # already normalised float64 values in a reused buffer
        ebuf[...] = energy
        gens.append((tuple(float(x) for x in r), make_gen(vol, ebuf, flavor_ratio=buf)))
        ebuf[...] = energy * 7.0                    # the caller goes on using its buffers
    buf[:] = (0.5, 0.5, 0.0)
    for k, (r, gen) in enumerate(gens):
        ref = make_gen(vol, float(energy), flavor_ratio=r)
        us = [run.rng.random() for _ in range(2)]
        with Tape(run.rng, inject=list(us)):
            got = FL[gen.get_particle_type().value]
        with Tape(run.rng, inject=list(us)):
            want = FL[ref.get_particle_type().value]
        e_got, e_want = float(gen.get_energy()), float(ref.get_energy())
        if got != want or e_got != e_want or not np.allclose(gen.ratio, ref.ratio, rtol=1e-15, atol=0):
            run.fail_input("caller-buffers", {"volume": list(vol), "ratios": [list(map(float, x)) for x in ratios], "energy": float(energy)},
                           observed={"generator": k, "ratio_now": [float(x) for x in gen.ratio], "type": got, "energy": e_got},
                           expected={"ratio": [float(x) for x in ref.ratio], "type": want, "energy": e_want},
                           what="a generator built from a caller-owned array changed when the caller modified that array afterwards")
            return


def check_results_owned(run, vol, seeds):
    """arrays returned by a generator belong to the caller: vertices, directions and exit points kept alive are not
    rewritten by later calls, and writing into them changes neither later answers nor the particle they came from"""
    gen = make_gen(vol)
    inp = {"volume": list(vol), "uniforms": [list(map(float, u)) for u in seeds]}
    bad = None
    kept = []
    for us in seeds:
        with Tape(run.rng, inject=list(us)):
            v = gen.get_vertex()
            d = gen.get_direction()
        kept.append((v, np.array(v, copy=True), d, np.array(d, copy=True), list(us)))
    for v, vc, d, dc, us in kept:
        if not (np.array_equal(v, vc) and np.array_equal(d, dc)):
            bad = "a vertex / direction kept by the caller was rewritten by a later get_vertex / get_direction"
    if not bad:
        v, vc, d, dc, us = kept[0]
        p = base_particle(vc, dc)
        pv, pd = np.array(p.vertex, copy=True), np.array(p.direction, copy=True)
        r1 = gen.get_exit_points(p)
        c1 = [np.array(x, copy=True) for x in r1]
        p2 = base_particle(kept[-1][1], kept[-1][3])
        r2 = gen.get_exit_points(p2)
        if not all(np.array_equal(a, b) for a, b in zip(r1, c1)):
            bad = "exit points kept by the caller were rewritten by a later get_exit_points"
        else:
            for arr in list(r1) + [v, d]:
                try:
                    np.asarray(arr)[...] = 12345.0          # the caller scribbles on everything it was given
                except (ValueError, TypeError):
                    pass
            if not (np.array_equal(p.vertex, pv) and np.array_equal(p.direction, pd)):
                bad = "writing into returned exit points changed the particle's vertex / direction"
            else:
                r3 = gen.get_exit_points(p)
                with Tape(run.rng, inject=list(us)):
                    v3 = gen.get_vertex()
                    d3 = gen.get_direction()
                if not (all(np.array_equal(a, b) for a, b in zip(r3, c1)) and np.array_equal(v3, vc) and np.array_equal(d3, dc)):
                    bad = "after the caller wrote into returned arrays, later vertices / directions / exit points changed"
    if bad:
        run.fail_input("results-owned", inp, observed=bad, what=bad)


def ks_stat(xs):
    xs = np.sort(np.asarray(xs))
    n = len(xs)
    return float(max(np.max(np.arange(1, n + 1) / n - xs), np.max(xs - np.arange(0, n) / n)))


def check_distributions(run, n):
    """thorough only: real numpy randomness, probability-integral transforms must be uniform (KS, p = 1e-6)"""
    np.random.seed(run.rng.getrandbits(32))
    crit = math.sqrt(-0.5 * math.log(1e-6 / 2)) / math.sqrt(n)
    for vol in (("cyl", 300.0, 2000.0), ("box", 50.0, 800.0, 120.0)):
        gen = make_gen(vol)
        vs = np.array([gen.get_vertex() for _ in range(n)])
        if vol[0] == "cyl":
            pits = {"r": (vs[:, 0] ** 2 + vs[:, 1] ** 2) / vol[1] ** 2, "phi": (np.arctan2(vs[:, 1], vs[:, 0]) % (2 * np.pi)) / (2 * np.pi),
                    "z": -vs[:, 2] / vol[2]}
        else:
            pits = {"x": vs[:, 0] / vol[1] + 0.5, "y": vs[:, 1] / vol[2] + 0.5, "z": -vs[:, 2] / vol[3]}
        ds = np.array([gen.get_direction() for _ in range(n)])
        pits["cos"] = (ds[:, 2] + 1) / 2
        pits["dirphi"] = (np.arctan2(ds[:, 1], ds[:, 0]) % (2 * np.pi)) / (2 * np.pi)
        for k, xs in pits.items():
            d = ks_stat(xs)
            if d > crit:
                run.fail_input("distribution", {"volume": list(vol), "coordinate": k, "n": n}, observed=d, expected=crit,
                               what="Kolmogorov-Smirnov distance of %s from the uniform law exceeds the p=1e-6 threshold" % k)


def search(run, deep):
    rng = run.rng
    mult = 10 if deep else 1
    # --- state kept across calls (checked first so that their self-contained histories get replay slots)
    # histories with assignments to `.count` and reads interleaved
    for i in range(60 * mult):
        n, loop = rng.randint(1, 6), rng.random() < 0.5
        ops = [rng.choice(["c", "c", "c", "q", "s%d" % rng.choice([0, 1, n - 1, n, n + 1, 2 * n + 1, rng.randint(0, 40)])])
               for _ in range(rng.randint(3, 25))]
        run.case(("oracle-list-history", n, loop, tuple(ops)))
        run.count("oracle_list_history_sets", sum(1 for o in ops if o[0] == "s"))
        check_list_history(run, n, loop, ops)
    # vertex and direction: disjoint tape entries; joint statistics compatible with independence
    for vol in (("cyl", 10 ** rng.uniform(1.5, 3.5), 10 ** rng.uniform(1.5, 3.5)),
                ("box", 10 ** rng.uniform(1.5, 3), 10 ** rng.uniform(2, 3.5), 10 ** rng.uniform(1.5, 3.5))):
        seed = rng.getrandbits(31)
        run.case(("oracle-joint", vol, seed))
        check_joint(run, vol, 6000 if deep else 1500, seed)
    for i in range(6 * mult):
        cfg = draw_event_cfg(run)
        run.case(("oracle-tape-disjoint", str(cfg)))
        check_tape_disjoint(run, cfg)
    # arrays handed out by the generator belong to the caller
    for i in range(6 * mult):
        vol = draw_volume(rng)
        seeds = [[rng.random() for _ in range(5)] for _ in range(3)]
        run.case(("oracle-results-owned", vol))
        check_results_owned(run, vol, seeds)
    # caller-owned, already normalised ratio / energy buffers mutated after construction
    for i in range(6 * mult):
        vol = draw_volume(rng)
        pool = [(0.0, 0.0, 1.0), (0.0, 1.0, 0.0), (1.0, 0.0, 0.0), (0.25, 0.25, 0.5), (0.5, 0.25, 0.25), (0.125, 0.75, 0.125)]
        ratios = [rng.choice(pool) for _ in range(rng.randint(2, 4))]
        run.case(("oracle-caller-buffers", vol, tuple(ratios)))
        check_caller_buffers(run, vol, ratios, 10 ** rng.uniform(3, 12))
    # query - mutate - query: attributes of one generator reassigned between draws
    for i in range(15 * mult):
        vol = draw_volume(rng)
        names = {"cyl": ["dr", "dz"], "box": ["dx", "dy", "dz"]}[vol[0]]
        cur = list(vol)
        steps = [["vertex"], ["ptype"]]
        for k in range(rng.randint(3, 7)):
            what = rng.choice(names + ["ratio", "source", "earth", "model"])
            if what in names:
                val = cur[1 + names.index(what)] * rng.choice([0.25, 0.5, 2.0, 3.0]); cur[1 + names.index(what)] = val
            elif what == "ratio":
                val = list(rng.choice([(1, 0, 0), (0, 1, 0), (0, 0, 1), (1, 2, 3), (3, 1, 1)]))
            elif what == "source":
                val = rng.choice(["cosmogenic", "astrophysical"])
            elif what == "earth":
                val = rng.choice(["prem", "cmc"])
            else:
                val = rng.choice(["gqrs", "ctw"])
            steps.append(["set", what, val])
            v = inside_vertex(rng, tuple(cur))
            steps += [["vertex"], ["ptype"], ["exit", v, [rng.gauss(0, 1) for _ in range(3)]],
                      ["weights", rng.choice([t[0] for t in c14.TYPES]), 10 ** rng.uniform(4, 11), v, [rng.gauss(0, 1) for _ in range(3)]]]
        run.case(("oracle-reconfigure", vol, str(steps)[:200]))
        run.count("oracle_reconfigure_sets", sum(1 for x in steps if x[0] == "set"))
        check_reconfigure(run, vol, steps)
    # one generator object reused: same energy with both nu / nubar, several energies, all flavours
    for i in range(12 * mult):
        vol = draw_volume(rng)
        model, en = rng.choice(["gqrs", "ctw", "ctw"]), rng.choice(["prem", "cmc"])
        es = [10 ** rng.uniform(3, 12) for _ in range(2)]
        calls = []
        for k in range(rng.randint(4, 8)):
            v = inside_vertex(rng, vol)
            d = [rng.gauss(0, 1) for _ in range(3)]
            calls.append((rng.choice([t[0] for t in c14.TYPES]), rng.choice(es), v, d))
        # make sure both signs occur at one energy
        calls[1] = (("nu_mu_bar" if "bar" not in calls[0][0] else "nu_mu"), calls[0][1], calls[1][2], calls[1][3])
        run.case(("oracle-weights-reuse", vol, model, en, len(calls)))
        check_weights_reuse(run, vol, model, en, calls)
    for i in range(60 * mult):
        vol = draw_volume(rng)
        run.case(("oracle-samplers", vol))
        check_samplers(run, vol)
    for i in range(250 * mult):
        vol = draw_volume(rng)
        onb = rng.random() < 0.15
        v = boundary_vertex(rng, vol) if onb else inside_vertex(rng, vol)
        d, kind = draw_direction(rng, vol, v)
        if onb and kind == "grazing":
            d, kind = [rng.gauss(0, 1) for _ in range(3)], "iso"
        run.case(("oracle-exit", vol, tuple(v), tuple(d)))
        if onb:
            run.count("oracle_exit_boundary_vertex")
        check_exit(run, vol, v, d, kind)
    for i in range(40 * mult):
        vol = draw_volume(rng)
        vol = (vol[0],) + tuple(float(max(2, round(x))) for x in vol[1:])
        v = [float(round(x)) for x in inside_vertex(rng, vol)]
        if vol[0] == "cyl" and v[0] ** 2 + v[1] ** 2 > vol[1] ** 2:
            v[0], v[1] = 0.0, 0.0
        d = [float(rng.randrange(-4, 5)) for _ in range(3)]
        if not any(d):
            d = [1.0, 0.0, -1.0]
        run.case(("oracle-exit-input", vol, tuple(v), tuple(d)))
        check_exit_inputs(run, vol, v, d)
    for i in range(40 * mult):
        cfg = draw_event_cfg(run)
        run.case(("oracle-event", str(cfg)))
        check_event(run, cfg)
    # fresh energy / type / vertex / direction for every throw, rejected ones included (shadowing at energies where
    # the Earth is opaque, so that rejections do occur)
    rejected = 0
    for i in range(25 * mult):
        cfg = draw_event_cfg(run)
        cfg["shadow"] = i % 5 != 4
        energies = [10 ** rng.uniform(9.5, 12) if rng.random() < 0.7 else 10 ** rng.uniform(3, 9) for _ in range(7)]
        run.case(("oracle-fresh-draws", str(cfg), tuple(energies)))
        adv = check_fresh_draws(run, cfg, energies)
        rejected += max(0, adv - 1)
    run.count("oracle_fresh_draws_rejected_passes", rejected)
    for i in range(20 * mult):
        n, loop, k = rng.randint(1, 6), rng.random() < 0.5, rng.randint(1, 25)
        run.case(("oracle-list", n, loop, k))
        check_list(run, n, loop, k)
    if run.thorough():
        run.case(("oracle-distributions",))
        check_distributions(run, 200000)


def known_probes(run):
    """K18: a vertex exactly on the side surface of the cylinder"""
    vol = ("cyl", 100.0, 500.0)
    gen = make_gen(vol)
    fails = 0
    for v, d in (([0.0, 100.0, -200.0], [0.9, 0.48, -1.04]), ([-100.0, 0.0, -50.0], [0.52, -0.45, -0.27]),
                 ([0.0, -100.0, -400.0], [0.84, 1.05, -2.3])):
        if exit_impl(gen, base_particle(v, d)) is None:
            fails += 1
    if fails:
        run.known_finding("K18")


def replay(run, data):
    i = data["input"]
    k = data.get("kind")
    if k == "exit-points":
        check_exit(run, tuple(i["volume"]), list(i["vertex"]), list(i["direction"]), "iso")
    elif k == "exit-input":
        check_exit_inputs(run, tuple(i["volume"]), i["vertex"], i["direction"])
    elif k == "list":
        check_list(run, i["n"], i["loop"], i["calls"])
    elif k == "results-owned":
        check_results_owned(run, tuple(i["volume"]), i["uniforms"])
    elif k == "caller-buffers":
        check_caller_buffers(run, tuple(i["volume"]), [tuple(x) for x in i["ratios"]], i["energy"])
    elif k == "tape-disjoint":
        cfg = dict(i["config"])
        cfg["vol"] = tuple(cfg["vol"]); cfg["ratio"] = tuple(cfg["ratio"])
        check_tape_disjoint(run, cfg, inject=list(i["uniforms"]), j=i["entry"], newval=i["new_value"])
    elif k == "joint":
        check_joint(run, tuple(i["volume"]), i["n"], i["numpy_seed"])
    elif k == "reconfigure":
        check_reconfigure(run, tuple(i["volume"]), i["steps"])
    elif k == "list-history":
        check_list_history(run, i["n"], i["loop"], i["ops"])
    elif k == "weights-reuse":
        check_weights_reuse(run, tuple(i["volume"]), i["model"], i["earth"],
                            [(t, e, a, b) for t, e, a, b in i["calls"]])
    elif k == "fresh-draws":
        cfg = dict(i["config"])
        cfg["vol"] = tuple(cfg["vol"]); cfg["ratio"] = tuple(cfg["ratio"]); cfg["E"] = i["energies"][0]
        check_fresh_draws(run, cfg, i["energies"], inject=list(i["uniforms"]))
    elif k == "event":
        cfg = dict(i["config"])
        cfg["vol"] = tuple(cfg["vol"]); cfg["ratio"] = tuple(cfg["ratio"])
        # replay the recorded uniforms (poisson draws follow the harness PRNG in nominal mode)
        _replay_event(run, cfg, i)
    else:
        search(run, True)


def _replay_event(run, cfg, i):
    import props.C13 as me
    orig = me.run_event
    try:
        me.run_event = lambda run_, cfg_, inject=None: orig(run_, cfg_, inject=list(i["uniforms"]))
        check_event(run, cfg)
    finally:
        me.run_event = orig
