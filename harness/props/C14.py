"""C14 - interactions conserve energy, cross sections consistent, event trees well formed.

Float twin of lean/twin/Interaction.body (coefficient tables regenerated from pyrex/particle.py) and the
discrete model lean/PyrexVerif/D/EventTree.lean against pyrex.particle; numpy.random is fed from a tape."""
import math

import numpy as np

import framework as fw
from props._gen_tape import Tape

LEVEL = "proof"
USE_TWINS = True
EXTRACTORS = ["interaction_consts", "earth_consts"]
TECHNIQUE = ("Lean 4 theorems over the real-number reading of a twin model with regenerated coefficient tables, "
             "a discrete event-tree model, tape-fed differential run, exact tree histories")
RULE = ("interactions: six neutrino types x energies log-uniform in 1e3..1e12 GeV (plus 1e17..1e21 to reach every "
        "secondary-table index) x {GQRS, CTW} x secondaries on/off x interaction type drawn/forced, numpy.random "
        "replaced by a tape of uniforms (random, plus injected values next to 0, 1 and the branch thresholds) and "
        "Poisson integers (nominal and stress mode); cross sections on log energy grids; trees: random "
        "add_children histories up to 40 nodes (chains, stars, bushy), single child passed bare, unknown parent, "
        "a particle added twice, trees holding value-equal but distinct Particle objects (equal roots, equal siblings, "
        "equal cousins, all equal), queries interleaved with add_children after every call; one interaction object read, "
        "re-assigned (kind / energy / particle id) and read again; a case is non-trivial when a draw/branch decision or a non-root node is involved; "
        "distinct = distinct request lines")
LEVEL_TEXT = ("theorems over R: inelasticity ranges of both models, fraction bounds incl. the energy-conservation "
              "acceptance test, NC probability, positivity and strict monotonicity of every cross section from the "
              "extracted coefficient rows (cubic positivity re-proved per row), sigma_cc+sigma_nc = sigma_tot for CTW "
              "(identical extracted rows), L = 1/(N_A sigma); event-tree invariant preserved by every add_children, "
              "iteration complete and duplicate-free, parent/children/level queries consistent; model and "
              "implementation agree on every sampled tape and history")
LEVEL_NOTE = ("floating-point rounding not modelled (rel 1e-9); numpy.random variates are the tape (their nominal laws "
              "are assumed); the secondary tables of data/secondary are passed to the model as data; CTW low-y branch: draws below ~1e-15 give y = -1e-18 by "
              "rounding (oracle tolerance 1e-15); a draw of exactly "
              "0.0 in GQRS (y = 1, lepton energy 0 -> OverflowError in int(log10(0))) is outside the model; "
              "distributional agreement is proved as the inverse-CDF/threshold form (C14_nc_prob measure statement), "
              "a z-test of the NC fraction only in the thorough search; particles are identified by OBJECT IDENTITY in the model and in the run - 'distinct particles' in "
              "C14_iter_nodup_complete / C14_parent_child_consistent means distinct objects, whose values may coincide "
              "(trees with value-equal twins are part of the exact run and of the oracle); "
              "C14_parent_child_consistent is proved both ways (parent uniqueness from WellFormed.flat); level consistency is proved as the defining recursion of get_from_level; hypothesis audit: "
              "energies outside the property's 1e3..1e12 GeV are excluded by its quantifier - the real code gives nan/inf CTW "
              "cross sections for E <= 0.149 GeV and a nan NC fraction below 57.5 GeV (always CC), and stays finite, "
              "monotone and within [0,1] from 1 GeV to 1e25 GeV; C14_sigma_strict_mono needs only E >= 1; when the 1000 "
              "secondary tries are used up the code returns None and Interaction.__init__ raises TypeError "
              "(C14_retry_exhausted; only adversarial Poisson tapes; the run expects exactly TypeError); add_children / "
              "get_children / get_parent of a foreign particle must raise ValueError (C14_add_unknown_parent, oracle tree-errors)")
ASSUMPTIONS = ["np.interp / np.linspace / np.random.poisson modelled by their specification",
               "scipy.constants.N_A read from the installed scipy"]

TYPES = [("nu_e", "e", 0), ("nu_e_bar", "e", 1), ("nu_mu", "mu", 0), ("nu_mu_bar", "mu", 1),
         ("nu_tau", "tau", 0), ("nu_tau_bar", "tau", 1)]

# ------------------------------------------------------------------------------------------------
# published coefficients (CTW 2011 tables II/III, eqs 8, 14-18; GQRS 1998 as used by AraSim) - an independent copy
REF = {
    "ctw_sigma": {(0, "cc"): (-1.826, -17.31, -6.406, 1.431, -17.91), (0, "nc"): (-1.826, -17.31, -6.448, 1.431, -18.61),
                  (1, "cc"): (-1.033, -15.95, -7.247, 1.569, -17.72), (1, "nc"): (-1.033, -15.95, -7.296, 1.569, -18.30)},
    "ctw_d": (1.76, 0.252162, 0.0256),
    "ctw_a": {"low": (0.0, 0.0941, 4.72, 0.456), (0, "cc"): (-0.008, 0.26, 3.0, 1.7), (1, "cc"): (-0.0026, 0.085, 4.1, 1.7),
              (0, "nc"): (-0.005, 0.23, 3.0, 1.7), (1, "nc"): (-0.005, 0.23, 3.0, 1.7)},
    "gqrs_sigma": {(0, "cc"): (5.53e-36, 0.363), (0, "nc"): (2.31e-36, 0.363), (1, "cc"): (5.52e-36, 0.363),
                   (1, "nc"): (2.29e-36, 0.363)},
    "gqrs_total": {0: (7.84e-36, 0.363), 1: (7.80e-36, 0.363)},
    "gqrs_cc": 0.6865254,
}


def ref_sigma(model, anti, kind, E):
    if model == "gqrs":
        c, p = REF["gqrs_sigma"][(anti, kind)]
        return c * E ** p
    c0, c1, c2, c3, c4 = REF["ctw_sigma"][(anti, kind)]
    L = math.log(math.log10(E) - c0)
    return 10 ** (c1 + c2 * L + c3 * L * L + c4 / L)


def ref_total(model, anti, E):
    if model == "gqrs":
        c, p = REF["gqrs_total"][anti]
        return c * E ** p
    return ref_sigma(model, anti, "cc", E) + ref_sigma(model, anti, "nc", E)


def ref_kind(model, E, u):
    if model == "gqrs":
        return "cc" if u < REF["gqrs_cc"] else "nc"
    d0, d1, d2 = REF["ctw_d"]
    return "nc" if u < d1 + d2 * math.log(math.log10(E) - d0) else "cc"


def ref_y(model, anti, kind, E, us):
    if model == "gqrs":
        r1 = 1 / math.e
        return (-math.log(r1 + us[0] * (1 - r1))) ** 2.5
    eps = math.log10(E)
    low = us[0] < 0.128 * math.sin(-0.197 * (eps - 21.8))
    a0, a1, a2, a3 = REF["ctw_a"]["low" if low else (anti, kind)]
    c1 = a0 - a1 * math.exp(-(eps - a2) / a3)
    c2 = 2.55 - 0.0949 * eps
    r = us[1]
    if low:
        return c1 + (r * (1e-3 - c1) ** (1 - 1 / c2) + (1 - r) * (0 - c1) ** (1 - 1 / c2)) ** (c2 / (c2 - 1))
    return (1 - c1) ** r / (1e-3 - c1) ** (r - 1) + c1


# ------------------------------------------------------------------------------------------------
def P():
    import pyrex.particle as pp
    return pp


def model_cls(name):
    pp = P()
    return pp.GQRSInteraction if name == "gqrs" else pp.CTWInteraction


def sectab_lines():
    pp = P()
    lines = []
    for i in range(7):
        lines.append("sectab mu | %s | %s | %s | %s | | | " % (
            fw.fl([pp._int_muon_brems[i], pp._int_muon_epair[i], pp._int_muon_pn[i]]),
            fw.fl(pp._y_cum_muon_brems[i]), fw.fl(pp._y_cum_muon_epair[i]), fw.fl(pp._y_cum_muon_pn[i])))
    for i in range(7):
        lines.append("sectab tau | %s | %s | %s | %s | %s | %s | %s" % (
            fw.fl([pp._int_tauon_brems[i], pp._int_tauon_epair[i], pp._int_tauon_pn[i]]),
            fw.fl(pp._y_cum_tauon_brems[i]), fw.fl(pp._y_cum_tauon_epair[i]), fw.fl(pp._y_cum_tauon_pn[i]),
            fw.fl(pp._y_cum_tauon_hadrdecay[i]), fw.fl(pp._y_cum_tauon_mudecay[i]), fw.fl(pp._y_cum_tauon_edecay[i])))
    return lines


def thresholds(model, E):
    """uniform values next to the branch points of the first draws"""
    if model == "gqrs":
        return [REF["gqrs_cc"]]
    d0, d1, d2 = REF["ctw_d"]
    eps = math.log10(E)
    return [d1 + d2 * math.log(eps - d0), max(0.0, 0.128 * math.sin(-0.197 * (eps - 21.8)))]


def draw_case(run, high_energy=False):
    rng = run.rng
    tname, fl, anti = rng.choice(TYPES)
    model = rng.choice(["gqrs", "ctw"])
    sec = rng.random() < 0.6
    kind = rng.choice([None, None, None, "cc", "nc"])
    if high_energy:
        E = 10 ** rng.uniform(17, 21.5)
    else:
        E = 10 ** rng.uniform(3, 12)
    inject = []
    r = rng.random()
    if r < 0.15:
        t = rng.choice(thresholds(model, E))
        inject = [min(max(t * (1 + rng.choice([-1, 1]) * 1e-9), 2.0 ** -53), 1 - 2.0 ** -53)]
    elif r < 0.25:
        inject = [rng.choice([2.0 ** -53, 1e-12, 1 - 2.0 ** -53, 0.5])] * rng.randint(1, 3)
    mode = "stress" if (sec and rng.random() < 0.5) else "nominal"
    return dict(type=tname, flavor=fl, anti=anti, model=model, sec=sec, kind=kind, E=E, inject=inject, mode=mode)


def run_impl(run, c):
    """create the particle under the tape; -> (result dict | None, tape)"""
    pp = P()
    cls = model_cls(c["model"])
    tape = Tape(run.rng, c["mode"], c["inject"])
    old = pp.GQRSInteraction.include_secondaries
    res, err = None, None
    try:
        pp.GQRSInteraction.include_secondaries = c["sec"]
        with tape:
            try:
                p = pp.Particle(c["type"], (0, 0, -100), (0, 0, 1), c["E"], interaction_model=cls,
                                interaction_type=c["kind"])
                I = p.interaction
                res = dict(kind="cc" if I.kind == I.Type.cc else "nc", y=float(I.inelasticity), em=float(I.em_frac),
                           had=float(I.had_frac), sigma=float(I.cross_section), total=float(I.total_cross_section),
                           L=float(I.interaction_length), Ltot=float(I.total_interaction_length))
            except TypeError as e:        # choose_shower_fractions returned None after 1000 attempts
                err = "TypeError: %s" % e
    finally:
        pp.GQRSInteraction.include_secondaries = old
    return res, err, tape


def interact_line(c, tape):
    return "interact %s %d %s %d %s %s | %s | %s" % (
        c["model"], 1 if c["sec"] else 0, c["flavor"], c["anti"], c["kind"] or "-", fw.f2b(c["E"]),
        fw.fl(tape.us + [0.5, 0.5]), " ".join(str(k) for k in tape.ks + [0, 0, 0]))


# ------------------------------------------------------------------------------------------------
# trees
def random_history(rng, nmax, flaws=True):
    """-> (nroots, ops) ; ops = list of (parent id, [child ids], bare?)"""
    nroots = rng.choice([1, 1, 2, 3])
    shape = rng.choice(["bushy", "chain", "star", "random"])
    ops, nxt = [], nroots
    present = list(range(nroots))
    while nxt < nmax:
        if shape == "chain":
            par = present[-1]
        elif shape == "star":
            par = present[0]
        elif shape == "bushy":
            par = rng.choice(present[-6:])
        else:
            par = rng.choice(present)
        k = min(rng.choice([1, 1, 2, 3, 5]), nmax - nxt)
        if rng.random() < 0.08:
            k = 0
        cs = list(range(nxt, nxt + k))
        nxt += k
        bare = (k == 1 and rng.random() < 0.5)
        if not bare and k >= 1 and rng.random() < 0.3:
            bare = rng.choice(["tuple", "array"])        # the children handed over as a tuple / an object ndarray
        if flaws and rng.random() < 0.04 and present:
            cs = cs + [rng.choice(present)]          # a particle that is already in the tree
            bare = False
        if flaws and rng.random() < 0.03:
            par = 10 ** 6                              # unknown parent -> ValueError
        ops.append((par, cs, bare))
        if par != 10 ** 6:
            present += cs
    return nroots, ops


def max_level(nroots, ops, vals=None):
    """levels reported: all of them for a proper tree; when a particle was handed over twice the child relation
    can contain cycles and level lists grow geometrically, so only the first few levels are compared"""
    seen, dup = set(range(nroots)), False
    for par, cs, _ in ops:
        for c in cs:
            dup = dup or c in seen
            seen.add(c)
    # value-equal twins: harmless for the unchanged (identity-based) code, but a value-based lookup would create
    # the same cycles, so the level queries are bounded there as well
    if vals is not None and len(set(vals)) < len(vals):
        dup = True
    return 4 if dup else None


def twin_values(rng, nroots, ops, mode):
    """value class of every particle id: particles with the same class are distinct objects with identical type,
    vertex, direction, energy, weights and (deterministic) interaction attributes.  The model - like the unchanged
    code - identifies particles by object identity, never by value."""
    nid = max([nroots] + [c + 1 for _, cs, _ in ops for c in cs])
    if mode == "all_equal":
        return [0] * nid
    if mode == "roots_equal":
        return [0] * nroots + list(range(1, nid - nroots + 1))
    if mode == "few_classes":
        m = rng.randint(1, 4)
        return [rng.randrange(m) for _ in range(nid)]
    # "cousins": children of different parents share values, first come first
    vals = list(range(nid))
    for i in range(nid):
        if i >= nroots and rng.random() < 0.5:
            vals[i] = vals[rng.randrange(i)]
    return vals


def tree_impl(nroots, ops, vals=None):
    pp = P()
    nid = max([nroots] + [c + 1 for _, cs, _ in ops for c in cs])
    vals = list(vals) if vals is not None else list(range(nid))
    vals += list(range(len(vals), nid))
    ps = [pp.Particle("nu_e", (0, 0, -vals[i]), (0, 0, 1), 1e9, interaction_type="cc", interaction_model=pp.Interaction)
          for i in range(nid)]
    ghost = pp.Particle("nu_e", (0, 0, 1), (0, 0, 1), 1e9, interaction_type="cc", interaction_model=pp.Interaction)
    ident = {id(p): i for i, p in enumerate(ps)}
    # roots as a single particle, a list or a tuple (by the parity of the history length); the caller's list must
    # stay what it was
    roots_arg = ps[0] if nroots == 1 and len(ops) % 2 == 0 else (
        tuple(ps[:nroots]) if len(ops) % 3 == 0 else ((x for x in ps[:nroots]) if len(ops) % 3 == 1 else list(ps[:nroots])))
    ev = pp.Event(roots_arg)
    for k, (par, cs, bare) in enumerate(ops):
        try:
            kids = [ps[c] for c in cs]
            if bare is True:
                kids = ps[cs[0]]
            elif bare == "tuple":
                kids = tuple(kids)
            elif bare == "array":
                arr = np.empty(len(kids), dtype=object)
                arr[:] = kids
                kids = arr
            handed = list(kids) if not isinstance(kids, pp.Particle) else None
            ev.add_children(ghost if par == 10 ** 6 else ps[par], kids)
            if handed is not None and [id(x) for x in kids] != [id(x) for x in handed]:
                return "caller-list-modified %d" % k, ev, ps
        except ValueError:
            return "error %d" % k, ev, ps
        except Exception as e:      # noqa: BLE001 - only ValueError is the documented rejection
            return "EXC %d %s: %s" % (k, type(e).__name__, str(e)[:80]), ev, ps
    if isinstance(roots_arg, (list, tuple)) and [id(x) for x in roots_arg] != [id(x) for x in ps[:nroots]]:
        return "caller-roots-modified", ev, ps
    allp = list(ev)
    ids = lambda l: "-" if not l else ",".join(str(ident[id(p)]) for p in l)
    ch = " ".join(ids(ev.get_children(p)) for p in allp)
    pa = " ".join("N" if ev.get_parent(p) is None else str(ident[id(ev.get_parent(p))]) for p in allp)
    ml = max_level(nroots, ops, vals)
    lv = " ".join(ids(ev.get_from_level(k)) for k in range((len(allp) + 2) if ml is None else ml + 1))
    return "%s | %s | %s | %s | %d" % (ids(allp), ch, pa, lv, len(ev)), ev, ps


def tree_line(nroots, ops, vals=None):
    ml = max_level(nroots, ops, vals)
    return "tree %s %s" % (nroots if ml is None else "%d %d" % (nroots, ml), " ".join("; %d %s" % (par, " ".join(map(str, cs))) for par, cs, _ in ops))


# ------------------------------------------------------------------------------------------------
def corpus(run):
    """regression inputs of repaired defects; a recurrence is a VIOLATION"""
    # F24: get_from_level(0) returned the event's (= the caller's) roots list
    check_returned_lists(run, 2, [(0, [2, 3], False)], [("level", 0, "append_foreign")])
    check_returned_lists(run, 2, [(0, [2, 3], False)], [("level", 0, "clear")])
    check_returned_lists(run, 2, [(0, [2, 3], False)], [("roots", 0, "clear")])
    return True


def correspondence(run):
    import scipy.constants
    pp = P()
    ok = True
    reqs = sectab_lines()
    checks = [("sectab", i) for i in range(len(reqs))]
    reqs.append("consts"); checks.append(("consts", None))
    # ---- tape-fed interactions
    n = run.scale(500, 6000)
    for i in range(n):
        c = draw_case(run, high_energy=(i % 5 == 4))
        res, err, tape = run_impl(run, c)
        reqs.append(interact_line(c, tape)); checks.append(("interact", (c, res, err, tape)))
    # ---- cross sections / lengths on energy grids
    for model in ("gqrs", "ctw"):
        for anti in (0, 1):
            tname = "nu_mu_bar" if anti else "nu_mu"
            Es = [float(x) for x in np.logspace(3, 12, run.scale(25, 200))] + [10 ** run.rng.uniform(3, 12) for _ in range(10)]
            for kind in ("cc", "nc"):
                ps = [pp.Particle(tname, (0, 0, -1), (0, 0, 1), E, interaction_model=model_cls(model), interaction_type=kind)
                      for E in Es]
                reqs.append("sigma %s %d %s %s" % (model, anti, kind, fw.fl(Es)))
                checks.append(("grid", (model, anti, kind, "sigma", Es, [float(p.interaction.cross_section) for p in ps])))
                reqs.append("length %s %d %s %s" % (model, anti, kind, fw.fl(Es)))
                checks.append(("grid", (model, anti, kind, "length", Es, [float(p.interaction.interaction_length) for p in ps])))
            reqs.append("sigtot %s %d %s" % (model, anti, fw.fl(Es)))
            checks.append(("grid", (model, anti, "-", "sigtot", Es, [float(p.interaction.total_cross_section) for p in ps])))
            reqs.append("lentot %s %d %s" % (model, anti, fw.fl(Es)))
            checks.append(("grid", (model, anti, "-", "lentot", Es, [float(p.interaction.total_interaction_length) for p in ps])))
    # ---- trees (exact)
    for i in range(run.scale(120, 1500)):
        nroots, ops = random_history(run.rng, run.rng.choice([3, 8, 15, 25, 40]))
        impl, _, _ = tree_impl(nroots, ops)
        reqs.append(tree_line(nroots, ops)); checks.append(("tree", (nroots, ops, impl)))
    # trees holding value-equal but distinct Particle objects (twins as roots, as siblings, under different parents)
    for i in range(run.scale(80, 800)):
        nroots, ops = random_history(run.rng, run.rng.choice([3, 6, 12, 25]))
        if run.rng.random() < 0.5:
            nroots = max(nroots, 2)
        vals = twin_values(run.rng, nroots, ops, run.rng.choice(["all_equal", "roots_equal", "few_classes", "cousins"]))
        impl, _, _ = tree_impl(nroots, ops, vals)
        run.count("tree_with_value_equal_twins")
        reqs.append(tree_line(nroots, ops, vals)); checks.append(("tree", (nroots, ops, impl)))

    replies = fw.run_driver("C14", reqs)
    for rq, (op, arg), rp in zip(reqs, checks, replies):
        if rp == "bad-op":
            ok = False
            run.note_broken("correspondence: model rejected request %s" % rq[:120])
            continue
        if op == "sectab":
            continue
        if op == "consts":
            na = fw.b2f(rp.split("|")[-1].split()[0])
            run.case(("consts",))
            if na != float(scipy.constants.N_A):
                ok = False
                run.note_broken("correspondence: Avogadro constant model=%r scipy=%r" % (na, scipy.constants.N_A))
            else:
                run.traces += 1
            continue
        if op == "grid":
            model, anti, kind, what, Es, impl = arg
            got = fw.unfl(rp.split())
            for E, g, s in zip(Es, got, impl):
                run.case((what, model, anti, kind, E))
                if fw.close(g, s, 1e-9, 0.0):
                    run.traces += 1
                else:
                    ok = False
                    run.note_broken("correspondence: %s %s anti=%d %s E=%r model=%r impl=%r" % (what, model, anti, kind, E, g, s))
            continue
        if op == "tree":
            nroots, ops, impl = arg
            nontriv = any(cs for _, cs, _ in ops)
            run.case(("tree", rq), nontrivial=nontriv, sample={"request": rq[:200], "impl": impl[:200]})
            run.count("tree_" + ("error" if impl.startswith("error") else "ok"))
            run.count("tree_nodes", sum(len(cs) for _, cs, _ in ops) + nroots)
            if rp == impl:
                run.traces += 1
            else:
                ok = False
                run.note_broken("correspondence: event tree request=%s model=%s impl=%s" % (rq[:300], rp[:300], impl[:300]))
            continue
        c, res, err, tape = arg
        desc = {k: c[k] for k in ("type", "model", "sec", "kind", "E")}
        run.case(("interact", rq), nontrivial=True,
                 sample={"case": desc, "uniforms": tape.us[:4], "poisson": tape.ks[:6], "impl": res or err, "lean": rp[:120]})
        run.count("interact_%s_%s" % (c["model"], "sec" if c["sec"] else "nosec"))
        if tape.ks:
            run.count("interact_with_poisson_draws")
        if len(tape.ks) > 3:
            run.count("interact_retried")
        if res is None:
            run.count("interact_none")
            if rp == "none":
                run.traces += 1
            else:
                ok = False
                run.note_broken("correspondence: %s raised %s, model says %s" % (desc, err, rp))
            continue
        if rp == "none":
            ok = False
            run.note_broken("correspondence: %s model found no fractions, impl %s (tape %s / %s)" % (desc, res, tape.us[:6], tape.ks[:6]))
            continue
        t = rp.split()
        kind, (y, em, had), usedU, usedK, idx = t[0], fw.unfl(t[1:4]), int(t[4]), int(t[5]), int(t[6])
        good = (kind == res["kind"] and fw.close(y, res["y"], 1e-9, 1e-15) and fw.close(em, res["em"], 1e-9, 1e-15)
                and fw.close(had, res["had"], 1e-9, 1e-15) and usedU == len(tape.us) and usedK == len(tape.ks))
        if good and tape.lams:
            tabs = ((pp._int_muon_brems, pp._int_muon_epair, pp._int_muon_pn) if c["flavor"] == "mu" else
                    (pp._int_tauon_brems, pp._int_tauon_epair, pp._int_tauon_pn))
            want = [float(x[idx]) for x in tabs] * (len(tape.lams) // 3)
            good = want == tape.lams
            run.count("interact_energy_index_%d" % idx)
        if good:
            run.traces += 1
        else:
            ok = False
            run.note_broken("correspondence: %s uniforms=%s poisson=%s model=(%s y=%r em=%r had=%r usedU=%d usedK=%d idx=%d) "
                            "impl=%s drawn=(%d,%d) lams=%s" % (desc, tape.us[:8], tape.ks[:9], kind, y, em, had, usedU, usedK,
                                                               idx, res, len(tape.us), len(tape.ks), tape.lams[:3]))
    return ok


# ------------------------------------------------------------------------------------------------
# property-level oracles on the implementation alone
def check_interaction(run, c, inject_all=None):
    if inject_all is not None:
        c = dict(c, inject=list(inject_all))
    res, err, tape = run_impl(run, c)
    inp = dict(case={k: c[k] for k in ("type", "flavor", "anti", "model", "sec", "kind", "E", "mode")},
               uniforms=list(tape.us), poisson=list(tape.ks))
    if res is None:
        # 1000 failed attempts to conserve energy: only conceivable in stress mode
        if c["mode"] != "stress":
            run.fail_input("interaction", inp, observed=err, what="interaction could not be generated")
        return
    y, em, had, E = res["y"], res["em"], res["had"], c["E"]
    bad = []
    if not (-1e-15 <= y <= 1 + 1e-15):      # rounding of c1 + (...) in the low-y branch can give -1e-18
        bad.append("inelasticity outside [0,1]")
    if not (em >= -1e-15 and had >= -1e-15):
        bad.append("negative shower fraction")
    if not em + had <= 1 + 1e-12:
        bad.append("em+had > 1")
    kind = res["kind"]
    us = list(tape.us)
    if c["kind"] is None:
        if kind != ref_kind(c["model"], E, us[0]):
            bad.append("interaction type does not follow the published branching ratio")
        us = us[1:]
    elif kind != c["kind"]:
        bad.append("forced interaction type ignored")
    yref = ref_y(c["model"], c["anti"], kind, E, us)
    if not fw.close(y, yref, 1e-9, 1e-15):
        bad.append("inelasticity differs from the published inverse-CDF formula (%r)" % yref)
    prim = (0.0, y) if kind == "nc" or c["flavor"] != "e" else (1 - y, y)
    is_prim = fw.close(em, prim[0], 1e-12, 1e-15) and fw.close(had, prim[1], 1e-12, 1e-15)
    if kind == "nc" and not (em == 0 and had == y):
        bad.append("neutral current must give (0, y)")
    if kind == "cc" and c["flavor"] == "e" and not abs(em + had - 1) <= 1e-12:
        bad.append("CC electron neutrino must deposit everything")
    if not c["sec"] and not is_prim:
        bad.append("primary fractions are not (1-y, y) / (0, y)")
    if not is_prim:
        if not em + had <= (1 - y) * (1 + 1e-12):
            bad.append("secondaries exceed the lepton energy")
        if not (em + had) > (prim[0] + prim[1]) * (1 - 1e-12):
            bad.append("secondaries chosen although the primary shower is larger")
    sig, tot = res["sigma"], res["total"]
    if not (sig > 0 and tot > 0):
        bad.append("cross section not positive")
    if not fw.close(res["L"], 1 / (6.02214076e23 * sig), 1e-12, 0.0) or not fw.close(res["Ltot"], 1 / (6.02214076e23 * tot), 1e-12, 0.0):
        bad.append("interaction length is not 1/(N_A sigma)")
    if not fw.close(sig, ref_sigma(c["model"], c["anti"], kind, E), 1e-9, 0.0):
        bad.append("cross section differs from the published parameterisation")
    if not fw.close(tot, ref_total(c["model"], c["anti"], E), 1e-9, 0.0):
        bad.append("total cross section differs from the published parameterisation")
    if bad:
        run.fail_input("interaction", inp, observed=res, what="; ".join(bad))


def check_energy_inputs(run, c):
    """the energy given as Python int / numpy integer / 0-d array / float32 must give the interaction of the float64 energy
    (same tape); secondaries off so that the recorded uniforms replay exactly"""
    c = dict(c, sec=False, mode="nominal", inject=[])
    Ei = int(round(c["E"]))
    ref, err, tape = run_impl(run, dict(c, E=float(Ei)))
    if ref is None:
        return
    for cls, val, tol in (("int", Ei, 1e-12), ("npint64", np.int64(Ei), 1e-12), ("zero_d", np.array(float(Ei)), 1e-12),
                          ("float32", np.float32(Ei), 3e-4)):
        want = ref
        if cls == "float32":          # the float32 value is a different energy: compare with its own float64 reading
            want, _, _ = run_impl(run, dict(c, E=float(np.float32(Ei)), inject=list(tape.us)))
        got, err2, _ = run_impl(run, dict(c, E=val, inject=list(tape.us)))
        ok = got is not None and want is not None and got["kind"] == want["kind"] and all(
            fw.close(float(got[k]), float(want[k]), tol, (1e-6 if cls == "float32" and k in ("y", "em", "had") else 1e-300))
            for k in ("y", "em", "had", "sigma", "total", "L", "Ltot"))
        if not ok:
            run.fail_input("energy-input", {"case": {k: c[k] for k in ("type", "flavor", "anti", "model", "kind")}, "E": Ei,
                                            "class": cls, "uniforms": list(tape.us)}, observed=got or err2, expected=want,
                           what="interaction of an energy given as %s differs from the float64 evaluation" % cls)
            return


def check_interaction_history(run, calls, inject=None):
    """a HISTORY of particle creations in one process (same energy with neutrino and antineutrino, CC and NC, both
    models, repeated): every cross section / length must be the published value for ITS type, kind and model - nothing
    may be remembered from earlier particles.  calls = [(type name, anti, model, kind, E)]"""
    pp = P()
    old = pp.GQRSInteraction.include_secondaries
    try:
        pp.GQRSInteraction.include_secondaries = False
        for k, (tname, anti, model, kind, E) in enumerate(calls):
            with Tape(run.rng, "nominal", None):
                p = pp.Particle(tname, (0, 0, -1), (0, 0, 1), E, interaction_model=model_cls(model), interaction_type=kind)
            I = p.interaction
            got = [float(I.cross_section), float(I.total_cross_section), float(I.interaction_length), float(I.total_interaction_length)]
            s_, t_ = ref_sigma(model, anti, kind, E), ref_total(model, anti, E)
            want = [s_, t_, 1 / (6.02214076e23 * s_), 1 / (6.02214076e23 * t_)]
            if not fw.all_close(got, want, 1e-9, 0.0):
                run.fail_input("interaction-history", {"calls": [list(c) for c in calls[:k + 1]]},
                               observed={"call": k, "sigma,total,L,Ltot": got}, expected=want,
                               what="after earlier particles, cross sections / interaction lengths of this particle are not "
                                    "the published values for its own type, interaction kind and model")
                return
    finally:
        pp.GQRSInteraction.include_secondaries = old


def check_grid(run, model, anti, Es):
    pp = P()
    tname = "nu_tau_bar" if anti else "nu_e"
    vals = {}
    for kind in ("cc", "nc"):
        vals[kind] = [float(pp.Particle(tname, (0, 0, -1), (0, 0, 1), E, interaction_model=model_cls(model),
                                        interaction_type=kind).interaction.cross_section) for E in Es]
    tot = [float(pp.Particle(tname, (0, 0, -1), (0, 0, 1), E, interaction_model=model_cls(model),
                             interaction_type="cc").interaction.total_cross_section) for E in Es]
    for kind in ("cc", "nc"):
        v = vals[kind]
        for i in range(len(Es) - 1):
            if not (v[i] > 0 and v[i + 1] > v[i]):
                run.fail_input("sigma-monotone", {"model": model, "anti": anti, "kind": kind, "E": [Es[i], Es[i + 1]]},
                               observed=[v[i], v[i + 1]], what="cross section not positive and strictly increasing with energy")
                break
    for i in range(len(Es)):
        if not (tot[i] > 0 and all(tot[j + 1] > tot[j] for j in range(i, min(i + 1, len(Es) - 1)))):
            run.fail_input("sigma-monotone", {"model": model, "anti": anti, "kind": "total", "E": [Es[i]]},
                           observed=tot[i], what="total cross section not positive and increasing")
            break
    if model == "ctw":
        for E, a, b, t in zip(Es, vals["cc"], vals["nc"], tot):
            if not fw.close(a + b, t, 1e-12, 0.0):
                run.fail_input("cc-plus-nc", {"model": model, "anti": anti, "E": [E]}, observed=[a, b, t],
                               what="sigma_cc + sigma_nc != sigma_total for the default model")
                break


def check_tree(run, nroots, ops, vals=None):
    """consistency of one well-formed history (distinct particle OBJECTS - their values may coincide -, known parents)"""
    impl, ev, ps = tree_impl(nroots, ops, vals)
    inp = {"nroots": nroots, "ops": [[p, cs, b] for p, cs, b in ops], "values": list(vals) if vals is not None else None}
    if impl.startswith("error") or impl.startswith("caller-") or impl.startswith("EXC"):
        run.fail_input("tree", inp, observed=impl, what="add_children raised on a well-formed history / the list handed "
                                                         "over by the caller was modified")
        return
    ident = {id(p): i for i, p in enumerate(ps)}
    expect_parent, level = {}, {i: 0 for i in range(nroots)}
    order = list(range(nroots))
    for par, cs, _ in ops:
        for c in cs:
            expect_parent[c] = par
            level[c] = level[par] + 1
            order.append(c)
    allp = [ident[id(p)] for p in ev]
    bad = []
    if sorted(allp) != sorted(order) or len(set(allp)) != len(allp) or len(ev) != len(order):
        bad.append("iteration does not return every particle exactly once")
    for i in order:
        par = ev.get_parent(ps[i])
        if (None if par is None else ident[id(par)]) != expect_parent.get(i):
            bad.append("get_parent(%d) wrong" % i); break
        kids = [ident[id(k)] for k in ev.get_children(ps[i])]
        if sorted(kids) != sorted(c for c, p in expect_parent.items() if p == i):
            bad.append("get_children(%d) wrong" % i); break
        if any(ev.get_parent(ps[k]) is not ps[i] for k in kids):
            bad.append("children of %d do not name it as parent" % i); break
    for L in range(max(level.values()) + 2):
        got = sorted(ident[id(p)] for p in ev.get_from_level(L))
        if got != sorted(i for i, l in level.items() if l == L):
            bad.append("get_from_level(%d) wrong" % L); break
    if bad:
        run.fail_input("tree", inp, observed=impl[:300], what="; ".join(bad))


def tree_state_bad(ev, ps, nroots, ops_done):
    """mutual consistency of iteration / parent / children / level queries for everything added SO FAR"""
    ident = {id(p): i for i, p in enumerate(ps)}
    expect_parent, level = {}, {i: 0 for i in range(nroots)}
    order = list(range(nroots))
    for par, cs, _ in ops_done:
        for c in cs:
            expect_parent[c] = par
            level[c] = level[par] + 1
            order.append(c)
    allp = [ident[id(p)] for p in ev]
    if sorted(allp) != sorted(order) or len(ev) != len(order):
        return "iteration does not return every particle exactly once"
    for i in order:
        par = ev.get_parent(ps[i])
        if (None if par is None else ident[id(par)]) != expect_parent.get(i):
            return "get_parent(%d) is %s, expected %s" % (i, None if par is None else ident[id(par)], expect_parent.get(i))
        kids = [ident[id(k)] for k in ev.get_children(ps[i])]
        if sorted(kids) != sorted(c for c, p in expect_parent.items() if p == i):
            return "get_children(%d) wrong" % i
    for L in range(max(level.values()) + 2):
        got = sorted(ident[id(p)] for p in ev.get_from_level(L))
        if got != sorted(i for i, l in level.items() if l == L):
            return "get_from_level(%d) wrong" % L
    return None


def check_tree_interleaved(run, nroots, ops, vals=None):
    """queries INTERLEAVED with add_children: after every single add_children call the parent / children / level /
    iteration queries must be mutually consistent for every particle added so far - an answer given before a later
    add must not be frozen"""
    pp = P()
    nid = max([nroots] + [c + 1 for _, cs, _ in ops for c in cs])
    vals = list(vals) if vals is not None else list(range(nid))
    vals += list(range(len(vals), nid))
    ps = [pp.Particle("nu_e", (0, 0, -vals[i]), (0, 0, 1), 1e9, interaction_type="cc", interaction_model=pp.Interaction)
          for i in range(nid)]
    ev = pp.Event(list(ps[:nroots]))
    inp = {"nroots": nroots, "ops": [[p, cs, b] for p, cs, b in ops], "values": list(vals)}
    bad = tree_state_bad(ev, ps, nroots, [])
    for k, (par, cs, form) in enumerate(ops):
        if bad:
            break
        try:
            ev.add_children(ps[par], ps[cs[0]] if form is True else (tuple(ps[c] for c in cs) if form == "tuple" else [ps[c] for c in cs]))
        except ValueError:
            bad = "add_children raised"
        else:
            bad = tree_state_bad(ev, ps, nroots, ops[:k + 1])
        if bad:
            bad = "after add_children call %d (queries had been answered after every earlier call): %s" % (k, bad)
    if bad:
        run.fail_input("tree-interleaved", inp, observed=bad, what=bad)


def check_tree_errors(run, nroots, ops):
    """documented rejections: add_children / get_children / get_parent of a particle that is not in the tree raise
    ValueError (and nothing else), and the tree is unchanged afterwards"""
    impl, ev, ps = tree_impl(nroots, ops)
    if impl.startswith("error") or impl.startswith("EXC") or impl.startswith("caller-"):
        return
    pp = P()
    ghost = pp.Particle("nu_e", (0, 0, 7), (0, 0, 1), 1e9, interaction_type="cc", interaction_model=pp.Interaction)
    before = [id(x) for x in ev]
    for name, call in (("add_children", lambda: ev.add_children(ghost, [ghost])), ("get_children", lambda: ev.get_children(ghost)),
                       ("get_parent", lambda: ev.get_parent(ghost))):
        try:
            r = call()
            got = "returned %r" % (r,)
        except ValueError:
            got = None
        except Exception as e:      # noqa: BLE001
            got = "%s: %s" % (type(e).__name__, e)
        if got is not None or [id(x) for x in ev] != before:
            run.fail_input("tree-errors", {"nroots": nroots, "ops": [[p, cs, b] for p, cs, b in ops], "call": name},
                           observed=got or "tree changed", expected="ValueError",
                           what="%s of a particle that is not in the tree must raise ValueError and leave the tree unchanged" % name)
            return


def check_two_trees(run, nroots, ops_a, roots_b, ops_b):
    """the SAME Particle objects used in TWO event trees (B is a sub-event rooted at particles of A, or a differently
    shaped tree rebuilt from the same particles): each Event's iteration / parent / children / level answers must depend
    on THAT event only.  Queries are made on A before B exists, and on both after each step of B."""
    pp = P()
    nid = max([nroots] + [c + 1 for _, cs, _ in ops_a for c in cs] + [c + 1 for _, cs, _ in ops_b for c in cs] + [r + 1 for r in roots_b])
    ps = [pp.Particle("nu_e", (0, 0, -i), (0, 0, 1), 1e9, interaction_type="cc", interaction_model=pp.Interaction)
          for i in range(nid)]
    inp = {"nroots": nroots, "ops_a": [[p, cs, b] for p, cs, b in ops_a], "roots_b": list(roots_b),
           "ops_b": [[p, cs, b] for p, cs, b in ops_b]}

    class View:                      # tree_state_bad identifies particles by position in `ps`; B has its own root ids
        pass
    ev_a = pp.Event(list(ps[:nroots]))
    bad = None
    try:
        for par, cs, _ in ops_a:
            ev_a.add_children(ps[par], [ps[c] for c in cs])
        bad = tree_state_bad(ev_a, ps, nroots, ops_a)
        where = "tree A before B exists"
        if not bad:
            ev_b = pp.Event([ps[r] for r in roots_b])
            done = []
            for k, (par, cs, _) in enumerate(ops_b):
                ev_b.add_children(ps[par], [ps[c] for c in cs])
                done.append((par, cs, False))
                bad = two_tree_state(ev_b, ps, roots_b, done)
                where = "tree B after its add_children call %d" % k
                if bad:
                    break
                bad = tree_state_bad(ev_a, ps, nroots, ops_a)
                where = "tree A after add_children call %d on tree B" % k
                if bad:
                    break
    except Exception as e:      # noqa: BLE001
        bad, where = "%s: %s" % (type(e).__name__, e), "building the trees"
    if bad:
        run.fail_input("two-trees", inp, observed="%s: %s" % (where, bad),
                       what="two events sharing Particle objects influence each other (%s: %s)" % (where, bad))


def two_tree_state(ev, ps, roots, ops_done):
    """like tree_state_bad for an event whose roots are arbitrary particle ids"""
    ident = {id(p): i for i, p in enumerate(ps)}
    expect_parent, level = {}, {r: 0 for r in roots}
    order = list(roots)
    for par, cs, _ in ops_done:
        for c in cs:
            expect_parent[c] = par
            level[c] = level[par] + 1
            order.append(c)
    if [ident[id(p)] for p in ev] != order:
        return "iteration is not roots followed by the children in order of insertion"
    for i in order:
        par = ev.get_parent(ps[i])
        if (None if par is None else ident[id(par)]) != expect_parent.get(i):
            return "get_parent(%d) is %s, expected %s" % (i, None if par is None else ident[id(par)], expect_parent.get(i))
        kids = [ident[id(k)] for k in ev.get_children(ps[i])]
        if sorted(kids) != sorted(c for c, p in expect_parent.items() if p == i):
            return "get_children(%d) wrong" % i
    for L in range(max(level.values()) + 2):
        got = sorted(ident[id(p)] for p in ev.get_from_level(L))
        if got != sorted(i for i, l in level.items() if l == L):
            return "get_from_level(%d) wrong" % L
    return None


EDITS = ("extend", "clear", "reverse", "pop", "append_foreign", "sort")


def check_returned_lists(run, nroots, ops, edits):
    """results MODIFIED by the caller: lists returned by get_children, get_from_level(k >= 1) and iteration are edited
    (extended with other results, cleared, reversed, trimmed, a foreign particle appended, sorted), and so is the list the
    caller passed as `roots` (F24: the event owns its roots); every later parent / children / level / iteration answer
    must be what the history says.  edits = [(query, arg, edit)], query in children|level|iter|roots"""
    pp = P()
    nid = max([nroots] + [c + 1 for _, cs, _ in ops for c in cs])
    ps = [pp.Particle("nu_e", (0, 0, -i), (0, 0, 1), 1e9, interaction_type="cc", interaction_model=pp.Interaction)
          for i in range(nid)]
    foreign = pp.Particle("nu_e", (0, 0, 9), (0, 0, 1), 1e9, interaction_type="cc", interaction_model=pp.Interaction)
    caller_roots = list(ps[:nroots])
    ev = pp.Event(caller_roots)
    for par, cs, _ in ops:
        ev.add_children(ps[par], [ps[c] for c in cs])
    inp = {"nroots": nroots, "ops": [[p, cs, b] for p, cs, b in ops], "edits": [list(e) for e in edits]}
    for k, (query, arg, edit) in enumerate(edits):
        try:
            if query == "children":
                lst = ev.get_children(ps[arg])
            elif query == "roots":
                lst = caller_roots
            elif query == "level":
                lst = ev.get_from_level(arg)
            else:
                lst = list(iter(ev)) if arg else [x for x in ev]
            if isinstance(lst, list):
                if edit == "extend":
                    lst.extend(ev.get_children(ps[0]))
                elif edit == "clear":
                    lst.clear()
                elif edit == "reverse":
                    lst.reverse()
                elif edit == "pop" and lst:
                    lst.pop()
                elif edit == "append_foreign":
                    lst.append(foreign)
                elif edit == "sort":
                    lst.sort(key=id)
            bad = tree_state_bad(ev, ps, nroots, ops)
        except Exception as e:      # noqa: BLE001
            bad = "%s: %s" % (type(e).__name__, e)
        if bad:
            run.fail_input("returned-lists", dict(inp, edits=[list(e) for e in edits[:k + 1]]),
                           observed="after edit %d (%s of the result of %s(%s)): %s" % (k, edit, query, arg, bad),
                           what="editing a list returned by the event changed the event's later answers: " + bad)
            return


def check_reassign(run, tname, model, steps):
    """one Particle / Interaction object READ, then `interaction.kind`, `particle.energy` or `particle.id` re-assigned,
    then read again: cross_section, total_cross_section, interaction_length, total_interaction_length must be those
    of the published parameterisation for the FINAL values (= a fresh object), and sigma_cc + sigma_nc = sigma_tot for
    the default model.  steps: ["read"] | ["kind", "cc"|"nc"] | ["energy", E] | ["id", type name]"""
    pp = P()
    old = pp.GQRSInteraction.include_secondaries
    anti_of = {t[0]: t[2] for t in TYPES}
    try:
        pp.GQRSInteraction.include_secondaries = False
        E, kind, cur = None, None, tname
        with Tape(run.rng):
            E = steps[0][1]
            p = pp.Particle(tname, (0, 0, -1), (0, 0, 1), E, interaction_model=model_cls(model), interaction_type=steps[0][2])
        kind = steps[0][2]
        last = {}
        for k, st in enumerate(steps[1:], 1):
            if st[0] == "kind":
                p.interaction.kind = st[1]; kind = st[1]
            elif st[0] == "energy":
                p.energy = st[1]; E = st[1]
            elif st[0] == "id":
                p.id = st[1]; cur = st[1]
            else:
                I = p.interaction
                got = [float(I.cross_section), float(I.total_cross_section), float(I.interaction_length), float(I.total_interaction_length)]
                anti = anti_of[cur]
                s_, t_ = ref_sigma(model, anti, kind, E), ref_total(model, anti, E)
                want = [s_, t_, 1 / (6.02214076e23 * s_), 1 / (6.02214076e23 * t_)]
                with Tape(run.rng):
                    f = pp.Particle(cur, (0, 0, -1), (0, 0, 1), E, interaction_model=model_cls(model), interaction_type=kind).interaction
                fresh = [float(f.cross_section), float(f.total_cross_section), float(f.interaction_length), float(f.total_interaction_length)]
                bad = None
                if not (fw.all_close(got, want, 1e-9, 0.0) and fw.all_close(got, fresh, 1e-12, 0.0)):
                    bad = "values read after re-assignment differ from those of a fresh object / the published parameterisation"
                last[kind] = got[0]
                if model == "ctw" and not bad and set(last) == {"cc", "nc"} and last.get("_E") == (E, cur):
                    if not fw.close(last["cc"] + last["nc"], got[1], 1e-12, 0.0):
                        bad = "sigma_cc + sigma_nc read from one object (kind re-assigned) != sigma_total"
                if last.get("_E") != (E, cur):
                    last = {kind: got[0], "_E": (E, cur)}
                if bad:
                    run.fail_input("reassign", {"type": tname, "model": model, "steps": [list(x) for x in steps[:k + 1]]},
                                   observed={"step": k, "read": got, "fresh_object": fresh}, expected=want, what=bad)
                    return
    finally:
        pp.GQRSInteraction.include_secondaries = old


def ks_uniform(xs):
    xs = sorted(xs)
    n = len(xs)
    return max(max((i + 1) / n - x, x - i / n) for i, x in enumerate(xs))


def check_distribution(run, model, anti, E, n):
    """thorough only: the probability integral transform of the drawn inelasticities / types is uniform.
    Uses real numpy randomness seeded from the run; threshold at p = 1e-6."""
    pp = P()
    np.random.seed(run.rng.getrandbits(32))
    tname = "nu_mu_bar" if anti else "nu_mu"
    cls = model_cls(model)
    old = pp.GQRSInteraction.include_secondaries
    pp.GQRSInteraction.include_secondaries = False
    try:
        kinds = [pp.Particle(tname, (0, 0, -1), (0, 0, 1), E, interaction_model=cls).interaction.kind for _ in range(n)]
    finally:
        pp.GQRSInteraction.include_secondaries = old
    frac_nc = sum(1 for k in kinds if k == pp.Interaction.Type.nc) / n
    d0, d1, d2 = REF["ctw_d"]
    p = (1 - REF["gqrs_cc"]) if model == "gqrs" else d1 + d2 * math.log(math.log10(E) - d0)
    z = abs(frac_nc - p) / math.sqrt(p * (1 - p) / n)
    if z > 4.9:     # two-sided p ~ 1e-6
        run.fail_input("nc-fraction", {"model": model, "anti": anti, "E": E, "n": n}, observed=frac_nc, expected=p,
                       what="neutral-current fraction off by %.1f sigma" % z)


def search(run, deep):
    rng = run.rng
    # --- state kept across calls: histories first, so that their self-contained replays get the replay slots
    for i in range(100 if deep else 12):
        es = [10 ** rng.uniform(3, 12) for _ in range(2)]
        calls = []
        for k in range(rng.randint(4, 10)):
            tname, fl, anti = rng.choice(TYPES)
            calls.append((tname, anti, rng.choice(["gqrs", "ctw", "ctw"]), rng.choice(["cc", "nc"]), rng.choice(es)))
        # the same energy, model and kind with the opposite sign right after the first call
        t0 = calls[0]
        calls[1] = (("nu_mu_bar", 1) if t0[1] == 0 else ("nu_mu", 0)) + (t0[2], t0[3], t0[4])
        run.case(("oracle-interaction-history", str(calls)[:200]))
        check_interaction_history(run, calls)
    # read - re-assign - read on ONE interaction object
    for i in range(200 if deep else 24):
        tname, fl, anti = TYPES[i % 6]
        model = rng.choice(["gqrs", "ctw", "ctw"])
        steps = [["create", 10 ** rng.uniform(3, 12), rng.choice(["cc", "nc"])], ["read"]]
        for k in range(rng.randint(2, 6)):
            what = rng.choice(["kind", "kind", "energy", "id"])
            if what == "kind":
                steps.append(["kind", "nc" if [x for x in steps if x[0] in ("kind", "create")][-1][-1] == "cc" else "cc"])
            elif what == "energy":
                steps.append(["energy", 10 ** rng.uniform(3, 12)])
            else:
                steps.append(["id", rng.choice([t[0] for t in TYPES])])
            steps.append(["read"])
        run.case(("oracle-reassign", tname, model, str(steps)[:160]))
        check_reassign(run, tname, model, steps)
    for i in range(60 if deep else 6):
        nroots, ops = random_history(rng, rng.choice([1, 4, 9]), flaws=False)
        run.case(("oracle-tree-errors", nroots, str(ops)[:120]))
        check_tree_errors(run, nroots, ops)
    # lists returned by the event are edited by the caller
    for i in range(200 if deep else 20):
        nroots, ops = random_history(rng, rng.choice([5, 9, 14]), flaws=False)
        ops = [(p, cs, False) for p, cs, _ in ops if cs]
        members = list(range(nroots)) + [c for _, cs, _ in ops for c in cs]
        parents = [p for p, cs, _ in ops] or [0]
        edits = []
        for k in range(rng.randint(2, 6)):
            q = rng.choice(["children", "children", "level", "level", "iter", "roots"])
            arg = rng.choice(parents) if q == "children" else (rng.randint(0, 3) if q == "level" else rng.randint(0, 1))
            edits.append((q, arg, rng.choice(EDITS)))
        run.case(("oracle-returned-lists", nroots, str(ops)[:100], str(edits)[:100]))
        check_returned_lists(run, nroots, ops, edits)
    # the same particles in two trees
    for i in range(200 if deep else 20):
        nroots, ops_a = random_history(rng, rng.choice([5, 9, 14]), flaws=False)
        ops_a = [(p, cs, False) for p, cs, _ in ops_a if cs]
        members = list(range(nroots)) + [c for _, cs, _ in ops_a for c in cs]
        kids_a = [c for _, cs, _ in ops_a for c in cs]
        if i % 2 == 0 and kids_a:
            # B = sub-event rooted at a child of A, reusing other particles of A as its descendants (other shape)
            roots_b = [rng.choice(kids_a)]
        else:
            roots_b = rng.sample(members, min(len(members), rng.randint(1, 2)))
        rest = [m for m in members if m not in roots_b]
        rng.shuffle(rest)
        ops_b, present = [], list(roots_b)
        while rest:
            k = min(len(rest), rng.randint(1, 3))
            cs, rest = rest[:k], rest[k:]
            ops_b.append((rng.choice(present), cs, False))
            present += cs
        run.case(("oracle-two-trees", nroots, str(ops_a)[:100], str(ops_b)[:100]))
        check_two_trees(run, nroots, ops_a, roots_b, ops_b)
    # queries interleaved with add_children
    for i in range(300 if deep else 30):
        nroots, ops = random_history(rng, rng.choice([4, 8, 14, 22]), flaws=False)
        ops = [(p, cs, (b if b in (True, False, "tuple") else False)) for p, cs, b in ops]
        vals = None
        if i % 3 == 2:
            vals = twin_values(rng, nroots, ops, rng.choice(["roots_equal", "few_classes", "cousins"]))
        run.case(("oracle-tree-interleaved", nroots, str(ops)[:160]))
        check_tree_interleaved(run, nroots, ops, vals)
    n = 6000 if deep else 400
    for i in range(n):
        c = draw_case(run)
        run.case(("oracle-interaction", c["type"], c["model"], c["sec"], c["kind"], c["E"]))
        check_interaction(run, c)
    for i in range(300 if deep else 30):
        c = draw_case(run)
        run.case(("oracle-energy-input", c["type"], c["model"], c["kind"], int(round(c["E"]))))
        check_energy_inputs(run, c)
    for model in ("gqrs", "ctw"):
        for anti in (0, 1):
            Es = sorted([float(x) for x in np.logspace(3, 12, 400 if deep else 60)] + [10 ** rng.uniform(3, 12) for _ in range(20)])
            run.case(("oracle-grid", model, anti, len(Es)))
            check_grid(run, model, anti, Es)
    for i in range(400 if deep else 40):
        nroots, ops = random_history(rng, rng.choice([5, 12, 25, 40]), flaws=False)
        if i % 2 == 1:          # every other history holds value-equal twins
            if rng.random() < 0.5:
                extra = max(0, 2 - nroots)
                ops = [(p + extra, [c + extra for c in cs], b) for p, cs, b in ops]
                nroots += extra
            vals = twin_values(rng, nroots, ops, rng.choice(["all_equal", "roots_equal", "few_classes", "cousins"]))
            run.case(("oracle-tree-twins", nroots, str(ops), tuple(vals)))
            run.count("oracle_tree_twins")
            check_tree(run, nroots, ops, vals)
            continue
        run.case(("oracle-tree", nroots, str(ops)))
        check_tree(run, nroots, ops)
    if run.thorough():
        for model in ("gqrs", "ctw"):
            for E in (1e4, 1e8, 1e11):
                run.case(("oracle-distribution", model, E))
                check_distribution(run, model, rng.choice([0, 1]), E, 40000)


def known_probes(run):
    """K14: a draw of exactly 0.0 in GQRS / CC / secondaries"""
    c = dict(type="nu_mu", flavor="mu", anti=0, model="gqrs", sec=True, kind="cc", E=1e9, inject=[0.0], mode="nominal")
    try:
        res, err, tape = run_impl(run, c)
    except OverflowError:
        run.known_finding("K14")
        return
    if res is not None and not (0 <= res["y"] <= 1 and res["em"] >= 0 and res["had"] >= 0 and res["em"] + res["had"] <= 1 + 1e-12):
        run.fail_input("interaction", {"case": {k: c[k] for k in ("type", "flavor", "anti", "model", "sec", "kind", "E", "mode")},
                                       "uniforms": [0.0], "poisson": []}, observed=res,
                       what="draw of 0.0 no longer raises but yields fractions outside the bounds")


def replay(run, data):
    i = data["input"]
    k = data.get("kind")
    if k == "interaction":
        c = dict(i["case"], inject=[])
        # re-feed the recorded tape: uniforms injected, poisson integers replayed
        class Fixed(Tape):
            def poisson(self, lam=1.0, size=None):
                self.calls.append("poisson")
                self.lams.append(float(lam))
                kk = self._ks.pop(0) if self._ks else 0
                self.ks.append(kk)
                return kk
        import props.C14 as me
        orig = me.Tape
        try:
            def mk(rng, mode, inject):
                t = Fixed(rng, mode, i["uniforms"])
                t._ks = list(i["poisson"])
                return t
            me.Tape = mk
            check_interaction(run, c)
        finally:
            me.Tape = orig
    elif k == "returned-lists":
        check_returned_lists(run, i["nroots"], [(p, cs, b) for p, cs, b in i["ops"]], [tuple(e) for e in i["edits"]])
    elif k == "two-trees":
        check_two_trees(run, i["nroots"], [(p, cs, b) for p, cs, b in i["ops_a"]], i["roots_b"],
                        [(p, cs, b) for p, cs, b in i["ops_b"]])
    elif k == "tree-errors":
        check_tree_errors(run, i["nroots"], [(p, cs, b) for p, cs, b in i["ops"]])
    elif k == "tree-interleaved":
        check_tree_interleaved(run, i["nroots"], [(p, cs, b) for p, cs, b in i["ops"]], i.get("values"))
    elif k == "reassign":
        check_reassign(run, i["type"], i["model"], i["steps"])
    elif k == "interaction-history":
        check_interaction_history(run, [tuple(c) for c in i["calls"]])
    elif k == "energy-input":
        cc = dict(i["case"], E=float(i["E"]), sec=False, mode="nominal", inject=[])
        check_energy_inputs(run, cc)
    elif k in ("sigma-monotone", "cc-plus-nc"):
        E = i["E"]
        check_grid(run, i["model"], i["anti"], E if len(E) > 1 else [E[0], E[0] * 1.01])
    elif k == "tree":
        check_tree(run, i["nroots"], [(p, cs, b) for p, cs, b in i["ops"]], i.get("values"))
    else:
        search(run, True)
