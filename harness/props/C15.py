"""C15 - Earth density and slant depth equal the reference profile and its line integral.

Float twin of lean/twin/Earth.body (tables regenerated from pyrex/earth_model.py) against
pyrex.earth_model.PREM / CoreMantleCrustModel; the search compares the implementation with an
independently coded reference profile and adaptive quadrature along the chord."""
import math

import numpy as np

import framework as fw

LEVEL = "proof"
USE_TWINS = True
EXTRACTORS = ["earth_consts"]
TECHNIQUE = ("Lean 4 theorems over the real-number reading of a twin model with regenerated constant tables + "
             "Float-twin differential run + quadrature oracle")
RULE = ("density: both Earth models x radii {0, every shell boundary and its two float neighbours, R, beyond R, "
        "negative, random}, scalar and array calls, and every input class (Python int, list, tuple, int32/int64/"
        "float32/0-d arrays, mixed and 2-d lists) compared with the float64 scalar evaluation; slant depth: endpoints at depth 0..3 km with random x,y, "
        "directions over the whole sphere plus injected vertical / horizontal / tangential / up-going / zero "
        "directions, steps 5..5000 m (bounded so a chord has at most ~1e5 nodes), exact-multiple and "
        "shorter-than-one-step chords; call histories on long-lived objects (PREM, a second PREM, the module-level `earth`, "
        "CoreMantleCrustModel) asking the same chord of several models, repeatedly and with other steps; a case is non-trivial when the chord enters the Earth (result > 0); "
        "distinct = distinct (model, op, arguments)")
LEVEL_TEXT = ("theorems over R for any shell table with sorted bounds (partition, zero outside, scalar=array), "
              "positivity of every extracted polynomial on its shell, chord/sphere geometry (exit point on the "
              "sphere, larger root, zero cases), azimuth and direction-scale invariance, trapezoid weights and the "
              "oscillation error bound; the same model text run on Float agrees with pyrex.earth_model on every "
              "sampled input")
LEVEL_NOTE = ("floating-point rounding is not modelled (tolerance run, rel 1e-9); the last trapezoid node lies on "
              "r=R, the run accepts either the crust density or 0 for that one node; `n_steps` uses "
              "a - b*floor(a/b) for Python's float `%`; C15_trapz_bv_error bounds |T - integral| by h times the sum "
              "of per-cell oscillations, the step from oscillation sum to total variation of the PREM profile along "
              "a chord is a hypothesis (checked numerically by the search), discharged for monotone integrands "
              "(C15_trapz_monotone_error) and for chords inside the outermost PREM shell (C15_prem_variation_top_shell); C15_column_grows_with_dip_antitone proves the dip monotonicity of the exact column for any profile that is "
              "antitone in r (PREM is not: its 6151-6346.6 km shell increases outwards); hypothesis audit: the property's "
              "quantifier is endpoints at depth 0..3 km and directions ON THE SPHERE: endpoints above the surface / outside "
              "the Earth are answered correctly by the real code (theorems carry no depth hypothesis), a zero direction "
              "returns 100*rho(r_e)*sqrt(R^2-|e|^2) without raising (outside the quantifier, model agrees), a chord not "
              "longer than one step returns 0 (C15_short_chord_zero; the extreme case of 'within the discretisation "
              "error'), the length-independence holds for direction lengths in about [1e-154, 1e154] only: beyond, the squares under/overflow "
              "in np.linalg.norm and the vector is treated as the zero direction (observed 1.15e7 instead of 5.94e9) - "
              "floating-point range, outside the claim; the scale oracle demands equality for 1e-150 <= k <= 1e150 and asserts "
              "nothing beyond; a step that is 0 / negative / NaN raises OverflowError / ValueError (oracle bad-step: never a "
              "number), step=inf returns 0; hV of C15_trapz_bv_error is a hypothesis whose region the search samples with a "
              "numerically computed variation; C15_grows_with_dip_partial proves only "
              "that the chord length (= uniform-density column) grows strictly with dip, the layered case is left to "
              "the monotonicity sweep of the search")
ASSUMPTIONS = ["np.piecewise / np.linspace / np.trapz(np.trapezoid) / np.linalg.norm modelled by their specification"]

# ------------------------------------------------------------------------------------------------
# independent reference profile (Dziewonski & Anderson 1981, as tabulated in the pyrex documentation;
# AraSim's core-mantle-crust model) - deliberately NOT read from /repo
REF = {
    "prem": dict(R=6.3710e6,
                 bounds=[0, 1.2215e6, 3.4800e6, 5.7010e6, 5.7710e6, 5.9710e6, 6.1510e6, 6.3466e6, 6.3560e6,
                         6.3680e6, 6.3710e6],
                 polys=[[13.0885, 0, -8.8381], [12.5815, -1.2638, -3.6426, -5.5281],
                        [7.9565, -6.4761, 5.5283, -3.0807], [5.3197, -1.4836], [11.2494, -8.0298],
                        [7.1089, -3.8045], [2.691, 0.6924], [2.9], [2.6], [1.02]]),
    "cmc": dict(R=6.378140e6, bounds=[0, math.sqrt(1.2e13), 6.378140e6 - 4e4, 6.378140e6],
                polys=[[14], [3.4], [2.9]]),
}


class mem_cap:
    """soft address-space cap around calls into the implementation, so that a broken `n_steps` raises
    MemoryError in this process instead of exhausting the machine"""
    def __init__(self, gib=6):
        self.lim = gib << 30

    def __enter__(self):
        try:
            import resource
            self.res = resource
            self.old = resource.getrlimit(resource.RLIMIT_AS)
            resource.setrlimit(resource.RLIMIT_AS, (self.lim, self.old[1]))
        except Exception:
            self.res = None

    def __exit__(self, *a):
        if self.res is not None:
            try:
                self.res.setrlimit(self.res.RLIMIT_AS, self.old)
            except Exception:
                pass
        return False


def slant(earth, ep, d, step):
    """the implementation; an exception is reported as NaN + message"""
    try:
        with mem_cap():
            return float(earth.slant_depth(ep, d, step)), None
    except Exception as e:      # noqa: BLE001 - any failure of the implementation is a finding
        return float("nan"), "%s: %s" % (type(e).__name__, str(e)[:200])


EXCLUDED_REGIONS = [
    "direction lengths outside about [1e-154, 1e154]: the squares under/overflow in np.linalg.norm and the vector is treated "
    "as the zero direction (observed 1.15e7 instead of 5.94e9); floating-point range, outside the claim - the scale oracle "
    "demands equality for 1e-150 <= k <= 1e150 and asserts nothing beyond",
    "zero direction vector (not a direction on the sphere): the code returns 100*rho(r_e)*sqrt(R^2-|e|^2) without raising",
    "steps that are 0, negative or NaN (must raise, oracle bad-step); step = inf returns 0",
    "chords not longer than one step return 0 (C15_short_chord_zero): inside 'within the discretisation error of the step'",
    "float32 endpoints: earth_radius + z is formed in single precision (0.5 m), not compared",
]


def models():
    from pyrex.earth_model import PREM, CoreMantleCrustModel
    return {"prem": PREM(), "cmc": CoreMantleCrustModel()}


def ref_density(name, r):
    ref = REF[name]
    b = ref["bounds"]
    for i in range(len(b) - 1):
        if b[i] <= r < b[i + 1]:
            x = r / ref["R"]
            return sum(c * x ** k for k, c in enumerate(ref["polys"][i]))
    return 0.0


# ------------------------------------------------------------------------------------------------
# generators
def radii_cases(run, name, earth):
    b = [0.0] + [float(x) for x in earth.radii]
    rs = []
    for x in b:
        rs += [x, float(np.nextafter(x, np.inf)), float(np.nextafter(x, -np.inf))]
    rs += [-1.0, -1e6, earth.earth_radius + 1, 2 * earth.earth_radius, 1e9]
    rs += [run.rng.uniform(0, earth.earth_radius * 1.05) for _ in range(run.scale(40, 400))]
    return rs


def unit(v):
    v = np.array(v, float)
    return v / np.linalg.norm(v)


def slant_cases(run, n):
    """(endpoint, direction, step, tag)"""
    rng = run.rng
    out = []
    for i in range(n):
        ep = [rng.uniform(-2e4, 2e4) * rng.choice([0, 1, 1, 1]), rng.uniform(-2e4, 2e4) * rng.choice([0, 1, 1, 1]),
              -rng.uniform(0, 3000) * rng.choice([0, 1, 1, 1, 1])]
        kind = rng.choice(["sphere", "sphere", "sphere", "down", "vertical", "horizontal", "grazing", "up",
                           "scaled", "zero", "multiple"])
        if kind == "sphere":
            d = [rng.gauss(0, 1) for _ in range(3)]
        elif kind == "down":
            th = math.radians(rng.uniform(0, 90)); ph = rng.uniform(0, 2 * math.pi)
            d = [math.cos(th) * math.cos(ph), math.cos(th) * math.sin(ph), -math.sin(th)]
        elif kind == "vertical":
            d = [0.0, 0.0, rng.choice([-1.0, 1.0, -2.5])]
        elif kind == "horizontal":
            ph = rng.uniform(0, 2 * math.pi)
            d = [math.cos(ph), math.sin(ph), 0.0]
        elif kind == "grazing":
            ph = rng.uniform(0, 2 * math.pi); dip = rng.uniform(-0.03, 0.03)
            d = [math.cos(ph), math.sin(ph), dip]
        elif kind == "up":
            th = math.radians(rng.uniform(1, 90)); ph = rng.uniform(0, 2 * math.pi)
            d = [math.cos(th) * math.cos(ph), math.cos(th) * math.sin(ph), math.sin(th)]
        elif kind == "scaled":
            k = 10 ** rng.uniform(-3, 3)
            d = [k * rng.gauss(0, 1) for _ in range(3)]
        elif kind == "zero":
            d = [0.0, 0.0, 0.0]
        else:  # exact multiples of the step: vertical chord from a round depth
            ep = [0.0, 0.0, -float(rng.choice([500, 1000, 1500, 2000, 3000]))]
            d = [0.0, 0.0, 1.0]
        step = 10 ** rng.uniform(math.log10(5), math.log10(5000))
        if kind == "multiple":
            step = float(rng.choice([50, 100, 250, 500, 1000, 4000]))
        out.append((ep, d, step, kind))
    return out


def chord_length(R, ep, d):
    e = np.array([ep[0], ep[1], ep[2] + R], float)
    nrm = float(np.linalg.norm(d))
    if nrm == 0:
        return None
    u = np.array(d, float) / nrm
    dot = float(e @ u)
    disc = dot * dot - float(e @ e) + R * R
    if disc <= 0:
        return 0.0
    return max(0.0, -dot + math.sqrt(disc))


def bound_step(R, ep, d, step, maxnodes):
    L = chord_length(R, ep, d)
    if L and L / step > maxnodes:
        step = L / maxnodes * 1.0001
    return step


# ------------------------------------------------------------------------------------------------
def correspondence(run):
    run.extra["excluded_regions"] = EXCLUDED_REGIONS
    ms = models()
    ok = True
    reqs, checks = [], []
    # ---- constants, compared exactly
    for name, earth in ms.items():
        reqs.append("consts " + name)
        checks.append(("consts", name, earth, None))
    # ---- density
    for name, earth in ms.items():
        rs = radii_cases(run, name, earth)
        try:
            arr = [float(v) for v in earth.density(np.array(rs))]
            sca = [float(earth.density(r)) for r in rs]
        except Exception as e:      # noqa: BLE001
            run.note_broken("correspondence: density of %s raised %s: %s" % (name, type(e).__name__, str(e)[:150]))
            ok = False
            continue
        if arr != sca:
            bad = [(r, a, s) for r, a, s in zip(rs, arr, sca) if a != s][:3]
            run.note_broken("correspondence: density scalar/array disagree for %s: (r, array, scalar) = %s" % (name, bad))
            ok = False
        reqs.append("density %s %s" % (name, fw.fl(rs)))
        checks.append(("density", name, rs, sca))
        # the same function on integer-typed input (Python ints one by one, and an integer ndarray)
        ri = [0] + [int(x) for x in earth.radii] + [int(x) - 1 for x in earth.radii] + \
             [run.rng.randrange(0, int(earth.earth_radius * 1.05)) for _ in range(run.scale(20, 200))]
        try:
            arr_i = [float(v) for v in np.asarray(earth.density(np.array(ri, dtype=np.int64)), dtype=float)]
            sca_i = [float(earth.density(r)) for r in ri]
        except Exception as e:      # noqa: BLE001
            run.note_broken("correspondence: density of %s on integer input raised %s: %s" % (name, type(e).__name__, str(e)[:150]))
            ok = False
            continue
        if arr_i != sca_i:
            bad = [(r, a, s_) for r, a, s_ in zip(ri, arr_i, sca_i) if a != s_][:3]
            run.note_broken("correspondence: density int scalar/int array disagree for %s: %s" % (name, bad))
            ok = False
        reqs.append("density %s %s" % (name, fw.fl([float(r) for r in ri])))
        checks.append(("density", name, [float(r) for r in ri], arr_i))
    # ---- slant depth
    maxnodes = run.scale(4e4, 1.5e5)
    for name, earth in ms.items():
        for ep, d, step, kind in slant_cases(run, run.scale(110, 1200)):
            step = bound_step(earth.earth_radius, ep, d, step, maxnodes)
            impl, err = slant(earth, ep, d, step)
            if err:
                run.note_broken("correspondence: slant_depth(%s, %s, %r) raised %s" % (ep, d, step, err))
                ok = False
                continue
            reqs.append("slant %s %s" % (name, fw.fl(ep + d + [step])))
            checks.append(("slant", name, (ep, d, step, kind), impl))
    replies = fw.run_driver("C15", reqs)
    for rq, (op, name, arg, impl), rp in zip(reqs, checks, replies):
        if rp == "bad-op":
            run.note_broken("correspondence: model rejected %s" % rq[:80])
            ok = False
            continue
        if op == "consts":
            earth = arg
            parts = [fw.unfl(p.split()) for p in rp.split("|")]
            rb = [0.0] + [float(x) for x in earth.radii]
            want = [[float(earth.earth_radius)]] + [[lo, hi] for lo, hi in zip(rb[:-1], rb[1:])]
            got = [parts[0]] + [p[:2] for p in parts[1:]]
            run.case(("consts", name), sample={"model": name, "radius": parts[0], "shells": len(parts) - 1})
            if got != want or len(parts) - 1 != len(earth.densities):
                ok = False
                run.note_broken("correspondence: shell table of %s: model %s impl %s" % (name, got, want))
            else:
                run.traces += 1
            continue
        if op == "density":
            got = fw.unfl(rp.split())
            for r, g, s in zip(arg, got, impl):
                run.case(("density", name, r), nontrivial=s != 0)
                run.count("density_" + ("zero" if s == 0 else "inside"))
                if fw.close(g, s, 1e-12, 0.0):
                    run.traces += 1
                else:
                    ok = False
                    run.note_broken("correspondence: density %s r=%r model=%r impl=%r" % (name, r, g, s))
            continue
        ep, d, step, kind = arg
        tot, n, rho_last, w_last = fw.unfl(rp.split())
        crust = float(ms[name].densities[-1])
        alt = tot + w_last * crust if rho_last == 0 else tot - w_last * rho_last
        run.case(("slant", name, tuple(ep), tuple(d), step), nontrivial=impl > 0,
                 sample={"model": name, "endpoint": ep, "direction": d, "step": step, "impl": impl, "lean": tot,
                         "nodes": n})
        run.count("slant_" + kind)
        run.count("slant_" + ("zero" if impl == 0 else "positive"))
        if fw.close(tot, impl, 1e-9, 1e-9):
            run.traces += 1
        elif n >= 2 and fw.close(alt, impl, 1e-9, 1e-9):
            run.traces += 1
            run.count("slant_exit_node_other_rounding")
        else:
            ok = False
            run.note_broken("correspondence: slant_depth %s endpoint=%s direction=%s step=%r model=%r (exit-node "
                            "alternative %r, nodes %d) impl=%r" % (name, ep, d, step, tot, alt, int(n), impl))
    return ok


# ------------------------------------------------------------------------------------------------
# property-level oracles on the implementation alone
def chord_segments(name, ep, d):
    """-> (dist, dot, e2, breaks) for the reference sphere; breaks = sorted parameters in [0, dist] where the
    reference density can change form (shell crossings, closest approach)"""
    ref = REF[name]
    R = ref["R"]
    e = np.array([ep[0], ep[1], ep[2] + R], float)
    u = unit(d)
    dot = float(e @ u)
    e2 = float(e @ e)
    disc = dot * dot - e2 + R * R
    if disc <= 0:
        return 0.0, dot, e2, []
    dist = -dot + math.sqrt(disc)
    if dist <= 0:
        return 0.0, dot, e2, []
    br = {0.0, dist}
    if 0 < -dot < dist:
        br.add(-dot)
    for b in ref["bounds"][1:]:
        dd = dot * dot - e2 + b * b
        if dd > 0:
            for s in (-dot - math.sqrt(dd), -dot + math.sqrt(dd)):
                if 0 < s < dist:
                    br.add(s)
    return dist, dot, e2, sorted(br)


def ref_column(name, ep, d):
    """(integral of the reference density along the chord [g/cm^2], total variation of the density along it
    including the drop to 0 at the exit, chord length)"""
    from scipy.integrate import quad
    dist, dot, e2, br = chord_segments(name, ep, d)
    if dist == 0:
        return 0.0, 0.0, 0.0
    rad = lambda s: math.sqrt(max(0.0, e2 + 2 * s * dot + s * s))
    total, var, prev_end = 0.0, 0.0, None
    for a, b in zip(br[:-1], br[1:]):
        if b - a <= 0:
            continue
        mid = 0.5 * (a + b)
        rm = rad(mid)
        # the shell of the whole open segment is the shell of its midpoint
        ref = REF[name]
        sh = None
        for i in range(len(ref["bounds"]) - 1):
            if ref["bounds"][i] <= rm < ref["bounds"][i + 1]:
                sh = i
        if sh is None:
            f = lambda s: 0.0
        else:
            cs = ref["polys"][sh]
            f = lambda s, cs=cs: sum(c * (rad(s) / ref["R"]) ** k for k, c in enumerate(cs))
        val, _ = quad(f, a, b, epsabs=0, epsrel=1e-11, limit=200)
        total += val
        ss = np.linspace(a, b, 65)
        fs = np.array([f(s) for s in ss])
        var += float(np.abs(np.diff(fs)).sum())
        if prev_end is not None:
            var += abs(fs[0] - prev_end)
        elif rad(0.0) >= REF[name]["R"] * (1 - 1e-12):
            var += abs(fs[0])            # start node on (or outside) the sphere: it is given density 0
        prev_end = fs[-1]
    var += abs(prev_end or 0.0)          # exit: density drops to 0 outside
    return 100 * total, var, dist


def n_nodes(dist, step):
    n = int(dist / step)
    if dist % step:
        n += 1
    return n


def check_column(run, name, earth, ep, d, step):
    """|slant_depth - reference integral| <= h * V / 2 (trapezoid rule on a function of total variation V)"""
    I, V, dist = ref_column(name, ep, d)
    T, err = slant(earth, ep, d, step)
    if err:
        run.fail_input("column", {"model": name, "endpoint": ep, "direction": d, "step": step}, observed=err,
                       expected={"integral": I}, what="slant_depth raised")
        return T, I, 0.0
    if dist == 0:
        if T != 0:
            run.fail_input("zero-case", {"model": name, "endpoint": ep, "direction": d, "step": step}, observed=T,
                           expected=0, what="slant depth of a chord that does not enter the Earth is not 0")
        return T, I, 0.0
    n = n_nodes(dist, step)
    if n < 2:
        bound = I * (1 + 1e-9) + 1e-6      # chord shorter than one step: excluded by the property
    else:
        h = dist / (n - 1)
        bound = 100 * h * V / 2 * (1 + 1e-6) + 1e-9 * I + 1e-6
    if not abs(T - I) <= bound:
        run.fail_input("column", {"model": name, "endpoint": ep, "direction": d, "step": step}, observed=T,
                       expected={"integral": I, "allowed_error": bound, "chord": dist, "nodes": n},
                       what="slant depth differs from the line integral of the reference density by more than the "
                            "trapezoid discretisation bound h*V/2")
    return T, I, bound


def dens(obj, arg):
    """the implementation's density; an exception is returned as text"""
    try:
        return obj.density(arg), None
    except Exception as e:      # noqa: BLE001 - any failure of the implementation is a finding
        return None, "%s: %s" % (type(e).__name__, str(e)[:200])


def check_density(run, name, earth, rs):
    arr, err = dens(earth, np.array(rs))
    if err or np.shape(arr) != (len(rs),):
        run.fail_input("density", {"model": name, "r": list(rs)}, observed=err or "shape %s" % (np.shape(arr),),
                       what="density of a float64 array raised / returned another shape")
        return
    for r, a in zip(rs, arr):
        want = ref_density(name, r)
        sv, err = dens(earth, r)
        if err or np.shape(sv) != ():
            run.fail_input("density", {"model": name, "r": r}, observed=err or "shape %s" % (np.shape(sv),),
                           what="density of a scalar raised / did not return a scalar")
            return
        s = float(sv)
        if not (fw.close(float(a), want, 1e-12, 0.0) and s == float(a)):
            run.fail_input("density", {"model": name, "r": r}, observed={"array": float(a), "scalar": s},
                           expected=want, what="density is not the reference shell value (or scalar != array)")


def check_arguments_untouched(run, name, earth, ep, d, step, rs):
    """caller-owned float64 arrays handed to slant_depth / density must come back unchanged, the result must not
    depend on handing over arrays instead of lists, and a second call with the very same objects must agree"""
    epa, da, ra = np.array(ep, dtype=float), np.array(d, dtype=float), np.array(rs, dtype=float)
    ep0, d0, r0 = epa.copy(), da.copy(), ra.copy()
    T_list, e0 = slant(earth, list(ep), list(d), step)
    T1, e1 = slant(earth, epa, da, step)
    T2, e2 = slant(earth, epa, da, step)
    out, e3 = dens(earth, ra)
    out2, e4 = dens(earth, ra)
    bad = []
    if e0 or e1 or e2 or e3 or e4:
        bad.append("raised: %s" % (e0 or e1 or e2 or e3 or e4))
    else:
        if not (np.array_equal(epa, ep0) and np.array_equal(da, d0)):
            bad.append("slant_depth modified the caller's endpoint/direction array")
        if not np.array_equal(ra, r0):
            bad.append("density modified the caller's radius array")
        if not (T1 == T_list and T2 == T1):
            bad.append("slant_depth differs between list / array / repeated call: %r %r %r" % (T_list, T1, T2))
        if not np.array_equal(np.asarray(out), np.asarray(out2)) or np.shares_memory(np.asarray(out), ra):
            bad.append("density result differs on repetition or shares memory with its argument")
    if bad:
        run.fail_input("arguments", {"model": name, "endpoint": list(ep), "direction": list(d), "step": step, "radii": list(rs)},
                       observed={"endpoint_after": [float(x) for x in epa], "direction_after": [float(x) for x in da]},
                       what="; ".join(bad))


INPUT_CLASSES = ("int", "npint64", "list_int", "tuple_int", "array_int64", "array_int32", "list_float", "tuple_float",
                 "array_float32", "zero_d_float", "zero_d_int", "mixed_list", "nested_2d_int")


def as_class(cls, vals):
    """the same radii presented as another input class -> (argument, float64 values it denotes, rel tolerance)"""
    iv = [int(v) for v in vals]
    if cls == "int":
        return iv[0], [float(iv[0])], 1e-12
    if cls == "npint64":
        return np.int64(iv[0]), [float(iv[0])], 1e-12
    if cls == "list_int":
        return list(iv), [float(v) for v in iv], 1e-12
    if cls == "tuple_int":
        return tuple(iv), [float(v) for v in iv], 1e-12
    if cls == "array_int64":
        return np.array(iv, dtype=np.int64), [float(v) for v in iv], 1e-12
    if cls == "array_int32":
        return np.array(iv, dtype=np.int32), [float(v) for v in iv], 1e-12
    if cls == "list_float":
        return [float(v) for v in vals], [float(v) for v in vals], 1e-12
    if cls == "tuple_float":
        return tuple(float(v) for v in vals), [float(v) for v in vals], 1e-12
    if cls == "array_float32":
        a = np.array(vals, dtype=np.float32)
        return a, [float(v) for v in a], 2e-6          # evaluated in single precision
    if cls == "zero_d_float":
        return np.array(float(vals[0])), [float(vals[0])], 1e-12
    if cls == "zero_d_int":
        return np.array(iv[0]), [float(iv[0])], 1e-12
    if cls == "mixed_list":
        m = [iv[i] if i % 2 == 0 else float(vals[i]) for i in range(len(vals))]
        return m, [float(v) for v in m], 1e-12
    if cls == "nested_2d_int":
        k = len(iv) // 2 * 2
        return np.array(iv[:k], dtype=np.int64).reshape(2, k // 2), [float(v) for v in iv[:k]], 1e-12
    raise ValueError(cls)


def check_density_inputs(run, name, earth, vals, cls):
    """density must be the reference value whatever the type the radius comes in: Python int, list, tuple, integer
    / float32 / 0-d arrays ...; compared with the reference profile and with the float64 scalar evaluation"""
    arg, f64, tol = as_class(cls, vals)
    inp = {"model": name, "class": cls, "radii": [float(v) for v in vals]}
    try:
        out = earth.density(arg)
    except Exception as e:      # noqa: BLE001
        run.fail_input("density-input", inp, observed="%s: %s" % (type(e).__name__, e), what="density raised on %s input" % cls)
        return
    if np.shape(out) != np.shape(arg):
        run.fail_input("density-input", inp, observed="shape %s for input shape %s" % (np.shape(out), np.shape(arg)),
                       what="density of %s input does not have the shape of its argument" % cls)
        return
    flat = [float(x) for x in np.asarray(out, dtype=float).ravel()]
    if len(flat) != len(f64):
        run.fail_input("density-input", inp, observed=flat, what="density returns %d values for %d radii" % (len(flat), len(f64)))
        return
    for r, got in zip(f64, flat):
        want = ref_density(name, r)
        sv, serr = dens(earth, float(r))
        sca = float("nan") if serr or np.shape(sv) != () else float(sv)
        if not (fw.close(got, want, tol, 0.0) and fw.close(got, sca, tol, 0.0)):
            run.fail_input("density-input", inp, observed={"r": r, "value": got, "float64_scalar": sca,
                                                          "dtype": str(getattr(out, "dtype", type(out).__name__))},
                           expected=want, what="density of a radius given as %s differs from the reference profile / "
                                               "from the float64 scalar evaluation" % cls)
            return


def check_slant_inputs(run, name, earth, ep, d, step, cls):
    """slant_depth with integer-valued endpoint / direction / step given as ints, lists, tuples, integer arrays"""
    epi, di, st = [int(x) for x in ep], [int(x) for x in d], int(step)
    ref, err = slant(earth, [float(x) for x in epi], [float(x) for x in di], float(st))
    mk = {"list_int": list, "tuple_int": tuple, "array_int64": lambda v: np.array(v, dtype=np.int64),
          "array_int32": lambda v: np.array(v, dtype=np.int32), "array_float32": lambda v: np.array(v, dtype=np.float32)}[cls]
    got, err2 = slant(earth, mk(epi), mk(di), st)
    tol = 1e-5 if cls == "array_float32" else 1e-12
    if err2 or not fw.close(got, ref, tol, 0.0):
        run.fail_input("slant-input", {"model": name, "class": cls, "endpoint": epi, "direction": di, "step": st},
                       observed=err2 or got, expected=ref,
                       what="slant_depth of integer-valued arguments given as %s differs from the float64 call" % cls)


def column_ok(name, ep, d, step, T):
    """is T within the trapezoid bound of the reference integral for this model?"""
    I, V, dist = ref_column(name, ep, d)
    if dist == 0:
        return T == 0, I, 0.0
    n = n_nodes(dist, step)
    if n < 2:
        bound = I * (1 + 1e-9) + 1e-6
    else:
        bound = 100 * (dist / (n - 1)) * V / 2 * (1 + 1e-6) + 1e-9 * I + 1e-6
    return abs(T - I) <= bound, I, bound


def check_state_reuse(run, history):
    """a HISTORY of calls on model objects that live across the calls (both Earth models, the module-level `earth`,
    a second PREM instance; same chord asked of several models, repeated, with another step): every single answer must
    be the line integral of ITS model's profile (within the discretisation bound) and must equal what a freshly
    constructed object of that class returns for a chord shifted by nothing - state from earlier calls must not leak.
    history = [(object key, endpoint, direction, step)], object keys: prem, cmc, prem2, module"""
    import pyrex.earth_model as em
    objs = {"prem": em.PREM(), "cmc": em.CoreMantleCrustModel(), "prem2": em.PREM(), "module": em.earth}
    model_of = {"prem": "prem", "prem2": "prem", "module": "prem", "cmc": "cmc"}
    for k, (key, ep, d, step) in enumerate(history):
        T, err = slant(objs[key], ep, d, step)
        ok, I, bound = (False, None, None) if err else column_ok(model_of[key], ep, d, step, T)
        probe = [0.0, 0.3 * REF[model_of[key]]["R"], 0.6 * REF[model_of[key]]["R"], REF[model_of[key]]["R"] - 1.0,
                 REF[model_of[key]]["R"]]
        dv, derr = dens(objs[key], np.array(probe))
        dens_ok = derr is None and np.shape(dv) == (len(probe),) and all(
            fw.close(float(a), ref_density(model_of[key], r), 1e-12, 0.0) for a, r in zip(dv, probe))
        dvals = derr or [float(x) for x in np.asarray(dv).ravel()]
        if not (ok and dens_ok):
            run.fail_input("state-reuse", {"model": model_of[key], "history": [[a, list(b), list(c), e] for a, b, c, e in history[:k + 1]]},
                           observed=err or {"call": k, "object": key, "slant_depth": T, "densities": dvals},
                           expected={"integral_of_this_model": I, "allowed_error": bound},
                           what="after earlier calls on this or another Earth-model object, slant_depth/density no longer "
                                "equal the profile of the model that was asked")
            return


def check_bad_step(run, name, earth, ep, d, step):
    """a step that is zero, negative or NaN cannot define a grid: the call must be rejected with an exception (the
    code raises OverflowError / ValueError) and must never answer with a number"""
    T, err = slant(earth, ep, d, step)
    I, V, dist = ref_column(name, ep, d)
    if dist > 0 and err is None:
        run.fail_input("bad-step", {"model": name, "endpoint": list(ep), "direction": list(d), "step": repr(step)}, observed=T,
                       what="slant_depth answered with a number for a step that is zero / negative / NaN")


def check_results_owned(run, key, ra, rb, ep, d, step):
    """RETURNED ARRAYS BELONG TO THE CALLER: a density result kept alive must not be rewritten by a later density call
    of the same shape or by a slant_depth whose chord has as many samples, on the same (possibly process-wide) object;
    scribbling on a result must not change later answers.  1-d, 2-d and list inputs.  key: prem | cmc | module"""
    import pyrex.earth_model as em
    obj = {"prem": em.PREM(), "cmc": em.CoreMantleCrustModel(), "module": em.earth}[key]
    name = "cmc" if key == "cmc" else "prem"
    inp = {"model": name, "object": key, "radii_a": [float(x) for x in ra], "radii_b": [float(x) for x in rb],
           "endpoint": list(ep), "direction": list(d), "step": step}
    want_a = [ref_density(name, float(r)) for r in ra]
    want_b = [ref_density(name, float(r)) for r in rb]
    k2 = len(ra) // 2 * 2
    forms = (("1-d array", np.array(ra, float), np.array(rb, float), want_a, want_b),
             ("list", [float(x) for x in ra], [float(x) for x in rb], want_a, want_b),
             ("2-d array", np.array(ra[:k2], float).reshape(2, -1), np.array(rb[:k2], float).reshape(2, -1), want_a[:k2], want_b[:k2]))
    for form, a, b, wa, wb in forms:
        d1, e1 = dens(obj, a)
        if e1:
            run.fail_input("results-owned", inp, observed=e1, what="density raised"); return
        keep = np.array(d1, dtype=float, copy=True)
        d2, e2 = dens(obj, b)                         # same shape, same object
        T, e3 = slant(obj, ep, d, step)               # a chord with len(ra) samples
        bad = None
        if e2 or e3:
            bad = "raised: %s" % (e2 or e3)
        elif not np.array_equal(np.asarray(d1, float), keep):
            bad = "a density result kept by the caller was rewritten by a later call (%s input)" % form
        elif not fw.all_close(np.asarray(keep, float).ravel(), wa, 1e-12, 0.0) or not fw.all_close(np.asarray(d2, float).ravel(), wb, 1e-12, 0.0):
            bad = "density values wrong (%s input)" % form
        else:
            try:
                np.asarray(d2)[...] = -1.0            # the caller scribbles on its result
            except (ValueError, TypeError):
                pass
            d3, e4 = dens(obj, b)
            T2, e5 = slant(obj, ep, d, step)
            if e4 or e5 or not fw.all_close(np.asarray(d3, float).ravel(), wb, 1e-12, 0.0) or T2 != T:
                bad = "after the caller wrote into a returned array, later density / slant_depth answers changed (%s input)" % form
        if bad:
            run.fail_input("results-owned", inp, observed=bad, what=bad)
            return


def rotz(v, a):
    c, s = math.cos(a), math.sin(a)
    return [c * v[0] - s * v[1], s * v[0] + c * v[1], v[2]]


def check_invariance(run, name, earth, ep, d, step, angle, k):
    T = slant(earth, ep, d, step)[0]
    crust = REF[name]["polys"][-1][0]
    L = chord_length(REF[name]["R"], ep, d) or 0.0
    n = n_nodes(L, step) if L > 0 else 0
    h = L / (n - 1) if n >= 2 else 0.0                                  # actual node spacing (>= step)
    slack = h * crust * 100 / 2 * (1 + 1e-6) + 1e-9 * abs(T) + 1e-6      # the exit node may round either way
    T2 = slant(earth, rotz(ep, angle), rotz(d, angle), step)[0]
    if not abs(T - T2) <= slack:
        run.fail_input("azimuth", {"model": name, "endpoint": ep, "direction": d, "step": step, "angle": angle},
                       observed=[T, T2], what="slant depth changes under a joint rotation about the vertical axis")
    T3 = slant(earth, ep, [k * x for x in d], step)[0]
    if not abs(T - T3) <= slack:
        run.fail_input("scale", {"model": name, "endpoint": ep, "direction": d, "step": step, "k": k},
                       observed=[T, T3], what="slant depth depends on the length of the direction vector")


SCALE_FACTORS = (1e-8, 1e-9, 1e-12, 1e-30, 1e-100, 1e-150, 1e8, 1e30, 1e100, 1e150)


def check_scale_range(run, name, earth, ep, d, step, ks):
    """"independent of the length of the direction vector" over many decades: k*u for a unit vector u and factors from
    1e-150 to 1e150 (a NON-zero vector far below / above any would-be tolerance) must give the unit-vector result"""
    u = [float(x) for x in unit(d)]
    T = slant(earth, ep, u, step)[0]
    crust = REF[name]["polys"][-1][0]
    L = chord_length(REF[name]["R"], ep, u) or 0.0
    n = n_nodes(L, step) if L > 0 else 0
    h = L / (n - 1) if n >= 2 else 0.0
    slack = h * crust * 100 / 2 * (1 + 1e-6) + 1e-9 * abs(T) + 1e-6      # the exit node may round either way
    for k in ks:
        Tk, err = slant(earth, ep, [k * x for x in u], step)
        if err or not abs(T - Tk) <= slack:
            run.fail_input("scale-range", {"model": name, "endpoint": list(ep), "direction": u, "step": step, "k": k},
                           observed=err or [T, Tk], what="slant depth for the direction k*u (k = %g) differs from that for the "
                                                         "unit vector u" % k)
            return


def check_dip_sweep(run, name, earth, ep, phi, step, dips):
    prev = None
    for dip in dips:
        th = math.radians(dip)
        d = [math.cos(th) * math.cos(phi), math.cos(th) * math.sin(phi), -math.sin(th)]
        T, I, bound = check_column(run, name, earth, ep, d, step)
        if prev is not None and not T >= prev[0] - bound - prev[2]:
            run.fail_input("dip-sweep", {"model": name, "endpoint": ep, "phi": phi, "step": step,
                                         "dips": [prev[1], dip]}, observed=[prev[0], T],
                           what="slant depth decreases as the chord dips deeper (beyond the discretisation error)")
        prev = (T, dip, bound)


def search(run, deep):
    ms = models()
    rng = run.rng
    mult = 12 if deep else 1
    # --- state kept across calls: the same chords asked of several long-lived objects, in varying order
    for rep in range(6 * mult):
        chords = []
        for ep, d, step, kind in slant_cases(run, 6):
            if kind in ("zero", "up"):
                continue
            chords.append((ep, d, max(step, 50.0)))
        hist = []
        for ep, d, step in chords:
            keys = rng.sample(["prem", "cmc", "prem2", "module"], 4)
            step = bound_step(REF["cmc"]["R"], ep, d, step, 5e4)
            for key in keys[:rng.randint(2, 4)]:
                hist.append((key, ep, d, step))
            if rng.random() < 0.5:
                hist.append((keys[0], ep, d, step))            # asked again
            if rng.random() < 0.5:
                hist.append((keys[1], ep, d, step * 2))        # same chord, other step
        run.case(("oracle-state-reuse", len(hist), tuple(h[0] for h in hist)))
        run.count("state_reuse_calls", len(hist))
        check_state_reuse(run, hist)
    # --- returned arrays belong to the caller
    for rep in range(4 * mult):
        key = rng.choice(["prem", "cmc", "module"])
        R = REF["cmc" if key == "cmc" else "prem"]["R"]
        ep = [rng.uniform(-2e4, 2e4), rng.uniform(-2e4, 2e4), -rng.uniform(1, 3000)]
        th = math.radians(rng.uniform(1, 12)); ph = rng.uniform(0, 2 * math.pi)
        d = [math.cos(th) * math.cos(ph), math.cos(th) * math.sin(ph), -math.sin(th)]
        L = chord_length(R, ep, d) or 0.0
        step = max(L / rng.randint(8, 60), 50.0)
        n = max(n_nodes(L, step), 4)
        ra = [rng.uniform(0, 1.02 * R) for _ in range(n)]
        rb = [rng.uniform(0, 1.02 * R) for _ in range(n)]
        run.case(("oracle-results-owned", key, n, tuple(ep)))
        check_results_owned(run, key, ra, rb, ep, d, step)
    for name, earth in ms.items():
        check_density(run, name, earth, radii_cases(run, name, earth))
        run.case(("oracle-density", name))
        bnds = [0] + [int(x) for x in earth.radii]
        for cls in INPUT_CLASSES:
            for rep in range(2 * mult):
                vals = [rng.choice(bnds)] + [rng.randrange(0, int(earth.earth_radius * 1.02)) for _ in range(7)]
                vals = [float(v) + (0.0 if "int" in cls or cls == "mixed_list" else rng.random()) for v in vals]
                run.case(("oracle-density-input", name, cls, tuple(vals)))
                run.count("density_input_" + cls)
                check_density_inputs(run, name, earth, vals, cls)
        # (float32 endpoints are not compared: earth_radius + z is then formed in single precision, 0.5 m resolution)
        for cls in ("list_int", "tuple_int", "array_int64", "array_int32"):
            for rep in range(mult):
                ep = [rng.randrange(-20000, 20000), rng.randrange(-20000, 20000), -rng.randrange(0, 3000)]
                d = [rng.randrange(-5, 6), rng.randrange(-5, 6), rng.randrange(-5, 1)]
                if not any(d):
                    d = [0, 0, -1]
                run.case(("oracle-slant-input", name, cls, tuple(ep), tuple(d)))
                run.count("slant_input_" + cls)
                check_slant_inputs(run, name, earth, ep, d, rng.choice([100, 500, 1000]), cls)
        for ep, d, step, kind in slant_cases(run, 40 * mult):
            if kind == "zero":
                continue
            step = bound_step(earth.earth_radius, ep, d, step, 2e5)
            run.case(("oracle-column", name, tuple(ep), tuple(d), step))
            check_column(run, name, earth, ep, d, step)
            if rng.random() < 0.3:
                run.case(("oracle-arguments", name, tuple(ep), tuple(d), step))
                check_arguments_untouched(run, name, earth, ep, d, max(step, 100.0),
                                          [rng.uniform(0, 1.05 * earth.earth_radius) for _ in range(5)])
            check_invariance(run, name, earth, ep, d, max(step, 20.0), rng.uniform(0, 2 * math.pi),
                             10 ** rng.uniform(-2, 2))
        for i in range(3 * mult):
            ep = [rng.uniform(-2e4, 2e4), rng.uniform(-2e4, 2e4), -rng.uniform(1, 3000)]
            dips = sorted(rng.uniform(0.5, 90) for _ in range(10))
            run.case(("oracle-dip", name, tuple(ep)))
            check_dip_sweep(run, name, earth, ep, rng.uniform(0, 2 * math.pi), rng.choice([200.0, 500.0, 1000.0]), dips)
        # direction length over 300 decades
        for rep in range(3 * mult):
            ep = [rng.uniform(-2e4, 2e4), rng.uniform(-2e4, 2e4), -rng.uniform(1, 3000)]
            th = math.radians(rng.uniform(2, 90)); ph = rng.uniform(0, 2 * math.pi)
            d = [math.cos(th) * math.cos(ph), math.cos(th) * math.sin(ph), -math.sin(th)]
            ks = list(SCALE_FACTORS) + [10 ** rng.uniform(-150, 150) for _ in range(4)]
            run.case(("oracle-scale-range", name, tuple(ep), tuple(d)))
            check_scale_range(run, name, earth, ep, d, 500.0, ks)
        # steps that define no grid must be rejected; full-resolution chords (no cap on the node count) in the deep run
        for bad in (0.0, -500.0, float("nan")):
            ep = [rng.uniform(-2e4, 2e4), rng.uniform(-2e4, 2e4), -rng.uniform(1, 3000)]
            run.case(("oracle-bad-step", name, repr(bad)))
            check_bad_step(run, name, earth, ep, [0.3, 0.1, -1.0], bad)
        if run.thorough():
            ep = [rng.uniform(-2e4, 2e4), rng.uniform(-2e4, 2e4), -rng.uniform(1, 3000)]
            run.case(("oracle-column-fullres", name, tuple(ep)))
            check_column(run, name, earth, ep, [0.05, 0.02, -1.0], 5.0)
        # convergence as the step shrinks
        for i in range(2 * mult):
            ep = [rng.uniform(-2e4, 2e4), rng.uniform(-2e4, 2e4), -rng.uniform(1, 3000)]
            th = math.radians(rng.uniform(0.2, 20)); ph = rng.uniform(0, 2 * math.pi)
            d = [math.cos(th) * math.cos(ph), math.cos(th) * math.sin(ph), -math.sin(th)]
            for step in (2000.0, 500.0, 100.0, 20.0):
                step = bound_step(earth.earth_radius, ep, d, step, 2e5)
                run.case(("oracle-converge", name, tuple(ep), step))
                check_column(run, name, earth, ep, d, step)


def replay(run, data):
    ms = models()
    i = data["input"]
    name = i["model"]
    earth = ms[name]
    k = data.get("kind")
    if k == "density":
        check_density(run, name, earth, [i["r"]])
    elif k == "results-owned":
        check_results_owned(run, i["object"], i["radii_a"], i["radii_b"], i["endpoint"], i["direction"], i["step"])
    elif k == "scale-range":
        check_scale_range(run, name, earth, i["endpoint"], i["direction"], i["step"], [i["k"]])
    elif k == "bad-step":
        check_bad_step(run, name, earth, i["endpoint"], i["direction"], float(i["step"]))
    elif k == "arguments":
        check_arguments_untouched(run, name, earth, i["endpoint"], i["direction"], i["step"], i["radii"])
    elif k == "state-reuse":
        check_state_reuse(run, [(a, b, c, e) for a, b, c, e in i["history"]])
    elif k == "density-input":
        check_density_inputs(run, name, earth, i["radii"], i["class"])
    elif k == "slant-input":
        check_slant_inputs(run, name, earth, i["endpoint"], i["direction"], i["step"], i["class"])
    elif k in ("column", "zero-case"):
        check_column(run, name, earth, i["endpoint"], i["direction"], i["step"])
    elif k == "azimuth":
        check_invariance(run, name, earth, i["endpoint"], i["direction"], i["step"], i["angle"], 1.0)
    elif k == "scale":
        check_invariance(run, name, earth, i["endpoint"], i["direction"], i["step"], 0.0, i["k"])
    elif k == "dip-sweep":
        check_dip_sweep(run, name, earth, i["endpoint"], i["phi"], i["step"], i["dips"])
    else:
        search(run, True)
