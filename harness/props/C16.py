"""C16 - ice models are self-consistent.  Float twin of lean/twin/Ice.body against pyrex.ice_model."""
import math

import numpy as np

import framework as fw

LEVEL = "proof"
USE_TWINS = True
EXTRACTORS = ["ice_consts"]
TECHNIQUE = "Lean 4 theorems over the real-number reading of a twin model + Float-twin differential run"
RULE = ("shipped ices (Antarctic, Arasim, Greenland) and random (n0,k,a,range,index_above/below) x depths "
        "from above the surface to below the range incl. the exact bounds and bound +- ulp x index values "
        "across and outside the range; a case is non-trivial when the ice is exponential with k,a>0; distinct "
        "= distinct (ice, op, argument) tuples")
LEVEL_TEXT = ("theorems (index outside/inside, strict monotonicity, inverse both ways with clamping, gradient = "
              "derivative; attenuation positivity for all three models incl. the extracted AraSim table, matrix = scalar "
              "entries, uniform ice, layer dispatch partition) proved over R for every parameter set with k,a>0; the same model text run on Float "
              "agrees with pyrex.ice_model on every sampled input")
LEVEL_NOTE = ("floating-point rounding is not modelled (tolerance run); depth_with_index is compared only where "
              "the index is distinguishable from n0 (|n0-n| >= 1e-9); attenuation positivity is proved for every depth and "
              "frequency for the Antarctic and Greenland models and for the AraSim table down to -3171 m "
              "(C16_atten_arasim_pos, C16_atten_arasim_pos_extended); below -3172 m the AraSim length is NEGATIVE in model "
              "and code alike (C16_atten_arasim_negative_far_below_range) - known finding K20, not a _partial theorem")


def ices(run):
    import pyrex
    from pyrex.ice_model import AntarcticIce, ArasimIce, GreenlandIce
    out = [("antarctic", AntarcticIce()), ("arasim", ArasimIce()), ("greenland", GreenlandIce())]
    for i in range(run.scale(6, 40)):
        n0 = run.rng.uniform(1.3, 2.2)
        k = run.rng.uniform(0.05, n0 - 1.01)
        a = 10 ** run.rng.uniform(-3, -1)
        lo = -run.rng.uniform(100, 4000)
        hi = run.rng.choice([0.0, 0.0, -run.rng.uniform(0, 50)])
        ab = run.rng.choice([1, None, run.rng.uniform(1, 1.3)])
        be = run.rng.choice([None, None, run.rng.uniform(1.5, 2.5)])
        out.append(("random", AntarcticIce(n0=n0, k=k, a=a, valid_range=(lo, hi), index_above=ab, index_below=be)))
    return out


def ice_toks(ice):
    opt = lambda v: "-" if v is None else str(fw.f2b(v))
    return "%s %s %s" % (fw.fl([ice.n0, ice.k, ice.a, ice.valid_range[0], ice.valid_range[1]]),
                         opt(ice._index_above), opt(ice._index_below))


def depths(run, ice):
    lo, hi = ice.valid_range
    zs = [lo, hi, np.nextafter(lo, -np.inf), np.nextafter(lo, np.inf), np.nextafter(hi, np.inf),
          np.nextafter(hi, -np.inf), lo - 10, hi + 10, 0.5 * (lo + hi)]
    zs += [run.rng.uniform(lo - 100, hi + 100) for _ in range(12)]
    return [float(z) for z in zs]


def correspondence(run):
    reqs, expect, descs = [], [], []
    for name, ice in ices(run):
        it = ice_toks(ice)
        zs = depths(run, ice)
        run.count("ice_" + name)
        # index: array call and scalar calls must agree with each other and with the model
        arr = [float(v) for v in ice.index(np.array(zs))]
        sca = [float(ice.index(z)) for z in zs]
        if arr != sca:
            bad = [z for z, a_, s_ in zip(zs, arr, sca) if a_ != s_]
            run.fail_input("index-scalar-array", {"ice": name, "params": [ice.n0, ice.k, ice.a, list(ice.valid_range),
                                                                    ice._index_above, ice._index_below], "depths": bad},
                           observed={"array": [a_ for a_, s_ in zip(arr, sca) if a_ != s_], "scalar": [s_ for a_, s_ in zip(arr, sca) if a_ != s_]},
                           what="index(array) != index(scalar) at depth(s) %s" % bad[:3])
            run.note_broken("correspondence: index scalar/array disagree for %s at %s" % (name, bad[:3]))
            return False
        reqs.append("index %s %s" % (it, fw.fl(zs))); expect.append(sca); descs.append((name, "index", tuple(zs)))
        reqs.append("gradient %s %s" % (it, fw.fl(zs)))
        expect.append([float(ice.gradient(z)[2]) for z in zs]); descs.append((name, "gradient", tuple(zs)))
        nlo, nhi = float(ice.index(ice.valid_range[0])), float(ice.index(ice.valid_range[1]))
        ns = [nlo, nhi, nlo + 0.1, nhi - 0.1] + [run.rng.uniform(nhi - 0.05, nlo + 0.05) for _ in range(10)]
        ns = [n for n in ns if abs(ice.n0 - n) >= 1e-9 and n < ice.n0]
        # indices at and beyond the asymptote are clamped to the lower edge of the range
        ns += [v for v in [float(ice.n0), float(np.nextafter(ice.n0, np.inf)), ice.n0 + 0.01, ice.n0 + 1.0] if v > nlo]
        ns += [0.5, 1.0]
        reqs.append("depth %s %s" % (it, fw.fl(ns)))
        expect.append([float(ice.depth_with_index(n)) for n in ns]); descs.append((name, "depth", tuple(ns)))
        arrd = [float(v) for v in ice.depth_with_index(np.array(ns))]
        if not fw.all_close(arrd, expect[-1], 1e-12):
            run.note_broken("correspondence: depth_with_index scalar/array disagree for %s" % name)
            return False
    more_ok = more_requests(run, reqs, expect, descs)
    replies = fw.run_driver("C16", reqs)
    ok = more_ok
    for rq, ex, rp, d in zip(reqs, expect, replies, descs):
        if d[1] == "layer":
            run.case(d, sample={"op": "layer", "stack": d[2][:6], "impl": ex[:6]})
            if rp.split() == ex:
                run.traces += 1
            else:
                ok = False
                run.note_broken("correspondence: layer dispatch %s model=%s impl=%s" % (d[2], rp, ex))
            continue
        if d[1] == "defaults":
            parts = [[None if t == "-" else fw.b2f(t) for t in half.split()] for half in rp.split(" | ")]
            run.case(d, sample={"op": "defaults", "model": parts})
            if parts == ex:
                run.traces += 1
            else:
                ok = False
                run.note_broken("correspondence: shipped default parameters model=%s impl=%s" % (parts, ex))
            continue
        got = fw.unfl(rp.split()) if rp != "bad-op" else None
        run.case(d, nontrivial=True, sample={"ice": d[0], "op": d[1], "args": list(d[2])[:4], "impl": ex[:4]})
        tol = {"depth": 1e-6, "atten": 1e-7, "temp": 1e-9}.get(d[1], 1e-9)
        if got is not None and fw.all_close(got, ex, tol, 1e-9):
            run.traces += 1
        else:
            ok = False
            run.note_broken("correspondence: %s %s args=%s model=%s impl=%s" % (d[0], d[1], list(d[2])[:6],
                                                                                (got or rp)[:6], ex[:6]))
    return ok


def shipped():
    from pyrex.ice_model import AntarcticIce, ArasimIce, GreenlandIce, UniformIce
    return [("antarctic", AntarcticIce()), ("arasim", ArasimIce()), ("greenland", GreenlandIce()),
            ("antarctic", UniformIce(1.6))]   # UniformIce shares AntarcticIce's attenuation


def more_requests(run, reqs, expect, descs):
    """attenuation (all four shapes), temperatures, constructor defaults, UniformIce, LayeredIce"""
    from pyrex.ice_model import AntarcticIce, GreenlandIce, UniformIce
    from pyrex.custom.layered_ice import LayeredIce
    ok = True
    a, g = AntarcticIce(), GreenlandIce()
    o = lambda v: None if v is None else float(v)
    reqs.append("defaults"); descs.append(("shipped", "defaults", ()))
    expect.append([[a.n0, a.k, a.a, a.valid_range[0], a.valid_range[1], o(a._index_above), o(a._index_below)],
                   [g.n0, g.k, g.a, g.valid_range[0], g.valid_range[1], o(g._index_above), o(g._index_below)]])
    for name, ice in shipped():
        lo, hi = ice.valid_range
        for rep in range(run.scale(3, 20)):
            zs = [float(z) for z in [lo, hi] + [run.rng.uniform(lo, hi) for _ in range(run.rng.randint(1, 5))]]
            fs = [1e9, float(np.nextafter(1e9, 0)), 75e6, 3e9] + [10 ** run.rng.uniform(6.5, 9.7) for _ in range(run.rng.randint(1, 4))]
            if rep % 3 == 1:       # length-1 arrays keep their axis
                zs = zs[-1:]
            if rep % 3 == 2:
                fs = fs[-1:]
            za, fa = np.array(zs), np.array(fs)
            mat = np.asarray(ice.attenuation_length(za, fa), dtype=float)
            # the documented shapes, each entry equal to the scalar evaluation
            if mat.shape != (len(zs), len(fs)):
                ok = False; run.note_broken("correspondence: %s attenuation matrix shape %s" % (name, mat.shape))
                run.fail_input("atten-shape", {"ice": name, "depths": zs, "freqs": fs}, observed=list(mat.shape),
                               expected=[len(zs), len(fs)], what="attenuation_length(array, array) has shape %s" % (mat.shape,))
                continue
            row = np.asarray(ice.attenuation_length(zs[0], fa), dtype=float)
            col = np.asarray(ice.attenuation_length(za, fs[0]), dtype=float)
            if row.shape != (len(fs),) or col.shape != (len(zs),):
                ok = False; run.note_broken("correspondence: %s attenuation row/col shape %s %s" % (name, row.shape, col.shape))
                run.fail_input("atten-shape", {"ice": name, "depths": zs, "freqs": fs}, observed=[list(row.shape), list(col.shape)],
                               what="attenuation_length(scalar, array)/(array, scalar) shapes %s %s" % (row.shape, col.shape))
                continue
            for i, z in enumerate(zs):
                for j, f in enumerate(fs):
                    sc = float(ice.attenuation_length(z, f))
                    if not (fw.close(sc, mat[i, j], 1e-12) and (i > 0 or fw.close(sc, row[j], 1e-12))
                            and (j > 0 or fw.close(sc, col[i], 1e-12))):
                        ok = False
                        run.note_broken("correspondence: %s attenuation matrix entry (%d,%d) != scalar evaluation: %r vs %r"
                                        % (name, i, j, float(mat[i, j]), sc))
                        run.fail_input("atten-forms", {"ice": name, "z": z, "f": f},
                                       observed={"scalar": sc, "matrix": float(mat[i, j]), "row": float(row[j]) if i == 0 else None,
                                                 "col": float(col[i]) if j == 0 else None},
                                       what="attenuation_length scalar/row/column/matrix forms disagree at one depth and frequency")
            reqs.append("atten %s %d %s %d %s" % (name, len(zs), fw.fl(zs), len(fs), fw.fl(fs)))
            expect.append([float(v) for v in mat.flatten()]); descs.append((name, "atten", tuple(zs) + tuple(fs)))
            run.count("atten_" + name)
        if name != "arasim":
            zs = [float(run.rng.uniform(lo, hi)) for _ in range(6)]
            reqs.append("temp %s %s" % (name, fw.fl(zs)))
            expect.append([float(ice.temperature(z)) - 273.15 for z in zs]); descs.append((name, "temp", tuple(zs)))
    for rep in range(run.scale(4, 30)):
        # the index may be given as a float, a Python int or a numpy integer/float32 scalar
        n = run.rng.choice([run.rng.uniform(1.2, 1.9), run.rng.uniform(1.2, 1.9), 1, 2, np.int64(1), np.float32(1.5)])
        run.count("uniform_index_type_" + type(n).__name__)
        lo = -run.rng.uniform(50, 3000); hi = run.rng.choice([0.0, -run.rng.uniform(0, 40)])
        ab = run.rng.choice([1, None, 1.1]); be = run.rng.choice([None, 1.9])
        u = UniformIce(index=n, valid_range=(lo, hi), index_above=ab, index_below=be)
        zs = [lo, hi, float(np.nextafter(lo, -np.inf)), float(np.nextafter(hi, np.inf)), lo - 5, hi + 5] + \
             [run.rng.uniform(lo - 10, hi + 10) for _ in range(5)]
        sca = [float(u.index(z)) for z in zs]
        arr_u = [float(v) for v in u.index(np.array(zs))]
        if arr_u != sca or any(u.gradient(z)[2] != 0 for z in zs):
            ok = False; run.note_broken("correspondence: UniformIce scalar/array index disagree or gradient != 0")
            badz = [z_ for z_, a_, s_ in zip(zs, arr_u, sca) if a_ != s_]
            run.fail_input("uniform-scalar-array", {"n": float(n), "n_type": type(n).__name__, "range": [lo, hi], "index_above": ab, "index_below": be, "depths": badz},
                           observed=[a_ for a_, s_ in zip(arr_u, sca) if a_ != s_], expected=[s_ for a_, s_ in zip(arr_u, sca) if a_ != s_],
                           what="UniformIce.index(array) != index(scalar) at depth(s) %s (or a non-zero gradient)" % badz[:3])
        opt = lambda v: "-" if v is None else str(fw.f2b(v))
        reqs.append("uindex %s %s %s %s" % (fw.fl([float(n), lo, hi]), opt(ab), opt(be), fw.fl(zs)))
        expect.append(sca); descs.append(("uniform", "uindex", tuple(zs)))
        run.count("uniform_ice")
    for rep in range(run.scale(6, 40)):
        nl = run.rng.randint(1, 5)
        bounds = sorted({round(-run.rng.uniform(10, 2000), 1) for _ in range(nl)} | {0.0}, reverse=True)
        if len(bounds) < 2:
            continue
        layers = [UniformIce(index=1.3 + 0.1 * i, valid_range=(bounds[i + 1], bounds[i]), index_above=None,
                             index_below=None) if run.rng.random() < 0.5 else
                  AntarcticIce(valid_range=(bounds[i + 1], bounds[i]), index_above=None, index_below=None)
                  for i in range(len(bounds) - 1)]
        run.rng.shuffle(layers)
        if len(layers) >= 3 and run.rng.random() < 0.25:
            # a DISCONNECTED stack: depths inside the gap have no layer (layer_at_depth and index must raise ValueError,
            # the model answers none: C16_layers_no_layer)
            gone = sorted(layers, key=lambda l: -l.valid_range[0])[run.rng.randrange(1, len(layers) - 1)]
            layers = [l for l in layers if l is not gone]
            run.count("layer_stacks_with_gap")
        li = LayeredIce(layers)
        stack = [(l.valid_range[0], l.valid_range[1]) for l in li.layers]
        zs = list(bounds) + [b + 1e-9 for b in bounds] + [run.rng.uniform(bounds[-1] - 5, 5) for _ in range(6)]
        imp = []
        for z in zs:
            try:
                lay = li.layer_at_depth(z)
                imp.append(str(li.layers.index(lay)))
                # index dispatch: the layered index is the containing layer's index
                if li.index(z) != lay.index(z):
                    ok = False; run.note_broken("correspondence: LayeredIce.index(%r) != layer.index" % z)
            except ValueError:
                imp.append("none")
                inside = any(l.valid_range[0] < z <= l.valid_range[1] for l in li.layers)
                above_or_below = z > li.layers[0].valid_range[1] or z <= li.layers[-1].valid_range[0]
                if not inside and not above_or_below:
                    # a gap: index() must refuse as well rather than invent a value
                    try:
                        li.index(z)
                        ok = False; run.note_broken("correspondence: LayeredIce.index(%r) answers inside a gap" % z)
                    except ValueError:
                        run.count("gap_depth_rejected")
        reqs.append("layer %d %s %s" % (len(stack), fw.fl([v for p in stack for v in p]), fw.fl(zs)))
        expect.append(imp); descs.append(("layered", "layer", tuple(v for p in stack for v in p)))
        run.count("layer_stacks")
    return ok


def search(run, deep):
    """property-level oracle on the implementation alone"""
    n = run.scale(1, 5) if not deep else 5
    search_atten(run)
    search_state(run)
    search_clamp(run)
    search_layered(run)
    search_forms(run)
    for rep in range(n):
        for name, ice in ices(run):
            lo, hi = ice.valid_range
            zs = sorted(run.rng.uniform(lo, hi) for _ in range(30))
            ns = [float(ice.index(z)) for z in zs]
            run.case((name, "oracle", tuple(zs[:3])))
            for z1, z2, n1, n2 in zip(zs, zs[1:], ns, ns[1:]):
                if z2 - z1 > 1e-6 and not n2 < n1 + 1e-15:
                    if ice.n0 - n1 > 1e-12:  # distinguishable from the asymptote
                        run.fail_input("index-monotone", {"ice": name, "params": [ice.n0, ice.k, ice.a, lo, hi], "z1": z1, "z2": z2},
                                       observed=[n1, n2], what="index does not increase with depth")
            for z, nn in zip(zs, ns):
                if ice.n0 - nn < 1e-9:
                    continue
                back = float(ice.depth_with_index(nn))
                if abs(back - z) > 1e-6 * max(1, abs(z)) / max(1e-12, (ice.n0 - nn)) * 1e-6 + 1e-5:
                    run.fail_input("inverse", {"ice": name, "params": [ice.n0, ice.k, ice.a, lo, hi], "z": z},
                                   observed=back, expected=z, what="depth_with_index(index(z)) != z")
                h = 1e-4
                if lo + h < z < hi - h:
                    num = (float(ice.index(z + h)) - float(ice.index(z - h))) / (2 * h)
                    g = float(ice.gradient(z)[2])
                    if abs(num - g) > 1e-6 * max(1e-9, abs(g)) + 1e-9:
                        run.fail_input("gradient", {"ice": name, "params": [ice.n0, ice.k, ice.a, lo, hi], "z": z},
                                       observed=g, expected=num, what="gradient is not the depth derivative of index")
            # exactly ON the bounds the index still follows the profile, so the gradient is its one-sided derivative there
            for zb, sgn in ((hi, -1.0), (lo, 1.0)):
                h = 1e-4
                num = sgn * (float(ice.index(zb + sgn * h)) - float(ice.index(zb))) / h
                g = float(ice.gradient(zb)[2])
                if abs(num) > 1e-7 and abs(num - g) > 1e-3 * abs(num) + 1e-9:
                    run.fail_input("gradient", {"ice": name, "params": [ice.n0, ice.k, ice.a, lo, hi], "z": zb}, observed=g,
                                   expected=num, what="gradient exactly on a bound of the valid range is not the (one-sided) depth derivative of index")
            if float(ice.index(hi + 1)) != float(ice.index_above) or float(ice.index(lo - 1)) != float(ice.index_below):
                run.fail_input("outside", {"ice": name, "params": [ice.n0, ice.k, ice.a, lo, hi]},
                               what="index outside the valid range is not the declared index")


def search_state(run):
    """state across calls / caller-owned containers: an ice object re-parameterised in place behaves like a fresh one with
    the same parameters; a LayeredIce does not follow later changes of the list it was built from"""
    from pyrex.ice_model import AntarcticIce, GreenlandIce, UniformIce
    from pyrex.custom.layered_ice import LayeredIce
    for rep in range(run.scale(6, 60)):
        cls = run.rng.choice([AntarcticIce, GreenlandIce])
        ice = cls()
        lo, hi = ice.valid_range
        zs = [lo, hi, lo - 7.0, hi + 3.0] + [run.rng.uniform(lo, hi) for _ in range(4)]
        # use it first (anything memoised would be filled now) ...
        _ = [float(ice.index(z)) for z in zs]; _ = float(ice.depth_with_index(float(ice.index(zs[4]))))
        _ = float(ice.index_above), float(ice.index_below)
        # ... then re-parameterise the SAME object
        steps = []
        for _k in range(run.rng.randint(1, 3)):
            name = run.rng.choice(["n0", "k", "a", "valid_range"])
            if name == "n0":
                val = run.rng.uniform(1.5, 1.9)
            elif name == "k":
                val = run.rng.uniform(0.2, 0.6)
            elif name == "a":
                val = 10 ** run.rng.uniform(-2.3, -1.5)
            else:
                val = (-run.rng.uniform(500, 3000), 0)
            setattr(ice, name, val)
            steps.append([name, val if name != "valid_range" else list(val)])
        fresh = cls(n0=ice.n0, k=ice.k, a=ice.a, valid_range=ice.valid_range)
        lo, hi = ice.valid_range
        zs = [lo, hi, lo - 7.0, hi + 3.0] + [run.rng.uniform(lo, hi) for _ in range(4)]
        ns = [float(fresh.index(z)) for z in zs[4:]] + [float(fresh.index(hi)) - 0.01, float(fresh.index(lo)) + 0.01]
        with np.errstate(all="ignore"):
            got = ([float(ice.index(z)) for z in zs], [float(v) for v in ice.index(np.array(zs))],
                   [float(ice.depth_with_index(n)) for n in ns], float(ice.index_above), float(ice.index_below),
                   [float(ice.gradient(z)[2]) for z in zs])
            exp = ([float(fresh.index(z)) for z in zs], [float(v) for v in fresh.index(np.array(zs))],
                   [float(fresh.depth_with_index(n)) for n in ns], float(fresh.index_above), float(fresh.index_below),
                   [float(fresh.gradient(z)[2]) for z in zs])
        run.case((cls.__name__, "reparameterised", tuple(map(str, steps))))
        run.count("state_reparameterised")
        if got != exp:
            run.fail_input("ice-reparameterised", {"class": cls.__name__, "steps": steps, "depths": zs, "indices": ns},
                           observed=got, expected=exp,
                           what="an ice model re-parameterised in place differs from a fresh model with the same parameters")
    # returned objects are the caller's: results kept alive are not rewritten by later calls, and modifying a returned
    # array does not change later answers
    for name, ice in shipped() + [("uniform", UniformIce(1.5, valid_range=(-500, 0)))]:
        lo, hi = ice.valid_range
        zs = [float(run.rng.uniform(lo, hi)) for _ in range(5)]
        kept_g = [ice.gradient(z) for z in zs]
        fresh_g = [np.array(ice.gradient(z), dtype=float).copy() for z in zs]
        kept_i = [ice.index(np.array([z, z - 1.0])) for z in zs]
        fresh_i = [np.array(ice.index(np.array([z, z - 1.0])), dtype=float).copy() for z in zs]
        fa = np.array([1e8, 3e8])
        kept_a = [ice.attenuation_length(np.array([z, z / 2]), fa) for z in zs] if name != "uniform" else []
        fresh_a = [np.array(ice.attenuation_length(np.array([z, z / 2]), fa), dtype=float).copy() for z in zs] if name != "uniform" else []
        run.case((name, "returned-objects", tuple(zs)))
        run.count("state_returned_objects")
        bad = [("gradient", z) for z, k_, f_ in zip(zs, kept_g, fresh_g) if not np.array_equal(np.asarray(k_, dtype=float), f_)] + \
              [("index", z) for z, k_, f_ in zip(zs, kept_i, fresh_i) if not np.array_equal(np.asarray(k_, dtype=float), f_)] + \
              [("attenuation_length", z) for z, k_, f_ in zip(zs, kept_a, fresh_a) if not np.array_equal(np.asarray(k_, dtype=float), f_)]
        if bad:
            run.fail_input("returned-object-rewritten", {"ice": name, "depths": zs, "which": bad[:4]},
                           what="a result kept by the caller was rewritten by a later call (%s at depth %r)" % bad[0])
            continue
        g = ice.gradient(zs[0])
        try:
            g[0] = 7.0; g[1] = -3.0                      # the caller scribbles on what it was handed
        except (TypeError, ValueError):
            pass
        i1 = ice.index(np.array(zs))
        try:
            i1[:] = -1.0
        except (TypeError, ValueError):
            pass
        again_g = np.array(ice.gradient(zs[1]), dtype=float)
        again_i = np.array(ice.index(np.array(zs)), dtype=float)
        exp_i = np.array([float(ice.index(z)) for z in zs])
        if again_g[0] != 0 or again_g[1] != 0 or not np.array_equal(again_g, fresh_g[1]) or not np.array_equal(again_i, exp_i):
            run.fail_input("returned-object-aliased", {"ice": name, "depths": zs},
                           observed={"gradient": [float(v) for v in again_g], "index": [float(v) for v in again_i]},
                           expected={"gradient": [float(v) for v in fresh_g[1]], "index": [float(v) for v in exp_i]},
                           what="modifying a returned array changed a later answer of the ice model")
    for rep in range(run.scale(6, 60)):
        bounds = sorted({round(-run.rng.uniform(10, 2000), 1) for _ in range(run.rng.randint(2, 4))} | {0.0}, reverse=True)
        mk = lambda i: UniformIce(index=1.3 + 0.1 * i, valid_range=(bounds[i + 1], bounds[i]), index_above=None, index_below=None)
        layers = [mk(i) for i in range(len(bounds) - 1)]
        run.rng.shuffle(layers)
        mine = list(layers)              # the caller's own list
        li = LayeredIce(mine)
        zs = list(bounds) + [b + 1e-9 for b in bounds] + [run.rng.uniform(bounds[-1] - 5, 5) for _ in range(5)]

        def probe():
            out = []
            for z in zs:
                try:
                    out.append(("layer", li.layers.index(li.layer_at_depth(z)), float(li.index(z)), bool(li.contains((0, 0, z)))))
                except Exception as e:      # noqa: BLE001 - the answers before and after are compared, whatever they are
                    try:
                        out.append((type(e).__name__, None, float(li.index(z)), bool(li.contains((0, 0, z)))))
                    except Exception as e2:      # noqa: BLE001
                        out.append((type(e).__name__, None, type(e2).__name__, None))
            return out
        before = probe()
        order_before = list(mine)
        action = run.rng.choice(["append", "clear", "reverse", "pop", "replace"])
        if action == "append":
            mine.append(UniformIce(index=2.0, valid_range=(bounds[-1] - 300, bounds[-1]), index_above=None, index_below=None))
        elif action == "clear":
            del mine[:]
        elif action == "reverse":
            mine.reverse()
        elif action == "pop":
            mine.pop()
        else:
            mine[0] = UniformIce(index=2.2, valid_range=mine[0].valid_range, index_above=None, index_below=None)
        after = probe()
        run.case(("layered-callers-list", action, tuple(bounds)))
        run.count("state_layered_callers_list_" + action)
        if after != before:
            run.fail_input("layered-callers-list", {"bounds": bounds, "action": action, "depths": zs}, observed=after[:6],
                           expected=before[:6],
                           what="a LayeredIce changed when the list it was built from was modified afterwards (%s)" % action)


def search_clamp(run):
    """depth_with_index clamps to the range edges for indices outside the range of the ice (scalar and array),
    including indices at and above the asymptote n0"""
    for name, ice in ices(run):
        lo, hi = ice.valid_range
        nlo, nhi = float(ice.index(lo)), float(ice.index(hi))
        # (an index equal to index(lo) is inside the range; where index(lo) rounds to n0 the inverse is -inf there,
        #  which the property excludes as "not distinguishable from the asymptote")
        above = [v for v in [nlo + 1e-6, nlo + 0.01, float(ice.n0), float(np.nextafter(ice.n0, np.inf)),
                             ice.n0 + 0.3, 10.0] if v > nlo]
        below = [nhi - 1e-6, nhi - 0.2, 0.0, -1.0]
        run.case((name, "clamp-oracle", nlo, nhi))
        with np.errstate(all="ignore"):
            for vals, edge, what in ((above, lo, "above the largest index"), (below, hi, "below the smallest index")):
                got_s = [float(ice.depth_with_index(v)) for v in vals]
                got_a = [float(x) for x in ice.depth_with_index(np.array(vals))]
                for v, gs, ga in zip(vals, got_s, got_a):
                    if not (gs == edge and ga == edge):
                        run.fail_input("clamp", {"ice": name, "params": [ice.n0, ice.k, ice.a, [lo, hi], ice._index_above, ice._index_below],
                                                 "n": v}, observed={"scalar": gs, "array": ga}, expected=edge,
                                       what="depth_with_index(%r) (index %s) is not clamped to %r" % (v, what, edge))


def search_layered(run):
    """LayeredIce: depths above the stack have no layer (ValueError) and get the stack's index_above; depths at or
    below the bottom get index_below; inside, the index is the containing layer's"""
    from pyrex.ice_model import UniformIce
    from pyrex.custom.layered_ice import LayeredIce
    for rep in range(run.scale(3, 20)):
        b = sorted({0.0} | {round(-run.rng.uniform(20, 1500), 1) for _ in range(run.rng.randint(1, 3))}, reverse=True)
        layers = [UniformIce(index=1.3 + 0.1 * i, valid_range=(b[i + 1], b[i]),
                             index_above=run.rng.choice([None, 1.05]), index_below=run.rng.choice([None, 1.95]))
                  for i in range(len(b) - 1)]
        ia = run.rng.choice([1, 1.0003, None])
        li = LayeredIce(layers, index_above=ia)
        run.case(("layered-oracle", tuple(b), ia))
        z = run.rng.uniform(0.1, 50)
        try:
            li.layer_at_depth(z)
            got = "a layer"
        except ValueError:
            got = None
        exp_above = li.layers[0].index(li.layers[0].valid_range[1]) if ia is None else ia
        if got is not None or float(li.index(z)) != float(exp_above):
            run.fail_input("layered-above", {"bounds": b, "index_above": ia, "z": z,
                                             "layer_above": [l._index_above for l in li.layers]},
                           observed={"layer_at_depth": got, "index": float(li.index(z))}, expected=float(exp_above),
                           what="depth above the layer stack is dispatched to a layer / does not get the stack's index_above")
        # depths strictly below the stack get the stack's declared index_below (= the lowermost layer's index at its
        # lower boundary when the stack declares none), whatever the lowermost layer itself declares for below its range
        for ib in (None, 2.5):
            lj = LayeredIce(layers, index_above=ia, index_below=ib)
            exp_below = float(lj.layers[-1].index(lj.layers[-1].valid_range[0])) if ib is None else float(ib)
            zb = [b[-1] - 1.0, b[-1] - run.rng.uniform(1e-6, 500), float(np.nextafter(b[-1], -np.inf))]
            gotb = [float(lj.index(z_)) for z_ in zb] + [float(v) for v in lj.index(np.array(zb))]
            if float(lj.index_below) != exp_below or any(g != exp_below for g in gotb):
                run.fail_input("layered-below", {"bounds": b, "stack_index_below": ib, "depths": zb,
                                                 "layer_below": [l._index_below for l in lj.layers]},
                               observed={"index": gotb, "index_below": float(lj.index_below)}, expected=exp_below,
                               what="depth below the layer stack does not get the stack's declared index_below")
        # the dispatch is a FUNCTION OF THE DEPTH: the same layer and index whatever was asked before (boundaries and
        # their neighbours asked in three orders on one object, against a fresh object per depth), and the layer
        # answered contains the depth by the declared rule lower < z <= upper (the lowermost layer also owns the bottom edge)
        def ask(obj, z_):
            try:
                k_ = obj.layers.index(obj.layer_at_depth(z_))
            except ValueError:
                k_ = None
            return k_, float(obj.index(z_))
        zq = list(b) + [float(np.nextafter(x, -np.inf)) for x in b] + [float(np.nextafter(x, np.inf)) for x in b] \
            + [run.rng.uniform(b[-1] - 3, 3) for _ in range(4)]
        fresh = {z_: ask(LayeredIce(layers, index_above=ia), z_) for z_ in zq}
        for z_, (k_, _) in fresh.items():
            inside = [j for j, l in enumerate(li.layers) if l.valid_range[0] < z_ <= l.valid_range[1]]
            if not inside and z_ == li.layers[-1].valid_range[0]:
                inside = [len(li.layers) - 1]      # the bottom edge of the stack belongs to the lowermost layer
            if (k_ is None and inside) or (k_ is not None and inside != [k_]):
                run.fail_input("layered-containment", {"bounds": b, "index_above": ia, "z": z_}, observed=k_,
                               expected=inside[0] if inside else None,
                               what="depth %r is dispatched to layer %r, the layer containing it is %r" % (z_, k_, inside))
        shuffled = list(zq)
        run.rng.shuffle(shuffled)
        for oname, order in (("as listed", zq), ("reversed", zq[::-1]), ("shuffled", shuffled)):
            used = LayeredIce(layers, index_above=ia)
            for pos, z_ in enumerate(order):
                got_ = ask(used, z_)
                if got_ != fresh[z_]:
                    run.fail_input("layered-history", {"bounds": b, "index_above": ia, "asked before": order[:pos], "z": z_,
                                                       "order": oname}, observed=list(got_), expected=list(fresh[z_]),
                                   what="LayeredIce answers depth %r differently after earlier look-ups (layer, index) = %r, "
                                        "on a fresh object %r" % (z_, got_, fresh[z_]))
                    break
        # scalar, list and array call forms agree everywhere, in particular exactly on the layer boundaries
        zs = list(b) + [float(np.nextafter(x, -np.inf)) for x in b] + [float(np.nextafter(x, np.inf)) for x in b[1:]] \
            + [run.rng.uniform(b[-1], b[0]) for _ in range(4)]
        zs = [z_ for z_ in zs if b[-1] <= z_ <= b[0]]
        sca = [float(li.index(z_)) for z_ in zs]
        for form, got in (("ndarray", li.index(np.array(zs))), ("list", li.index(list(zs)))):
            got = [float(x) for x in got]
            if got != sca:
                badz = [z_ for z_, a_, s_ in zip(zs, got, sca) if a_ != s_]
                run.fail_input("layered-scalar-array", {"bounds": b, "indices": [float(l.n) for l in li.layers],
                                                        "depths": badz, "form": form},
                               observed=[a_ for a_, s_ in zip(got, sca) if a_ != s_],
                               expected=[s_ for a_, s_ in zip(got, sca) if a_ != s_],
                               what="LayeredIce.index(%s) != scalar evaluation at depth(s) %s" % (form, badz[:3]))
        for i, l in enumerate(li.layers):
            zi = 0.5 * (l.valid_range[0] + l.valid_range[1])
            if li.layer_at_depth(zi) is not l or float(li.index(zi)) != float(l.n):
                run.fail_input("layered-inside", {"bounds": b, "z": zi}, observed=float(li.index(zi)), expected=float(l.n),
                               what="depth inside layer %d is not dispatched to it" % i)


def search_forms(run):
    """integer / float32 / 0-d / one-element forms of the arguments give the float64 answers"""
    for name, ice in shipped():
        lo, hi = ice.valid_range
        zs_int = [int(lo), int(lo) + 7, -1000, -100, -1, int(hi)]
        run.case((name, "forms-oracle"))
        with np.errstate(all="ignore"):
            ref = [float(ice.index(float(z))) for z in zs_int]
            forms = {"python int": [float(ice.index(z)) for z in zs_int],
                     "int64 array": [float(x) for x in ice.index(np.array(zs_int, dtype=np.int64))],
                     "int32 array": [float(x) for x in ice.index(np.array(zs_int, dtype=np.int32))],
                     "one-element arrays": [float(ice.index(np.array([float(z)]))[0]) for z in zs_int],
                     "numpy float64 scalars": [float(ice.index(np.float64(z))) for z in zs_int]}
            for form, got in forms.items():
                if not fw.all_close(got, ref, 1e-12):
                    run.fail_input("index-forms", {"ice": name, "form": form, "depths": zs_int}, observed=got, expected=ref,
                                   what="index(%s) differs from the float64 evaluation" % form)
            g32 = [float(x) for x in ice.index(np.array(zs_int, dtype=np.float32))]
            if not fw.all_close(g32, ref, 1e-5):
                run.fail_input("index-forms", {"ice": name, "form": "float32 array", "depths": zs_int}, observed=g32,
                               expected=ref, what="index(float32 array) differs from the float64 evaluation")
            fs_int = [100000000, 300000000, 1000000000, 2000000000]
            zf = [float(z) for z in zs_int[1:-1]]
            aref = np.asarray(ice.attenuation_length(np.array(zf), np.array(fs_int, dtype=float)), dtype=float)
            for form, args in (("int depths/int freqs", (np.array(zs_int[1:-1]), np.array(fs_int))),
                               ("python int scalars", None)):
                if args is not None:
                    got = np.asarray(ice.attenuation_length(*args), dtype=float)
                else:
                    got = np.array([[float(ice.attenuation_length(z, f)) for f in fs_int] for z in zs_int[1:-1]])
                if got.shape != aref.shape or not np.allclose(got, aref, rtol=1e-12, atol=0):
                    run.fail_input("atten-forms", {"ice": name, "form": form, "depths": zs_int[1:-1], "freqs": fs_int},
                                   observed=got.tolist(), expected=aref.tolist(),
                                   what="attenuation_length(%s) differs from the float64 evaluation" % form)


def _atten_forms(ice, z, f):
    """the same depth and frequency through the scalar, row, column and matrix call forms"""
    return {"scalar": float(ice.attenuation_length(z, f)),
            "row": float(np.asarray(ice.attenuation_length(z, np.array([f, 2 * f])))[0]),
            "col": float(np.asarray(ice.attenuation_length(np.array([z, z / 2]), f))[0]),
            "matrix": float(np.asarray(ice.attenuation_length(np.array([z, z / 2]), np.array([f, 2 * f])))[0, 0])}


def arasim_zero_depth(ice):
    """depth at which the linear extrapolation of the AraSim table (its last segment) crosses zero"""
    d0, d1 = ice.atten_depths[-2:]
    l0, l1 = ice.atten_lengths[-2:]
    return -(d1 + l1 * (d1 - d0) / (l0 - l1))


def in_k20(name, ice, z, vals):
    """K20: ArasimIce below the zero crossing of its extrapolated table (about -3171.35 m, 321 m below the valid range):
    every call form returns the same non-positive, finite number"""
    return (name == "arasim" and z <= arasim_zero_depth(ice) and z < ice.valid_range[0]
            and all(np.isfinite(v) and v <= 0 for v in vals.values())
            and all(fw.close(v, vals["scalar"], 1e-12) for v in vals.values()))


def known_probes(run):
    """K20: ArasimIce attenuation length is negative far below the valid range (C16_atten_arasim_negative_far_below_range)"""
    from pyrex.ice_model import ArasimIce
    ice = ArasimIce()
    vals = _atten_forms(ice, -3200.0, 3e8)
    run.case(("known", "K20"), sample={"arasim_atten_at_-3200m": vals["scalar"], "zero_crossing": arasim_zero_depth(ice)})
    if in_k20("arasim", ice, -3200.0, vals):
        run.known_finding("K20")


def search_atten(run):
    for name, ice in shipped():
        lo, hi = ice.valid_range
        zs = np.array([lo, hi] + [run.rng.uniform(lo, hi) for _ in range(20)])
        fs = np.array([10 ** run.rng.uniform(6, 10) for _ in range(12)])
        m = np.asarray(ice.attenuation_length(zs, fs), dtype=float)
        run.case((name, "atten-oracle", float(zs[2])))
        bad = np.argwhere(~(np.isfinite(m) & (m > 0)))
        for i, j in bad[:3]:
            run.fail_input("atten-positive", {"ice": name, "z": float(zs[i]), "f": float(fs[j])}, observed=float(m[i, j]),
                           what="attenuation length not positive and finite")
        # every call form, over the whole frequency range (incl. far above the models' fitted band) and from above
        # the surface to far below the range
        for rep in range(run.scale(40, 400)):
            z = float(run.rng.choice([lo, hi, run.rng.uniform(lo, hi), run.rng.uniform(lo, hi),
                                      run.rng.uniform(hi, hi + 300), run.rng.uniform(lo - 1500, lo)]))
            run.count("atten_depth_" + ("inside" if lo <= z <= hi else "above" if z > hi else "below"))
            f = float(10 ** run.rng.uniform(6, 10.3))
            with np.errstate(all="ignore"):
                vals = _atten_forms(ice, z, f)
            run.case((name, "atten-forms", z, f))
            if not all(np.isfinite(v) and v > 0 for v in vals.values()):
                run.fail_input("atten-positive", {"ice": name, "z": z, "f": f}, observed=vals,
                               finding_key="K20" if in_k20(name, ice, z, vals) else None,
                               what="attenuation length not positive and finite in some call form")
            elif not all(fw.close(v, vals["scalar"], 1e-12) for v in vals.values()):
                run.fail_input("atten-forms", {"ice": name, "z": z, "f": f}, observed=vals,
                               what="attenuation_length scalar/row/column/matrix forms disagree")


def _ice_named(name, params=None):
    from pyrex.ice_model import AntarcticIce, ArasimIce, GreenlandIce
    if params and name == "random":
        n0, k, a, rng_, ab, be = params
        return AntarcticIce(n0=n0, k=k, a=a, valid_range=tuple(rng_), index_above=ab, index_below=be)
    return {"antarctic": AntarcticIce, "arasim": ArasimIce, "greenland": GreenlandIce}[name]()


def replay(run, data):
    inp, kind = data["input"], data["kind"]
    if kind == "index-scalar-array":
        ice = _ice_named(inp["ice"], inp.get("params"))
        zs = inp["depths"]
        arr = [float(v) for v in ice.index(np.array(zs))]
        sca = [float(ice.index(z)) for z in zs]
        if arr != sca:
            run.fail_input(kind, inp, observed={"array": arr, "scalar": sca}, what="index(array) != index(scalar)")
    elif kind == "atten-shape":
        ice = _ice_named(inp["ice"])
        za, fa = np.array(inp["depths"]), np.array(inp["freqs"])
        shp = [np.shape(ice.attenuation_length(za, fa)), np.shape(ice.attenuation_length(za[0], fa)),
               np.shape(ice.attenuation_length(za, fa[0]))]
        if shp != [(len(za), len(fa)), (len(fa),), (len(za),)]:
            run.fail_input(kind, inp, observed=[list(x) for x in shp], what="attenuation_length shapes %s" % shp)
    elif kind == "clamp":
        ice = _ice_named(inp["ice"], inp.get("params"))
        lo, hi = ice.valid_range
        v = inp["n"]
        edge = lo if v > float(ice.index(lo)) else hi
        with np.errstate(all="ignore"):
            gs, ga = float(ice.depth_with_index(v)), float(ice.depth_with_index(np.array([v]))[0])
        if not (gs == edge and ga == edge):
            run.fail_input(kind, inp, observed={"scalar": gs, "array": ga}, expected=edge, what="depth_with_index not clamped")
    elif kind == "uniform-scalar-array":
        from pyrex.ice_model import UniformIce
        ty = {"int": int, "int64": np.int64, "float32": np.float32}.get(inp.get("n_type"), float)
        u = UniformIce(index=ty(inp["n"]), valid_range=tuple(inp["range"]), index_above=inp["index_above"],
                       index_below=inp["index_below"])
        zs = inp["depths"]
        sca = [float(u.index(z)) for z in zs]
        arr = [float(v) for v in u.index(np.array(zs))]
        if arr != sca or any(u.gradient(z)[2] != 0 for z in zs):
            run.fail_input(kind, inp, observed=arr, expected=sca, what="UniformIce.index(array) != index(scalar)")
    elif kind in ("atten-forms", "atten-positive"):
        ice = _ice_named(inp["ice"])
        z, f = inp["z"], inp["f"]
        with np.errstate(all="ignore"):
            vals = _atten_forms(ice, z, f)
        if not all(np.isfinite(v) and v > 0 for v in vals.values()):
            run.fail_input("atten-positive", inp, observed=vals, finding_key="K20" if in_k20(inp["ice"], ice, z, vals) else None,
                           what="attenuation length not positive and finite")
        elif not all(fw.close(v, vals["scalar"], 1e-12) for v in vals.values()):
            run.fail_input("atten-forms", inp, observed=vals, what="attenuation_length forms disagree")
    else:
        search(run, True)
