"""C17 - thermal noise is band-limited, has the requested RMS and is reproducible in absolute time.

Float twin of lean/twin/Noise.body against pyrex.signals.FullThermalNoise / FFTThermalNoise with
numpy.random replaced by a tape feeder."""
import contextlib
import logging
import math

import numpy as np

import framework as fw

LEVEL = "proof"
USE_TWINS = True
TECHNIQUE = "Lean 4 theorems over the real-number reading of a twin model + tape-fed Float-twin differential run"
RULE = ("time grids (odd/even lengths 2..40, four sampling steps, zero / positive / negative offsets) x bands relative "
        "to the Nyquist frequency (inside, touching 0, above Nyquist, straddling Nyquist, empty between bins, edges "
        "exactly on FFT bins - as the float bin value, and on np.arange(n)*dt grids as a quotient, product or round decimal "
        "that is mathematically an exact multiple of the bin spacing) x amplitude spec (number, vectorised callable, scalar-only callable, default Rayleigh "
        "from the tape) x rms given / from temperature and resistance / missing x uniqueness 0.5, 1, 2, 2.7, 3, 4 x "
        "both classes; compared: freqs, amps, phases, rms, values on the own grid, on sub-windows, on windows shifted "
        "by whole samples beyond one period, off-grid times, and re-gridding requests sharing some but not all of "
        "(start, number of points, dt, end) with the own grid or the generated full trace (same start+count / other dt, "
        "same dt+count / other start, same start+end / other count, supersets, one-sample grids); objects whose basis "
        "(amps, phases, also rms and - full class - freqs) is REPLACED after they were evaluated, then evaluated through "
        "with_times-derived objects and Antenna.make_noise, against the currently published basis, a never-evaluated "
        "object given that basis, and the model given that basis; sample times as arrays, lists, tuples, Python ints and "
        "int arrays (1 s spacing), with_times given plain lists; bands of zero width; rms_voltage together with "
        "temperature and resistance; a callable amplitude answering with one number (repaired as F19); a derived "
        "object shifted in place while other handles stay live; handed-out traces (with_times results; the trace returned by "
        "the first and by later Antenna.make_noise calls, also after clear(reset_noise=True)) modified in place by *=, /=, "
        "filter_frequencies, shift, resample, set_buffers before noise / full_waveform / all_waveforms are requested again; a sibling object built in the same process, "
        "before or after, with the same point count, band and uniqueness and a sampling step 0.01-0.1 % off; a case is non-trivial when the basis is non-empty; "
        "distinct = distinct (class, grid, band, spec, uniqueness) tuples")
LEVEL_TEXT = ("theorems (cosine-sum form of both classes, band membership, irfft = cosine sum for bins strictly between "
              "DC and Nyquist, half-weight Nyquist bin, periodic interpolation consistent iff the period is n*dt, unit "
              "amplitudes give rms^2, thermal rms formula, Rayleigh mean square, same basis = same wave, function of "
              "absolute time) proved over R; the same model text run on Float agrees with pyrex on every sampled input")
LEVEL_NOTE = ("rayleigh_mean_square takes E[A_k^2] = 1 as a named hypothesis and proves the phase integrals; "
              "C17_rayleigh_second_moment proves that hypothesis for the Rayleigh density with scale 1/sqrt 2, so what is "
              "assumed is only that numpy.random.rayleigh samples that density (statistics oracle, 5.4 sigma); "
              "hypothesis audit: the DC bin (amplitude zeroed) is covered by C17_irfft_is_cos_sum_dc, the Nyquist bin is K4 "
              "(negation proved), irregular / decreasing / "
              "zero-step / one-sample / empty time grids are outside 'time grids' (the real code raises IndexError, "
              "TypeError or ValueError for the last three - the search only requires some exception - and accepts the "
              "first two without meaning), for the FFT class values between grid times are the linear interpolant, not "
              "the cosine sum (the property speaks of shared sample times only), uniqueness < 1 is clamped to 1 and "
              "non-integer values truncated (model and code agree; inf / NaN raise), products (f_max-f_min)*duration*u "
              "exactly on an integer are generated in the search only (the count N may differ by one between model and "
              "code through rounding, the property does not fix N); scipy.fft.irfft is modelled by the inverse DFT of the Hermitian completion in its "
              "weighted one-sided form, proved equal to that inverse DFT (C17_irfft_is_hermitian_idft); np.interp(period=) by "
              "reduce/stable sort/wrap/linear interpolation; the period claim is proved in full: consistent at every grid "
              "time of every period for all data iff n*dt = q*P with q coprime to n (C17_fft_period_iff), hence among "
              "periods P >= (n-1)*dt iff P = n*dt (C17_fft_period_unique); the design's plain 'iff P = n*dt' is false "
              "without that restriction (P = n*dt/q, q coprime to n, also reads the right knot at every grid time); "
              "C17_fft_period / C17_fft_period_unrepaired_witness state the two source candidates on the model object; "
              "unit_amp_rms is proved for the FFT class on its grid period and for the full class in "
              "continuous time over one common period; "
              "floating-point rounding is not modelled (tolerance 1e-9 of the peak); k_B is hard-coded in Noise.body "
              "and compared with scipy.constants.k by the correspondence run")
ASSUMPTIONS = ["E[A^2] = 1 for A ~ numpy.random.rayleigh(1/sqrt(2)) (second moment of the Rayleigh law)",
               "numpy.random.rand returns independent uniform variates on [0,1) (phases uniform on [0,2pi))",
               "scipy.fft.irfft / rfftfreq, numpy.interp / linspace follow their specification"]

CHECKER_MODULES = ["PyrexVerif.Proofs.Noise", "PyrexVerif.Proofs.NoiseInterp", "PyrexVerif.Proofs.NoiseCollision", "PyrexVerif.Proofs.NoiseImpulse", "PyrexVerif.Proofs.NoisePeriodSuff",
                   "PyrexVerif.Proofs.NoisePeriodIff",
                   "PyrexVerif.Proofs.NoiseHermitian", "PyrexVerif.Proofs.NoiseOrtho", "PyrexVerif.Proofs.NoiseOrthoCont",
                   "PyrexVerif.Proofs.NoisePhase", "PyrexVerif.Proofs.NoiseRayleigh"]

logging.getLogger("pyrex").setLevel(logging.CRITICAL)


# --------------------------------------------------------------------------------------------
class TapeExhausted(Exception):
    pass


@contextlib.contextmanager
def tape_feeder(amp_tape, phase_tape):
    """numpy.random.{rand,random_sample,uniform,rayleigh,normal} draw from the two tapes"""
    names = ["rand", "random_sample", "uniform", "rayleigh", "normal", "random"]
    orig = {n: getattr(np.random, n) for n in names}
    ai, pi_ = iter(amp_tape), iter(phase_tape)

    def take(it, size):
        n = int(np.prod(size)) if size is not None and size != () else 1
        try:
            out = np.array([next(it) for _ in range(n)], dtype=float)
        except StopIteration:
            raise TapeExhausted()
        if size is None or size == ():
            return float(out[0])
        return out.reshape(size)

    def rand(*shape):
        return take(pi_, shape if shape else None)

    def random_sample(size=None):
        return take(pi_, size)

    def uniform(low=0.0, high=1.0, size=None):
        return low + (high - low) * take(pi_, size)

    def rayleigh(scale=1.0, size=None):
        # the tape holds draws for scale 1/sqrt(2), the only scale the source uses
        return take(ai, size) * (scale * math.sqrt(2))

    def normal(loc=0.0, scale=1.0, size=None):
        return loc + scale * take(ai, size)
    np.random.rand, np.random.random_sample, np.random.uniform = rand, random_sample, uniform
    np.random.rayleigh, np.random.normal, np.random.random = rayleigh, normal, random_sample
    try:
        yield
    finally:
        for n in names:
            setattr(np.random, n, orig[n])


def classes():
    from pyrex.signals import FFTThermalNoise, FullThermalNoise
    return {"fft": FFTThermalNoise, "full": FullThermalNoise}


def amp_arg(spec):
    k = spec[0]
    if k == "const":
        return spec[1]
    if k == "affine":
        return lambda f: spec[1] + spec[2] * (f / 1e9)
    if k == "affine1":   # evaluates one frequency at a time only
        return lambda f: spec[1] + spec[2] * (float(f) / 1e9)
    if k == "scalarfn":  # a callable that answers an array of frequencies with one number
        return lambda f: spec[1]
    return None


def times_form(times, form):
    """the same sample times in another container / dtype form"""
    if form == "list":
        return [float(t) for t in times]
    if form == "tuple":
        return tuple(float(t) for t in times)
    if form == "pyint":
        return [int(t) for t in times]
    if form == "intarray":
        return np.array([int(t) for t in times])
    return times


def construct(case):
    """-> noise object (numpy.random must already be patched or seeded)"""
    cls = classes()[case["cls"]]
    times = case["t0"] + np.arange(case["n"]) * case["dt"]
    if case.get("pad") is not None:     # a left-padded grid of float products (k - pad)*dt, at or near t = 0
        times = (np.arange(case["n"]) - case["pad"]) * case["dt"]
    kw = {}
    if case["rms"] is not None:
        kw["rms_voltage"] = case["rms"]
    if case.get("T") is not None:
        kw["temperature"] = case["T"]
    if case.get("R") is not None:
        kw["resistance"] = case["R"]
    return cls(times_form(times, case.get("tform", "array")), (case["fmin"], case["fmax"]),
               f_amplitude=amp_arg(case["spec"]), uniqueness_factor=case["uniq"], **kw), times


def artefact_windows(n, dt, pad):
    """start indices k of contained windows whose leading buffer b = t_k - t_0 on the grid (j - pad)*dt has an exactly
    integral float quotient b/dt but a non-zero float remainder b % dt (the two ways of counting buffer samples part)"""
    times = (np.arange(n) - pad) * dt
    out = []
    for k in range(1, n - 1):
        b = times[k] - times[0]
        if b / dt == int(b / dt) and b % dt != 0:
            out.append(k)
    return out


def rand_case(run, cls=None, force=None, dt=None, big=False):
    rng = run.rng
    cls = cls or rng.choice(["fft", "full"])
    n = rng.choice([2, 3, 7, 8, 16, 17, 31, 32, 40])
    dt = dt or rng.choice([0.5e-9, 1e-9, 0.2e-9, 0.37e-9])
    t0 = rng.choice([0.0, 3e-7, -1.3e-7, rng.uniform(-1, 1) * 1e-6])
    uniq = rng.choice([1, 1, 2, 3, 4, 0.5, 2.7])
    tform = rng.choice(["array", "array", "array", "list", "tuple"])
    if rng.random() < 0.12:      # integer sample times (Python ints or an int array), one sample per second
        tform, dt, t0 = rng.choice(["pyint", "intarray"]), 1.0, float(rng.randint(-40, 40))
    fny = 1 / (2 * dt)
    ui = max(1, int(uniq))
    nall = ui * n
    df = 1.0 / (nall * dt)
    kind = force or rng.choice(["inside", "inside", "touch0", "above", "straddle", "narrow", "edges", "exactedge"])
    if kind == "exactedge":
        # band edges that are mathematically EXACT multiples of the bin spacing 1/(u*n*dt) on a grid np.arange(n)*dt
        # (e.g. 100 samples of 1 ns, band 150-350 MHz; 200 x 1 ns, uniqueness 5, band 100-300 MHz), written the way a
        # user writes them: as a quotient, as a product, or as a round decimal - which bin the comparison `>=` / `<=`
        # admits is then decided by the last bit, and the realised spectrum must sit on the PUBLISHED frequencies
        t0, tform = 0.0, "array"
        n = rng.choice([16, 20, 32, 40, 50, 64, 100, 128, 200]) if (cls == "fft" and big) else rng.choice([16, 20, 32, 40])
        dt = rng.choice([1e-9, 0.5e-9, 2e-9, 0.25e-9, 1.25e-9, 0.1e-9, 0.4e-9])
        uniq = rng.choice([1, 1, 2, 3, 4, 5]) if n <= 100 else rng.choice([1, 5])
        if n * uniq > 260 and cls == "fft":
            n = 200 if uniq == 5 else n
        fny = 1 / (2 * dt)
        ui = max(1, int(uniq))
        nall = ui * n
        df = 1.0 / (nall * dt)
        k1 = rng.randint(1, max(1, nall // 2 - 2))
        k2 = rng.randint(k1 + 1, max(k1 + 1, nall // 2 - 1))

        def edge(k):
            w = rng.choice(["quotient", "product", "decimal", "decimal"])
            if w == "quotient":
                return k / (nall * dt)
            if w == "product":
                return k * (1.0 / (nall * dt))
            return float("%.9g" % (k / (nall * dt)))
        fmin, fmax = edge(k1), edge(k2)
        if rng.random() < 0.3:      # only one of the two edges on a bin
            if rng.random() < 0.5:
                fmax = (k2 + 0.37) * df
            else:
                fmin = (k1 - 0.41) * df
    elif kind == "inside":
        a, b = sorted([rng.uniform(0.05, 0.9), rng.uniform(0.05, 0.9)])
        fmin, fmax = a * fny, max(b, a + 0.05) * fny
    elif kind == "touch0":
        fmin, fmax = 0.0, rng.uniform(0.2, 0.8) * fny
    elif kind == "above":
        fmin, fmax = rng.uniform(1.1, 1.5) * fny, rng.uniform(1.6, 2.5) * fny
    elif kind == "straddle":
        fmin, fmax = rng.uniform(0.6, 0.95) * fny, rng.uniform(1.05, 1.6) * fny
    elif kind == "narrow":
        k = rng.randint(1, max(1, nall // 2 - 1))
        fmin, fmax = (k + 0.3) * df, (k + 0.6) * df
    else:   # band edges exactly on FFT bins
        k1 = rng.randint(0, max(0, nall // 2 - 1))
        k2 = rng.randint(k1 + 1, nall // 2) if nall // 2 > k1 else k1 + 1
        fmin, fmax = k1 * (1.0 / (nall * dt)), k2 * (1.0 / (nall * dt))
    if cls == "full":
        # keep (fmax-fmin)*duration*uniq away from integers (int() of a float product)
        dur = (n - 1) * dt
        u = max(1.0, float(uniq))
        prod = (fmax - fmin) * dur
        if prod >= 1:
            tgt = math.floor(prod * u) + rng.uniform(0.25, 0.75)
            fmax = fmin + tgt / (u * dur)
            if (fmax - fmin) * dur < 1:
                fmax = fmin + 1.3 / dur
        if n * u > 100:
            uniq = 1
    spec = rng.choice([("const", 1.0), ("const", rng.uniform(0.2, 2.0)), ("affine", rng.uniform(0.5, 1.5), rng.uniform(0, 2)),
                       ("affine1", rng.uniform(0.5, 1.5), rng.uniform(0, 2)), ("tape",), ("tape",),
                       ("scalarfn", rng.uniform(0.3, 2.0))])
    rmode = rng.choice(["rms", "rms", "TR", "missing", "both", "zero"] if force is None else ["rms", "TR", "both", "zero"])
    case = {"cls": cls, "n": n, "dt": dt, "t0": t0, "uniq": uniq, "fmin": fmin, "fmax": fmax, "band": kind,
            "spec": list(spec), "rms": None, "T": None, "R": None, "tform": tform}
    if rmode == "rms":
        case["rms"] = rng.choice([1.0, rng.uniform(1e-6, 3.0)])
    elif rmode == "zero":     # an RMS voltage / temperature / resistance that is EXACTLY zero is still a given value
        z = rng.choice(["rms0", "rms0-int", "rms0-both", "T0", "R0"])
        if z.startswith("rms0"):
            case["rms"] = 0 if z == "rms0-int" else 0.0
            if z == "rms0-both":
                case["T"], case["R"] = rng.uniform(100, 400), rng.uniform(10, 500)
        else:
            case["T"], case["R"] = (0.0, rng.uniform(10, 500)) if z == "T0" else (rng.uniform(100, 400), 0.0)
    elif rmode == "both":     # rms_voltage wins over temperature and resistance
        case["rms"], case["T"], case["R"] = rng.uniform(0.1, 3.0), rng.uniform(100, 400), rng.uniform(10, 500)
    elif rmode == "TR":
        case["T"], case["R"] = rng.uniform(100, 400), rng.uniform(10, 500)
    else:
        if rng.random() < 0.5:
            case["T"] = 300.0
    if rng.random() < 0.04:
        case["fmin"], case["fmax"] = case["fmax"], case["fmin"]   # reversed band -> ValueError
    elif rng.random() < 0.03:
        case["fmax"] = case["fmin"]                               # empty band of zero width -> ValueError
    return case


def tapes(run, nmax=400):
    rng = run.rng
    amp = [math.sqrt(-math.log(1 - rng.random())) for _ in range(nmax)]   # rayleigh(1/sqrt 2)
    ph = [rng.random() for _ in range(nmax)]
    return amp, ph


def windows(run, case, times):
    """sample-time sets for re-gridding: (name, times array)"""
    rng = run.rng
    n, dt = case["n"], case["dt"]
    out = []
    if n >= 4:
        i, j = sorted(rng.sample(range(n), 2))
        if j - i >= 2:
            out.append(("sub", times[i:j + 1]))
    k = rng.randint(-3 * n, 3 * n)
    out.append(("shift", times + k * dt))
    out.append(("offgrid", times[0] + (np.arange(5) + rng.uniform(0.1, 0.9)) * dt + rng.randint(-n, 2 * n) * dt))
    return out


def regrid_specs(run, case, k=None):
    """re-gridding requests that share some but not all of (start, number of points, dt, end) with the object's own
    grid or with the generated full trace; each is {"name", "off" (start offset in units of dt), "count", "mul"
    (spacing in units of dt)} -> grid t0 + off*dt + arange(count)*(mul*dt)"""
    rng = run.rng
    n = case["n"]
    nall = max(1, int(case["uniq"])) * n
    out = []
    for cnt, tag in ((n, "own"), (nall, "full")):
        cnt_ = min(cnt, 130)
        for mul in (2.0, 0.5, 1.37):
            out.append({"name": "start+count(%s)/dt" % tag, "off": 0.0, "count": cnt, "mul": mul} if cnt <= 130 else
                       {"name": "start/dt", "off": 0.0, "count": cnt_, "mul": mul})
        for off in (0.5, -2.25, float(rng.randint(-2 * n, 2 * n)), float(n)):
            out.append({"name": "dt+count(%s)/start" % tag, "off": off, "count": cnt_, "mul": 1.0})
        for c2 in (2 * cnt - 1, (cnt + 1) // 2, cnt + 1, cnt - 1):
            if 2 <= c2 <= 130 and c2 != cnt:
                out.append({"name": "start+end(%s)/count" % tag, "off": 0.0, "count": c2, "mul": (cnt - 1) / (c2 - 1)})
    a, b = rng.randint(1, 4), rng.randint(1, 4)
    out.append({"name": "superset", "off": -float(a), "count": n + a + b, "mul": 1.0})
    out.append({"name": "superset-finer", "off": -float(a), "count": 2 * (n + a + b) - 1, "mul": 0.5})
    out.append({"name": "superset-full", "off": -float(a), "count": min(nall + a + b, 130), "mul": 1.0})
    for off in (0.0, float(n - 1), 0.3, float(nall)):
        out.append({"name": "single-sample", "off": off, "count": 1, "mul": 1.0})
    if k is not None:
        out = rng.sample(out, min(k, len(out)))
    return out


def regrid_times(times, dt, g):
    return times[0] + g["off"] * dt + np.arange(g["count"]) * (g["mul"] * dt)


def regrid_values(nz, tt):
    """values on the grid, or "unsupported" when a one-sample grid makes FunctionSignal raise TypeError (it has no
    sample spacing; every FunctionSignal does that, see the report)"""
    try:
        if len(tt) > 1 and float(tt[0]) * 7 % 2 < 1:     # about half of the requests hand over a plain list
            return [float(x) for x in nz.with_times([float(t) for t in tt]).values]
        return [float(x) for x in nz.with_times(tt).values]
    except TypeError:
        if len(tt) == 1:
            return "unsupported"
        raise


def req_for(case, times, amp_tape, phase_tape, ts):
    spec = case["spec"]
    if spec[0] in ("const", "scalarfn"):
        st = "const " + fw.fl([spec[1]])
    elif spec[0] in ("affine", "affine1"):
        st = "affine " + fw.fl(spec[1:3])
    else:
        st = "tape " + fw.fl(amp_tape)
    o = lambda v: "-" if v is None else str(fw.f2b(v))
    if case["cls"] == "full":
        g1 = fw.fl([times[0], times[-1], case["fmin"], case["fmax"]])
    else:
        g1 = "%d %s" % (len(times), fw.fl([times[0], times[1], times[-1], case["fmin"], case["fmax"]]))
    return "%s | %s | %s | %s %s %s | %s | %s | %s" % (case["cls"], g1, st, o(case["rms"]), o(case.get("T")),
                                                      o(case.get("R")), fw.fl([case["uniq"]]), fw.fl(phase_tape),
                                                      fw.fl(ts))


EXCLUDED_REGIONS = ["irregular, decreasing, zero-step, one-sample and empty time grids (not time grids; the search "
                    "only requires an exception or the basis waveform)", "uniqueness factors inf / NaN (int() raises)",
                    "negative frequencies in the band"]


def correspondence(run):
    import pyrex  # noqa: F401
    import scipy.constants
    run.extra["excluded_regions"] = EXCLUDED_REGIONS
    if scipy.constants.k != 1.380649e-23:
        run.note_broken("correspondence: scipy.constants.k = %r differs from the model's constant" % scipy.constants.k)
        return False
    reqs, exps, descs = [], [], []
    ncases = run.scale(400, 2500)
    for ci in range(ncases):
        case = rand_case(run)
        amp_tape, phase_tape = tapes(run)
        run.count("class_" + case["cls"])
        run.count("band_" + case["band"])
        run.count("spec_" + case["spec"][0])
        with tape_feeder(amp_tape, phase_tape):
            try:
                nz, times = construct(case)
            except ValueError:
                nz = None
                times = case["t0"] + np.arange(case["n"]) * case["dt"]
            if nz is None:
                exp = "err"
                ts = list(map(float, times))
            else:
                parts = [("own", times)] + windows(run, case, times)
                for g in regrid_specs(run, case, 4):
                    parts.append((g["name"], regrid_times(times, case["dt"], g)))
                vals, ts = [], []
                for name, tt in parts:
                    v = list(nz.values) if name == "own" else regrid_values(nz, tt)
                    unsup = isinstance(v, str)
                    run.count("grid_" + name.split("(")[0] + ("_unsupported" if unsup else ""))
                    if unsup:
                        continue
                    vals += [float(x) for x in v]
                    ts += [float(x) for x in tt]
                exp = ([float(x) for x in nz.freqs], [float(x) for x in nz.amps], [float(x) for x in nz.phases],
                       float(nz.rms), vals)
                if len(nz.freqs) > 0 and case["fmin"] < case["fmax"]:
                    if not all(case["fmin"] <= f <= case["fmax"] for f in nz.freqs):
                        run.note_broken("correspondence: published frequency outside the band %s" % case)
        # the model gets only as much tape as a correct constructor consumes? no: the whole tape
        reqs.append(req_for(case, times, amp_tape[:200], phase_tape[:200], ts))
        exps.append(exp)
        descs.append((case["cls"], case["n"], case["dt"], case["t0"], case["fmin"], case["fmax"], tuple(case["spec"]),
                      case["uniq"], case["rms"], case["T"], case["R"]))
        # the basis of the (already evaluated) object is replaced, as io.py does when it replays stored noise bases;
        # objects derived by with_times must then produce the waveform of the CURRENT basis = the model given that basis
        if nz is not None and len(nz.freqs) > 0 and run.rng.random() < 0.4:
            N_ = len(nz.freqs)
            amp2, ph2 = tapes(run)
            new_amps = np.array(amp2[:N_], dtype=float)
            new_amps[np.array(nz.freqs) == 0] = 0
            nz.amps = new_amps
            nz.phases = np.array(ph2[:N_]) * 2 * np.pi
            run.count("basis_replaced_" + case["cls"])
            vals2, ts2 = [], []
            for name, tt in [("same", times)] + windows(run, case, times)[:2]:
                v = regrid_values(nz, tt)
                vals2 += [float(x) for x in v]
                ts2 += [float(x) for x in tt]
            case2 = dict(case, spec=["tape"])
            reqs.append(req_for(case2, times, amp2[:200], ph2[:200], ts2))
            exps.append(([float(x) for x in nz.freqs], [float(x) for x in nz.amps], [float(x) for x in nz.phases],
                         float(nz.rms), vals2))
            descs.append(("basis-replaced", case["cls"], case["n"], case["dt"], case["t0"], case["fmin"], case["fmax"],
                          case["uniq"], case["rms"], case["T"], case["R"]))
    replies = fw.run_driver("C17", reqs)
    ok = True
    for rq, exp, rp, d in zip(reqs, exps, replies, descs):
        nontriv = exp != "err" and len(exp[0]) > 0
        run.case(d, nontrivial=nontriv, sample={"case": d, "impl": "err" if exp == "err" else
                                                {"n_freqs": len(exp[0]), "rms": exp[3], "values": exp[4][:3]}})
        bad = None
        if rp == "bad-op":
            bad = "model rejected the request"
        elif exp == "err" or rp == "err":
            if exp != rp:
                bad = "model=%s impl=%s" % (rp[:60], str(exp)[:100])
        else:
            g = [fw.unfl(p.split()) for p in rp.split("|")]
            if len(g) != 5:
                bad = "malformed reply"
            else:
                sc = max([abs(v) for v in exp[4]] + [0.0])
                if not fw.all_close(g[0], exp[0], 1e-12, 0.0):
                    bad = "freqs model=%s impl=%s" % (g[0][:5], exp[0][:5])
                elif not fw.all_close(g[1], exp[1], 1e-12, 0.0):
                    bad = "amps model=%s impl=%s" % (g[1][:5], exp[1][:5])
                elif not fw.all_close(g[2], exp[2], 1e-12, 0.0):
                    bad = "phases model=%s impl=%s" % (g[2][:5], exp[2][:5])
                elif not (len(g[3]) == 1 and fw.close(g[3][0], exp[3], 1e-12, 0.0)):
                    bad = "rms model=%s impl=%s" % (g[3], exp[3])
                elif len(g[4]) != len(exp[4]) or not all(abs(a - b) <= 1e-9 * sc for a, b in zip(g[4], exp[4])):
                    i = next((i for i, (a, b) in enumerate(zip(g[4], exp[4])) if abs(a - b) > 1e-9 * sc), -1)
                    bad = "values differ at sample %d (of %d): model=%s impl=%s scale=%g" % (
                        i, len(exp[4]), g[4][i:i + 3], exp[4][i:i + 3], sc)
        if bad is None:
            run.traces += 1
        else:
            ok = False
            run.note_broken("correspondence: case=%s %s" % (d, bad))
    return ok


# --------------------------------------------------------------------------------------------
# property-level oracles on the implementation alone
def cos_sum(nz, cls, t, t_ref):
    n = len(nz.freqs)
    if n == 0:
        return np.zeros(len(t))
    sign = -1.0 if cls == "fft" else 1.0
    tot = np.zeros(len(t))
    for f, a, p in zip(nz.freqs, nz.amps, nz.phases):
        tot += a * np.cos(2 * np.pi * f * (t - t_ref) + sign * p)
    return nz.rms * math.sqrt(2 / n) * tot


def basis_ref(obj, cls, times, tt, k4corr):
    """what the basis CURRENTLY published by `obj` prescribes at absolute times tt (full class: the cosine sum; FFT
    class: the cosine sum at the grid times, joined linearly); `k4corr` applies the known half-weight Nyquist term"""
    tt = np.asarray(tt, dtype=float)
    N = len(obj.freqs)
    t_ref = times[0] if cls == "fft" else 0.0
    if cls == "full" or N == 0:
        return cos_sum(obj, cls, tt, t_ref)
    dte = float(obj._dt)
    x = (tt - times[0]) / dte
    j = np.floor(x + 1e-9)
    w = np.clip(x - j, 0.0, 1.0)
    lo, hi = int(j.min()), int(j.max()) + 1
    jj = np.arange(lo, hi + 1)
    S = cos_sum(obj, cls, times[0] + jj * dte, t_ref)
    if k4corr:
        S = S - obj.rms * math.sqrt(2 / N) * 0.5 * obj.amps[-1] * math.cos(obj.phases[-1]) * (-1.0) ** (jj % 2)
    a = (j - lo).astype(int)
    return (1 - w) * S[a] + w * S[a + 1]


INPLACE_OPS = ["imul", "idiv", "filter", "shift", "resample", "buffers"]


def apply_inplace(sig, op, dt):
    """a documented in-place operation on a signal object the caller owns"""
    if op == "imul":
        sig *= 3
    elif op == "idiv":
        sig /= 2
    elif op == "filter":
        sig.filter_frequencies(lambda f: 1 / (1 + 1j * np.asarray(f, dtype=float) / 2.5e8), force_real=True)
    elif op == "shift":
        sig.shift(2.5 * dt)
    elif op == "resample":
        sig.resample(max(2, len(sig.times) // 2 + 1))
    elif op == "buffers":
        sig.set_buffers(leading=3 * dt, trailing=2 * dt)
    _ = sig.values          # and the caller uses it
    return sig


def in_k4(case, nz):
    """FFT noise whose band contains the Nyquist bin of an even-length (uniqueness-extended) grid"""
    if case["cls"] != "fft" or len(nz.freqs) == 0:
        return False
    nall = max(1, int(case["uniq"])) * case["n"]
    if nall % 2:
        return False
    dt = nz._dt
    fnyq = (nall // 2) * (1.0 / (nall * dt))
    return bool(nz.freqs[-1] == fnyq and nz.amps[-1] != 0)


def _oracle(inp):
    """-> list of (kind, observed, expected, what, finding_key)"""
    case = inp["case"]
    cls = case["cls"]
    out = []
    # a sibling object in the same process: same number of points, same band, same uniqueness, a sampling step that
    # differs by a fraction of a per cent (far below a picosecond) - built before or after the object under test
    sib = None
    sib_spec = inp.get("sibling")
    if sib_spec and sib_spec["first"]:
        sib = _build_sibling(case, inp["seed"], sib_spec["factor"])
    np.random.seed(inp["seed"])
    must_reject = case["fmax"] <= case["fmin"] or (case["rms"] is None and (case.get("T") is None or case.get("R") is None))
    try:
        nz, times = construct(case)
    except ValueError as e:
        if not must_reject:      # an exactly-zero rms / temperature / resistance, any band of positive width, … is valid
            out.append(("rejected", "ValueError: %s" % str(e)[:120], "a noise object",
                        "the constructor rejects a valid specification (band %r-%r, rms_voltage %r, temperature %r, "
                        "resistance %r)" % (case["fmin"], case["fmax"], case["rms"], case.get("T"), case.get("R")), None))
        return out
    if must_reject:
        out.append(("accepted", "constructed", "ValueError", "the constructor accepts a band of non-positive width or a "
                    "specification without RMS voltage / temperature and resistance", None))
        return out
    n, dt = case["n"], case["dt"]
    if case["spec"][0] == "scalarfn":
        # (repaired as F19) a callable answering an array with one number is an ordinary amplitude spec for both
        # classes: one amplitude per published frequency, that number everywhere except DC
        want_amps = np.where(np.array(nz.freqs) == 0, 0.0, case["spec"][1])
        if np.shape(nz.amps) != np.shape(nz.freqs) or not np.array_equal(np.asarray(nz.amps, dtype=float), want_amps):
            out.append(("scalar-callable", [float(a) for a in np.atleast_1d(nz.amps)[:4]], [float(a) for a in want_amps[:4]],
                        "a callable answering with one number does not give that amplitude at every published frequency",
                        None))
            return out
    N = len(nz.freqs)
    k4 = in_k4(case, nz)
    amp_scale = nz.rms * (math.sqrt(2 / N) * float(np.sum(np.abs(nz.amps))) if N else 0.0)
    tol = 1e-9 * amp_scale + 1e-300
    t_ref = times[0] if cls == "fft" else 0.0
    # (1) frequencies inside the band; FFT class: exactly the rfft bins inside the band
    if N and not all(case["fmin"] <= f <= case["fmax"] for f in nz.freqs):
        out.append(("band", [float(f) for f in nz.freqs[:5]], [case["fmin"], case["fmax"]],
                    "published frequency outside the requested band", None))
    if cls == "fft":
        nall = max(1, int(case["uniq"])) * n
        dte = float(times[1] - times[0])
        bins = [k * (1.0 / (nall * dte)) for k in range(nall // 2 + 1)]
        want = [f for f in bins if case["fmin"] <= f <= case["fmax"]]
        if [float(f) for f in nz.freqs] != want:
            out.append(("band", [float(f) for f in nz.freqs[:6]], want[:6],
                        "published frequencies are not exactly the FFT bins inside the band", None))
    else:
        if N and not all(f < case["fmax"] for f in nz.freqs):
            out.append(("band", float(nz.freqs[-1]), case["fmax"], "frequency grid reaches f_max (endpoint excluded)", None))
    if 0 in nz.freqs and nz.amps[list(nz.freqs).index(0)] != 0:
        out.append(("dc", float(nz.amps[0]), 0.0, "DC amplitude not forced to zero", None))
    # (2) the waveform is the cosine sum of the published basis
    def k4_shortfall(idx):
        """what theorem C17_nyquist_bin_half_weight says is missing at grid index idx (K4 inputs only)"""
        return nz.rms * math.sqrt(2 / N) * 0.5 * nz.amps[-1] * math.cos(nz.phases[-1]) * (-1.0) ** (np.asarray(idx) % 2)

    def compare(kind, vals, ref, idx, tolx, what, tag):
        """plain mismatch -> violation; on a K4 input a mismatch that is exactly the half-weight Nyquist term -> K4"""
        dev = np.abs(vals - ref)
        if np.max(dev) <= tolx:
            return
        i = int(np.argmax(dev))
        if k4 and np.max(np.abs(vals - (ref - k4_shortfall(idx)))) <= tolx:
            out.append((kind, tag + [i, float(vals[i])], tag + [i, float(ref[i])], what, "K4"))
        else:
            out.append((kind, tag + [i, float(vals[i])], tag + [i, float(ref[i])], what, None))
    def ref_at(tt, with_k4):
        """what the published basis prescribes at arbitrary absolute times: the cosine sum itself (full class); for
        the FFT class the cosine sum at the grid times t_0 + j*dt, joined linearly in between"""
        tt = np.asarray(tt, dtype=float)
        if cls == "full" or N == 0:
            return cos_sum(nz, cls, tt, t_ref)
        dte = float(nz._dt)
        x = (tt - times[0]) / dte
        j = np.floor(x + 1e-9)
        w = np.clip(x - j, 0.0, 1.0)
        lo, hi = int(j.min()), int(j.max()) + 1
        jj = np.arange(lo, hi + 1)
        S = cos_sum(nz, cls, times[0] + jj * dte, t_ref)
        if with_k4:
            S = S - k4_shortfall(jj)
        a = (j - lo).astype(int)
        return (1 - w) * S[a] + w * S[a + 1]

    v = np.array(nz.values)
    ref = cos_sum(nz, cls, times, t_ref)
    # (2b) re-gridding requests sharing part of (start, count, dt, end) with the own grid / the generated trace
    for g in inp.get("regrids", []):
        tt = regrid_times(times, dt, g)
        w_ = regrid_values(nz, tt)
        if isinstance(w_, str):
            continue
        w_ = np.array(w_)
        span = float(np.max(np.abs(tt - times[0]))) / dt
        tolg = tol * (1 + span / 10)
        rg = ref_at(tt, False)
        if len(w_) != len(tt) or np.max(np.abs(w_ - rg)) > tolg:
            i = int(np.argmax(np.abs(w_ - rg))) if len(w_) == len(tt) else -1
            key = "K4" if (k4 and len(w_) == len(tt) and np.max(np.abs(w_ - ref_at(tt, True))) <= tolg) else None
            out.append(("regrid", [g["name"], i, float(w_[i])], [g["name"], i, float(rg[i])],
                        "with_times on a grid sharing part of (start, count, dt, end) with the own grid / full trace "
                        "(%s: offset %g dt, %d points, spacing %g dt) departs from the basis waveform at that absolute time"
                        % (g["name"], g["off"], g["count"], g["mul"]), key))
    compare("cos-sum", v, ref, np.arange(n), tol,
            "values differ from rms*sqrt(2/N)*sum A cos(2 pi f (t-t_ref) -/+ phi) of the published basis", [])
    # (3) function of absolute time: re-gridded windows agree at shared sample times / with the cosine sum
    for k in inp["shifts"]:
        tt = times + k * dt
        w = np.array(nz.with_times(tt).values)
        refw = cos_sum(nz, cls, tt, t_ref)
        compare("absolute-time", w, refw, np.arange(n) + k, tol * (1 + abs(k) / 10),
                "with_times on a window shifted by whole samples departs from the basis waveform", [k])
        # shared samples with the original window
        if abs(k) < n:
            a, b = (v[k:], w[:n - k]) if k >= 0 else (v[:n + k], w[-k:])
            if len(a) and np.max(np.abs(a - b)) > tol:
                out.append(("absolute-time", float(np.max(np.abs(a - b))), 0.0,
                            "re-gridded window disagrees with the original at shared sample times", None))
    if n >= 4:
        sub = nz.with_times(times[1:-1]).values
        if np.max(np.abs(np.array(sub) - v[1:-1])) > tol:
            out.append(("absolute-time", float(np.max(np.abs(np.array(sub) - v[1:-1]))), 0.0,
                        "sub-window disagrees with the original at shared sample times", None))
    # (3c) contained windows (with_times sets buffers): shared sample times carry the same values; also through the
    #      antenna's noise master (make_noise on a window of the master's grid, full_waveform with and without a signal)
    for k, m in inp.get("contained", []):
        if k + m > n or m < 2:
            continue
        sub = np.array(nz.with_times(times[k:k + m]).values)
        if len(sub) != m or np.max(np.abs(sub - v[k:k + m])) > tol:
            i = int(np.argmax(np.abs(sub - v[k:k + m]))) if len(sub) == m else -1
            out.append(("contained-window", [k, m, i, float(sub[i])], [k, m, i, float(v[k + i])],
                        "with_times onto a contained window (samples %d..%d of the own grid, leading buffer %r, dt %r) "
                        "does not reproduce the values at the shared sample times" % (k, k + m - 1, float(times[k] - times[0]), dt),
                        None))
            break
    if inp.get("contained") and cls == "fft" and N and case["rms"] is not None:
        from pyrex.antenna import Antenna
        from pyrex.signals import Signal
        np.random.seed(inp["seed"])
        ant = Antenna([0.0, 0.0, -100.0], freq_range=(case["fmin"], case["fmax"]), noise_rms=case["rms"],
                      unique_noise_waveforms=case["uniq"], noisy=True)
        mv = np.array(ant.make_noise(times).values)          # creates the master on the padded grid
        msc = 1e-9 * (float(np.max(np.abs(mv))) + 1e-300)
        for k, m in inp["contained"]:
            if k + m > n or m < 2:
                continue
            win = times[k:k + m]
            a_ = np.array(ant.make_noise(win).values)
            b_ = np.array(ant.full_waveform(win).values)
            ant.signals.append(Signal(win[:max(2, m // 2)], np.zeros(max(2, m // 2)), Signal.Type.voltage))
            c_ = np.array(ant.full_waveform(win).values)
            ant.signals.clear()
            for got_, lab in ((a_, "Antenna.make_noise(window)"), (b_, "Antenna.full_waveform(window)"),
                              (c_, "Antenna.full_waveform(window) with a zero signal received")):
                if len(got_) != m or np.max(np.abs(got_ - mv[k:k + m])) > msc:
                    out.append(("contained-window", [lab, k, m, [float(x) for x in got_[:3]]],
                                [lab, k, m, [float(x) for x in mv[k:k + 3]]],
                                "%s differs from the noise master's values at the same absolute times" % lab, None))
                    break
    # (3b) several live handles: a derived object is shifted in place; the object it was derived from, and objects
    #      derived later, still produce the basis waveform at absolute times
    if n >= 2:
        h1 = nz.with_times(times)
        h2 = nz.with_times(times + dt)
        h1.shift(2.5 * dt)
        h1v = np.array(h1.values)
        if len(h1v) != n or np.max(np.abs(h1v - v)) > tol:
            out.append(("handles", float(np.max(np.abs(h1v - v))) if len(h1v) == n else len(h1v), 0.0,
                        "a derived object changes its values when it is shifted as a whole", None))
        compare("handles", np.array(h2.values), cos_sum(nz, cls, times + dt, t_ref), np.arange(n) + 1, tol * 1.1,
                "an object derived earlier changes after another derived object was shifted", [1])
        compare("handles", np.array(nz.with_times(times).values), ref, np.arange(n), tol,
                "objects derived after another derived object was shifted depart from the basis waveform", [0])
    # (3d) handed-out traces belong to the caller: with_times results are modified IN PLACE (scale, divide, filter,
    #      shift, resample, set_buffers); the object they came from and the other derived objects are unaffected
    if n >= 4 and inp.get("inplace"):
        for op in inp["inplace"]:
            keep = nz.with_times(times + dt)
            victim = nz.with_times(times if op != "buffers" else times[1:-1])
            apply_inplace(victim, op, dt)
            compare("handed-out", np.array(keep.values), cos_sum(nz, cls, times + dt, t_ref), np.arange(n) + 1, tol * 1.1,
                    "a with_times result changes after ANOTHER with_times result of the same noise object was modified in "
                    "place (%s)" % op, [op, 1])
            compare("handed-out", np.array(nz.with_times(times).values), ref, np.arange(n), tol,
                    "with_times results requested after an earlier one was modified in place (%s) depart from the basis "
                    "waveform" % op, [op, 0])
            if np.max(np.abs(np.array(nz.values) - v)) > tol:
                out.append(("handed-out", op, None, "the noise object's own values change after a with_times result was "
                            "modified in place (%s)" % op, None))
    # (3e) the same for an antenna: the trace returned by the FIRST make_noise call (the one that creates the noise
    #      master; again the first one after clear(reset_noise=True)) and by later calls is the caller's; after an
    #      in-place operation on it, later noise / full_waveform / all_waveforms are still the master's basis waveform
    if n >= 4 and inp.get("inplace") and cls == "fft" and N and case["rms"] is not None:
        from pyrex.antenna import Antenna
        from pyrex.signals import Signal

        def basis_dev(master, got, tt):
            """-> (worst index, key) when `got` is not the waveform of the master's published basis at tt, else None"""
            scale = master.rms * math.sqrt(2 / len(master.freqs)) * float(np.sum(np.abs(master.amps)))
            tolm = 1e-9 * scale + 1e-300
            r0 = basis_ref(master, "fft", times, tt, False)
            if len(got) == len(tt) and np.max(np.abs(got - r0)) <= tolm:
                return None
            if len(got) == len(tt) and in_k4(case, master) and np.max(np.abs(got - basis_ref(master, "fft", times, tt, True))) <= tolm:
                return (int(np.argmax(np.abs(got - r0))), "K4")
            return (int(np.argmax(np.abs(got - r0))) if len(got) == len(tt) else -1, None)
        np.random.seed(inp["seed"])
        ant = Antenna([0.0, 0.0, -100.0], freq_range=(case["fmin"], case["fmax"]), noise_rms=case["rms"],
                      unique_noise_waveforms=case["uniq"], noisy=True)
        np.random.seed(inp["seed"])
        twin = Antenna([0.0, 0.0, -100.0], freq_range=(case["fmin"], case["fmax"]), noise_rms=case["rms"],
                       unique_noise_waveforms=case["uniq"], noisy=True)
        twin_v = np.array(twin.make_noise(times).values)        # same random stream, never touched
        np.random.seed(inp["seed"])
        done = False
        for round_, op in enumerate(inp["inplace"][:3]):
            if done:
                break
            for which in ("first", "later"):
                handed = ant.make_noise(times)                   # round 0 / after the reset: creates the master
                master = ant._noise_master
                if len(master.freqs) == 0:
                    done = True
                    break
                apply_inplace(handed, op, dt)
                win = times[1:] + dt
                checks = [("make_noise(times)", np.array(ant.make_noise(times).values), times),
                          ("make_noise(overlapping window)", np.array(ant.make_noise(win).values), win),
                          ("full_waveform(times)", np.array(ant.full_waveform(times).values), times)]
                ant.signals.append(Signal(times[:max(2, n // 2)], np.zeros(max(2, n // 2)), Signal.Type.voltage))
                try:
                    aw = ant.all_waveforms
                    if len(aw) == 1:
                        checks.append(("all_waveforms[0]", np.array(aw[0].values), np.array(aw[0].times)))
                finally:
                    ant.signals.clear()
                    ant._all_waves, ant._triggers = [], []
                for lab, got, tt in checks:
                    dev = basis_dev(master, got, tt)
                    if dev is not None:
                        out.append(("handed-out", [round_, which, op, lab, dev[0]], "the master's basis waveform",
                                    "after the trace returned by the %s Antenna.make_noise call%s was modified in place (%s), "
                                    "%s is no longer the waveform of the noise master's published basis"
                                    % (which, " after clear(reset_noise=True)" if round_ else "", op, lab), dev[1]))
                        done = True
                        break
                if done:
                    break
                if round_ == 0 and which == "first":
                    now = np.array(ant.make_noise(times).values)
                    if len(now) != len(twin_v) or np.max(np.abs(now - twin_v)) > 1e-9 * (float(np.max(np.abs(twin_v))) + 1e-300):
                        out.append(("handed-out", [op], None, "after the first handed-out trace was modified in place (%s) the "
                                    "antenna's noise differs from that of a twin antenna with the same basis" % op, None))
                        done = True
                        break
            ant.clear(reset_noise=True)
    # (4) no power outside the band (FFT class: periodogram over one full period)
    if cls == "fft" and N:
        nall = max(1, int(case["uniq"])) * n
        full = np.array(nz.with_times(times[0] + np.arange(nall) * dt).values)
        spec = np.abs(np.fft.rfft(full)) / nall
        dte = float(times[1] - times[0])
        bins = np.arange(nall // 2 + 1) * (1.0 / (nall * dte))
        outside = (bins < case["fmin"]) | (bins > case["fmax"])
        if np.any(outside) and np.max(spec[outside]) > 1e-9 * amp_scale + 1e-300:
            kbad = int(np.argmax(np.where(outside, spec, 0)))
            out.append(("out-of-band", [kbad, float(bins[kbad]), float(spec[kbad])], 0.0,
                        "periodogram over one period shows power outside the requested band", None))
        # (4b) bin by bin: the realised spectrum sits on the PUBLISHED frequencies with their amplitudes (interior bins:
        #      |X_k|/n = rms*sqrt(2/N)*A/2), every other bin is empty - in particular f_min - df and f_max + df
        want_spec = np.zeros(nall // 2 + 1)
        known = np.ones(nall // 2 + 1, dtype=bool)
        c_ = nz.rms * math.sqrt(2 / N)
        for f_, a_ in zip(nz.freqs, nz.amps):
            kb = int(round(float(f_) * nall * dte))
            if 0 <= kb <= nall // 2:
                if kb == 0 or (nall % 2 == 0 and kb == nall // 2):
                    known[kb] = False          # DC (amplitude zeroed) / Nyquist (K4) are judged elsewhere
                else:
                    want_spec[kb] = c_ * abs(float(a_)) / 2
        devs = np.where(known, np.abs(spec - want_spec), 0.0)
        if np.max(devs) > 1e-9 * amp_scale + 1e-300:
            kbad = int(np.argmax(devs))
            out.append(("spectrum", [kbad, float(bins[kbad]), float(spec[kbad])], [kbad, float(bins[kbad]), float(want_spec[kbad])],
                        "the spectrum of the realised waveform over one period does not sit on the published frequencies: bin "
                        "%d (%.6g Hz; band %r-%r, df %.6g) carries %.3g instead of %.3g"
                        % (kbad, bins[kbad], case["fmin"], case["fmax"], 1.0 / (nall * dte), spec[kbad], want_spec[kbad]), None))
        # (5) unit amplitudes, all bins strictly between DC and Nyquist: mean square over one period = rms^2
        if case["spec"][0] == "const" and case["spec"][1] == 1.0 and nz.freqs[0] > 0 and not k4 and \
                not (nall % 2 == 0 and nz.freqs[-1] == bins[-1]):
            ms = float(np.mean(full ** 2))
            if abs(ms - nz.rms ** 2) > 1e-9 * nz.rms ** 2:
                out.append(("rms", ms, nz.rms ** 2, "unit amplitudes do not give the requested RMS over one period", None))
    if cls == "full" and N and inp.get("commensurate"):
        # frequencies are multiples of delta: one period 1/delta sampled finely
        delta = inp["commensurate"]
        L = int(2 ** math.ceil(math.log2(4 * case["fmax"] / delta + 8)))
        tt = np.arange(L) * (1.0 / (delta * L))
        full = np.array(nz.with_times(tt).values)
        spec = np.abs(np.fft.rfft(full)) / L
        bins = np.arange(L // 2 + 1) * delta
        outside = (bins < case["fmin"] - 0.5 * delta) | (bins > case["fmax"] + 0.5 * delta)
        if np.max(spec[outside]) > 1e-7 * amp_scale + 1e-300:
            kbad = int(np.argmax(np.where(outside, spec, 0)))
            out.append(("out-of-band", [kbad, float(bins[kbad]), float(spec[kbad])], 0.0,
                        "periodogram over one period shows power outside the requested band", None))
        if case["spec"][0] == "const" and case["spec"][1] == 1.0 and nz.freqs[0] > 0:
            ms = float(np.mean(full ** 2))
            if abs(ms - nz.rms ** 2) > 1e-7 * nz.rms ** 2:
                out.append(("rms", ms, nz.rms ** 2, "unit amplitudes do not give the requested RMS over one period", None))
    # (6) thermal rms
    if case["rms"] is None and case.get("T") is not None and case.get("R") is not None:
        want = math.sqrt(1.380649e-23 * case["T"] * case["R"] * (case["fmax"] - case["fmin"]))
        if not fw.close(float(nz.rms), want, 1e-12):
            out.append(("rms-thermal", float(nz.rms), want, "rms is not sqrt(k_B T R bandwidth)", None))
    if case["rms"] is not None and float(nz.rms) != case["rms"]:
        out.append(("rms-given", float(nz.rms), case["rms"], "rms is not the requested rms_voltage", None))
    # (6b) the same through an antenna's noise master (ThermalNoise = the FFT class): noise_rms given (also exactly 0)
    #      wins, otherwise sqrt(k_B T R bandwidth) (also with T or R exactly 0)
    if cls == "fft" and N and (case["rms"] is not None or (case.get("T") is not None and case.get("R") is not None)):
        from pyrex.antenna import Antenna
        np.random.seed(inp["seed"])
        ant = Antenna([0.0, 0.0, -100.0], freq_range=(case["fmin"], case["fmax"]), noise_rms=case["rms"],
                      temperature=case.get("T"), resistance=case.get("R"), unique_noise_waveforms=case["uniq"], noisy=True)
        av = np.array(ant.make_noise(times).values)
        want_rms = float(case["rms"]) if case["rms"] is not None else \
            math.sqrt(1.380649e-23 * case["T"] * case["R"] * (case["fmax"] - case["fmin"]))
        got_rms = float(ant._noise_master.rms)
        if not fw.close(got_rms, want_rms, 1e-12, 0.0):
            out.append(("antenna-rms", got_rms, want_rms, "the antenna's noise master does not have the RMS its noise_rms / "
                        "temperature and resistance prescribe", None))
        elif want_rms == 0 and np.max(np.abs(av)) != 0:
            out.append(("antenna-rms", float(np.max(np.abs(av))), 0.0, "antenna noise with RMS 0 is not the zero trace", None))
    # (7) same random stream / same basis -> same waveform; independent objects differ
    np.random.seed(inp["seed"])
    nz2, _ = construct(case)
    if not (np.array_equal(nz2.freqs, nz.freqs) and np.array_equal(nz2.amps, nz.amps)
            and np.array_equal(nz2.phases, nz.phases) and np.array_equal(np.array(nz2.values), v)):
        out.append(("same-stream", None, None, "same random stream does not reproduce basis and waveform", None))
    nz3, _ = construct(case)          # continues the stream: an independent object
    v3 = np.array(nz3.values) if N else None
    if N and float(np.sum(np.abs(nz.amps))) > 0 and np.array_equal(np.array(nz3.phases), np.array(nz.phases)):
        out.append(("independent", None, None, "two independently drawn objects share their phases", None))
    nz4, _ = construct(case)
    nz4.freqs, nz4.amps, nz4.phases, nz4.rms = nz.freqs.copy(), nz.amps.copy(), nz.phases.copy(), nz.rms
    if np.max(np.abs(np.array(nz4.values) - v)) > tol if N else False:
        out.append(("same-basis", float(np.max(np.abs(np.array(nz4.values) - v))), 0.0,
                    "an object given the same basis produces a different waveform", None))
    # (9) the basis of an evaluated object is replaced (io.py replays stored noise bases this way): every object
    #     derived by with_times afterwards - also through Antenna.make_noise - must produce the waveform of the basis
    #     that is published NOW, and agree with a never-evaluated object given that basis
    if N:
        rs = np.random.RandomState(inp["seed"] % (2 ** 31 - 1) + 1)

        def new_basis(obj):
            a2 = rs.uniform(0.2, 2.0, N)
            a2[np.array(obj.freqs) == 0] = 0
            obj.amps = a2
            obj.phases = rs.uniform(0, 2 * np.pi, N)
            if inp.get("replace_rms"):
                obj.rms = float(obj.rms) * 1.7
            if cls == "full" and inp.get("replace_freqs"):
                obj.freqs = np.sort(rs.uniform(case["fmin"], case["fmax"], N))

        def check_derived(obj, make, label):
            for k in [0] + list(inp["shifts"][:1]):
                tt = times + k * dt
                got = np.array(make(tt).values)
                scale = obj.rms * math.sqrt(2 / N) * float(np.sum(np.abs(obj.amps)))
                tolr = (1e-9 * scale + 1e-300) * (1 + abs(k) / 10)
                ref0 = basis_ref(obj, cls, times, tt, False)
                if np.max(np.abs(got - ref0)) > tolr:
                    i = int(np.argmax(np.abs(got - ref0)))
                    key = "K4" if (in_k4(case, obj) and np.max(np.abs(got - basis_ref(obj, cls, times, tt, True))) <= tolr) \
                        else None
                    out.append(("basis-replaced", [label, k, i, float(got[i])], [label, k, i, float(ref0[i])],
                                "after the basis of an evaluated object was replaced, %s does not produce the waveform "
                                "of the currently published basis" % label, key))
                    return
        np.random.seed(inp["seed"])
        nzr, _ = construct(case)
        _ = nzr.values, nzr.with_times(times + dt).values      # evaluated before the replacement
        new_basis(nzr)
        check_derived(nzr, nzr.with_times, "with_times of the object")
        nzf, _ = construct(case)                                 # never evaluated, given the same basis
        nzf.freqs, nzf.amps, nzf.phases, nzf.rms = nzr.freqs.copy(), nzr.amps.copy(), nzr.phases.copy(), nzr.rms
        a_, b_ = np.array(nzr.with_times(times).values), np.array(nzf.with_times(times).values)
        if np.max(np.abs(a_ - b_)) > tol * 10 + 1e-9 * float(np.max(np.abs(b_)) + 1e-300):
            out.append(("basis-replaced", float(np.max(np.abs(a_ - b_))), 0.0,
                        "an evaluated object whose basis was replaced and a fresh object given that basis disagree", None))
        if cls == "fft" and case["rms"] is not None:
            from pyrex.antenna import Antenna
            np.random.seed(inp["seed"])
            ant = Antenna([0.0, 0.0, -100.0], freq_range=(case["fmin"], case["fmax"]), noise_rms=case["rms"],
                          unique_noise_waveforms=case["uniq"], noisy=True)
            _ = ant.make_noise(times).values
            master = ant._noise_master
            if len(master.freqs) == N:
                new_basis(master)
                check_derived(master, ant.make_noise, "Antenna.make_noise after its master's basis was replaced")
    # (8) reading the values again (fresh evaluation) gives the same numbers
    again = np.array(nz.with_times(times).values)
    if np.max(np.abs(again - v)) > tol:
        out.append(("repeat", float(np.max(np.abs(again - v))), 0.0,
                    "evaluating the same object twice on the same times gives different values", None))
    # (10) the sibling built in the same process publishes the bins of ITS OWN grid and is the cosine sum of its basis;
    #      building it afterwards does not disturb the object under test
    if sib_spec:
        if sib is None:
            sib = _build_sibling(case, inp["seed"], sib_spec["factor"])
            compare("sibling", np.array(nz.with_times(times).values), ref, np.arange(n), tol,
                    "the object departs from its basis waveform after a sibling with a slightly different sampling step "
                    "was built in the same process", [sib_spec["factor"]])
        if sib is not None:
            sz, st = sib
            if cls == "fft":
                nall_s = max(1, int(case["uniq"])) * n
                dts = float(st[1] - st[0])
                own = [k * (1.0 / (nall_s * dts)) for k in range(nall_s // 2 + 1)]
                own = [f for f in own if case["fmin"] <= f <= case["fmax"]]
                if [float(f) for f in sz.freqs] != own:
                    out.append(("sibling", [float(f) for f in sz.freqs[:4]], own[:4],
                                "an object built %s a sibling with a sampling step differing by the factor %r publishes "
                                "frequencies that are not the FFT bins of its own grid"
                                % ("after" if sib_spec["first"] else "before", sib_spec["factor"]), None))
            if len(sz.freqs) and not in_k4(dict(case), sz):
                sv = np.array(sz.values)
                sr = cos_sum(sz, cls, st, st[0] if cls == "fft" else 0.0)
                scs = sz.rms * math.sqrt(2 / len(sz.freqs)) * float(np.sum(np.abs(sz.amps)))
                if np.max(np.abs(sv - sr)) > 1e-9 * scs + 1e-300:
                    out.append(("sibling", float(np.max(np.abs(sv - sr))), 0.0, "a sibling object (sampling step x %r, built %s) "
                                "is not the cosine sum of its published basis"
                                % (sib_spec["factor"], "first" if sib_spec["first"] else "second"), None))
    return out


def _build_sibling(case, seed, factor):
    np.random.seed(seed + 17)
    try:
        return construct(dict(case, dt=case["dt"] * factor, pad=None, tform="array"))
    except ValueError:
        return None


def oracle(inp):
    """an exception where the property prescribes a waveform is a failure of the property on that input"""
    try:
        return _oracle(inp)
    except Exception as e:     # noqa: BLE001
        import traceback
        tb = traceback.format_exc().strip().split("\n")
        where = next((l.strip() for l in reversed(tb) if "pyrex" in l and "File" in l), tb[-1])
        return [("raised", "%s: %s" % (type(e).__name__, str(e)[:160]), "a noise waveform",
                 "the implementation raised where the property prescribes values (%s)" % where[:140], None)]


def oracle_statistics(inp):
    """default (Rayleigh) amplitudes: over several hundred frequencies and several random streams the mean square
    amplitude is 1 and the mean square of the waveform over one common period is rms^2 (rms_voltage given, or
    sqrt(k_B T R bandwidth)).  E[A^2] = 1, Var[A^2] = 1 for the nominal law, so the mean over M draws has standard
    deviation 1/sqrt(M); the threshold of 5.4 sigma is passed by a correct tree with probability > 1 - 1e-7."""
    out = []
    cls = inp["cls"]
    tot, cnt, ratios = 0.0, 0, []
    n, dt, uniq, fmin, fmax = inp["n"], inp["dt"], inp["uniq"], inp["fmin"], inp["fmax"]
    times = np.arange(n) * dt
    for si, seed in enumerate(inp["seeds"]):
        np.random.seed(seed)
        kw = {"rms_voltage": inp["rms"]} if si % 2 == 0 else {"temperature": inp["T"], "resistance": inp["R"]}
        nz = classes()[cls](times, (fmin, fmax), uniqueness_factor=uniq, **kw)
        want = inp["rms"] if si % 2 == 0 else math.sqrt(1.380649e-23 * inp["T"] * inp["R"] * (fmax - fmin))
        a = np.asarray(nz.amps, dtype=float)
        tot += float(np.sum(a ** 2))
        cnt += len(a)
        if cls == "fft":      # one full period of the generated trace: the bins are exactly orthogonal on it
            full = np.array(nz.with_times(times[0] + np.arange(uniq * n) * dt).values)
        else:                 # one beat period 1/delta of the equally spaced frequencies, finely sampled
            delta = (fmax - fmin) / len(a)
            L = 4096
            full = np.array(nz.with_times(np.arange(L) * (1.0 / (delta * L))).values)
        ratios.append(float(np.mean(full ** 2)) / want ** 2)
    sigma = 1.0 / math.sqrt(cnt)
    if abs(tot / cnt - 1) > 5.4 * sigma:
        out.append(("statistics", tot / cnt, 1.0, "mean square of the default (Rayleigh) amplitudes over %d draws is not 1 "
                    "(%.1f sigma)" % (cnt, abs(tot / cnt - 1) / sigma), None))
    mr = float(np.mean(ratios))
    if abs(mr - 1) > 5.4 * sigma + 0.01:
        out.append(("statistics", mr, 1.0, "mean square of the default-amplitude waveform over one period, averaged over %d "
                    "streams, is not the requested rms^2 (rms_voltage / sqrt(k_B T R bandwidth))" % len(ratios), None))
    return out


def gen_statistics_input(run, cls):
    rng = run.rng
    return {"statistics": True, "cls": cls, "seeds": [rng.randrange(2 ** 31) for _ in range(8)], "n": 256, "dt": 1e-9,
            "uniq": 5, "fmin": 1.0e8, "fmax": 4.5e8, "rms": rng.uniform(0.5, 2.0), "T": rng.uniform(200, 400),
            "R": rng.uniform(20, 200), "case": {"cls": cls, "band": "statistics"}}


def gen_oracle_input(run, i):
    rng = run.rng
    if i % 7 == 3:
        # decimal-fraction dt, grid of float products starting at or just left of t = 0, windows starting within the
        # first samples - preferably where buffer/dt is integral in floating point while buffer % dt is not zero
        dt = rng.choice([1e-9, 2e-9, 0.5e-9, 1.25e-9, 0.1e-9, 0.3e-9, 0.7e-9])
        case = rand_case(run, force=rng.choice(["inside", "inside", "touch0", "straddle"]), dt=dt)
        case.update(n=rng.choice([16, 17, 32, 40]), pad=rng.randint(0, 6), band="contained", tform="array")
        if case["cls"] == "full":
            case["uniq"] = 1
        ks = artefact_windows(case["n"], dt, case["pad"])
        picks = rng.sample(ks, min(3, len(ks))) + [rng.randint(1, 6)]
        cont = [[k, rng.randint(2, case["n"] - k)] for k in picks if case["n"] - k >= 2]
        return {"case": case, "seed": rng.randrange(2 ** 31), "shifts": [rng.randint(1, 5)], "regrids": [],
                "contained": cont, "artefact_starts": ks[:8]}
    if i % 5 == 4:
        # full noise whose frequencies are multiples of a common delta
        n = rng.choice([8, 16, 17, 32])
        dt = rng.choice([0.5e-9, 1e-9])
        dur = (n - 1) * dt
        uniq = rng.choice([1, 2])
        nf = rng.randint(2, 12)
        B = (nf + 0.5) / (dur * uniq)
        delta = B / nf
        m = rng.randint(0, 6)
        case = {"cls": "full", "n": n, "dt": dt, "t0": rng.choice([0.0, 2e-7]), "uniq": uniq, "fmin": m * delta,
                "fmax": m * delta + B, "band": "commensurate", "spec": rng.choice([["const", 1.0], ["tape"]]),
                "rms": rng.uniform(0.1, 2), "T": None, "R": None}
        return {"case": case, "seed": rng.randrange(2 ** 31), "shifts": [rng.randint(-40, 40)], "commensurate": delta,
                "regrids": regrid_specs(run, case, 4)}
    case = rand_case(run, big=True, force=rng.choice(["inside", "inside", "touch0", "above", "straddle", "narrow", "edges",
                                                      "exactedge", "exactedge"]))
    if case["band"] == "exactedge":
        run.count("oracle_exact_edge_cases")
    case["band"] = "oracle"
    if case["cls"] == "full" and case["n"] >= 3 and rng.random() < 0.15:
        # (f_max - f_min) * duration * uniqueness exactly on an integer: int() of the float product may fall either
        # way; whatever N results, the published basis must be self-consistent (the oracles do not fix N)
        dur = (case["n"] - 1) * case["dt"]
        case["uniq"] = rng.choice([1, 2, 3])
        case["fmax"] = case["fmin"] + rng.randint(2, 12) / dur
        case["band"] = "integer-product"
    if rng.random() < 0.06:
        case["spec"] = ["scalarfn", rng.choice([1.0, rng.uniform(0.3, 2.0)])]
    return {"case": case, "seed": rng.randrange(2 ** 31),
            "shifts": [rng.randint(-3 * case["n"], 3 * case["n"]), rng.randint(1, max(1, case["n"] - 1))],
            "regrids": regrid_specs(run, case, 6), "replace_rms": rng.random() < 0.3, "replace_freqs": rng.random() < 0.3,
            "inplace": rng.sample(INPLACE_OPS, 3) if rng.random() < 0.5 else [],
            "sibling": {"factor": 1 + rng.choice([-1, 1]) * rng.choice([1e-4, 3e-4, 1e-3]), "first": rng.random() < 0.5}
            if rng.random() < 0.5 else None}


def report(run, inp, res):
    for kind, obs, exp, what, key in res:
        run.fail_input(kind, inp, observed=obs, expected=exp, what=what, finding_key=key)


def search(run, deep):
    import pyrex  # noqa: F401
    n = 1500 if deep else run.scale(400, 1500)
    for i in range(n):
        inp = gen_oracle_input(run, i)
        run.case(("oracle", i, inp["case"]["cls"], inp["case"]["band"]))
        run.count("oracle_" + inp["case"]["cls"])
        res = oracle(inp)
        if any(r[4] == "K4" for r in res):
            run.count("oracle_K4_inputs")
        report(run, inp, res)
        if len([v for v in run.violations if not v[1]]) >= 5:
            return
    # degenerate time grids are not "time grids": the implementation must raise (any exception type) or, if it ever
    # answers, answer with the basis waveform; it must not return garbage
    for cls in ("full", "fft"):
        for name, tt in (("one-sample", np.array([3e-9])), ("empty", np.array([])), ("zero-step", np.zeros(6))):
            run.case(("oracle", "degenerate", cls, name))
            try:
                np.random.seed(7)
                nzd = classes()[cls](tt, (1e8, 4e8), rms_voltage=1.0)
                vd = np.asarray(nzd.values, dtype=float)
            except Exception:      # noqa: BLE001
                run.count("degenerate_grid_raises")
                continue
            run.count("degenerate_grid_answers")
            refd = cos_sum(nzd, cls, tt, tt[0] if (cls == "fft" and len(tt)) else 0.0) if len(tt) else np.zeros(0)
            if len(vd) != len(tt) or not np.all(np.isfinite(vd)) or (cls == "full" and np.max(np.abs(vd - refd), initial=0) > 1e-9):
                run.fail_input("degenerate", {"cls": cls, "grid": name, "case": {"cls": cls, "band": "degenerate"}},
                               observed=[float(x) for x in vd[:3]], expected="an exception or the basis waveform",
                               what="a degenerate time grid (%s) is answered with values that are not the basis waveform" % name)
    for rep in range(3 if deep else 1):
        for cls in ("full", "fft"):
            inp = gen_statistics_input(run, cls)
            run.case(("oracle", "statistics", cls, rep))
            run.count("oracle_statistics_" + cls)
            report(run, inp, oracle_statistics(inp))
    if deep:
        # default amplitudes give the requested RMS on average: E[A^2] = 1 for the draws the source makes
        np.random.seed(run.rng.randrange(2 ** 31))
        times = np.arange(64) * 1e-9
        tot, cnt = 0.0, 0
        for _ in range(700):
            nz = classes()["fft"](times, (100e6, 400e6), rms_voltage=1.0)
            tot += float(np.sum(np.array(nz.amps) ** 2))
            cnt += len(nz.amps)
        run.case(("oracle", "rayleigh-second-moment"))
        if abs(tot / cnt - 1) > 0.05:   # std of the mean ~ 1/sqrt(cnt) ~ 0.009
            run.fail_input("rayleigh-moment", {"draws": cnt}, observed=tot / cnt, expected=1.0,
                           what="mean square of the default amplitudes is not 1")


def known_probes(run):
    """K4: band 0.9-1.5 GHz at 2 GS/s, even length -> the Nyquist bin carries half weight"""
    import pyrex  # noqa: F401
    inp = {"case": {"cls": "fft", "n": 200, "dt": 0.5e-9, "t0": 3e-7, "uniq": 1, "fmin": 0.9e9, "fmax": 1.5e9,
                    "band": "K4", "spec": ["const", 1.0], "rms": 1.5, "T": None, "R": None},
           "seed": 5, "shifts": [7]}
    res = oracle(inp)
    run.case(("known", "K4"))
    for kind, obs, exp, what, key in res:
        if key == "K4":
            run.known_finding("K4")
        else:
            run.fail_input(kind, inp, observed=obs, expected=exp, what=what)


def replay(run, data):
    import pyrex  # noqa: F401
    if data.get("kind") == "rayleigh-moment":
        search(run, True)
        return
    if data["input"].get("statistics"):
        report(run, data["input"], oracle_statistics(data["input"]))
        return
    report(run, data["input"], oracle(data["input"]))
