"""C18 - uniform and layered tracers reduce to image geometry and the one-medium tracer.

Float twin of lean/twin/Uniform.body (image construction, Fresnel product, one step of `_trace_path`,
chaining) and the discrete model lean/PyrexVerif/D/LayerPaths.lean (`_build_path`) against
pyrex.ray_tracing.UniformRayTracer / UniformRayTracePath and pyrex.custom.layered_ice."""
import math

import numpy as np

import framework as fw
from props import raylib

LEVEL = "proof"
USE_TWINS = True
TECHNIQUE = ("Lean 4 theorems over the real-number reading of a twin model + Float-twin differential run; "
             "exact differential run of the path enumeration")
RULE = ("uniform: random UniformIce (index, range, index_above/below incl. None) x endpoint pairs with arbitrary "
        "x,y offsets (up to 1e5 m), vertical / equal-depth / outside-range / on-the-bound (points, length, tof only) specials x max_reflections 0..3; "
        "enumeration: every (max_level<=4, start, direction, reflections<=3[4]) exactly and _potential_paths on real "
        "tracers; layered: random stacks of 2-4 uniform layers (walk, launch angle -> _trace_path) and a UniformIce "
        "or AntarcticIce cut at 1-3 random depths compared with the unsplit tracer; stacks with exponential layers (firn over "
        "uniform bulk, firn over firn, uniform over firn: angle handed from group to group, exists, mirror law, Snell); "
        "completeness next to the cut-offs of the launch-angle grid: cut uniform ice with pairs within 1 degree of horizontal "
        "(direct, level, surface-reflected), exactly vertical (rho == 0, receiver above / below, max_reflections 0..2) and "
        "rho = 1e-12..1e-6 m, cut AntarcticIce with the receiver 0.03-2 % inside the shadow edge (direct_r_max), "
        "refracted paths launched 0.01-0.9 degree below a critical angle (forward Snell construction as reference); "
        "endpoints exactly on a range bound with explicit outside indices; integer-valued endpoints handed over as Python ints, "
        "int lists, int64 and float32 arrays (uniform and layered tracers, against the model, the image construction and the "
        "float64 evaluation); split media built from ArasimIce / GreenlandIce layers and from a user subclass of UniformIce, "
        "attenuation of the chained paths against the unsplit path; evaluate-replace-evaluate on one tracer object "
        "(max_reflections, to_point, from_point) against fresh tracers; arrays handed out by paths (coordinates, emitted / "
        "received direction) modified in place the way plotting code does, then every other quantity against an untouched "
        "twin path; a case is non-trivial when it has at "
        "least one reflection, layer crossing or a guard; distinct = distinct (kind, ice, endpoints, option) tuples")
LEVEL_TEXT = ("image-source theorems (length, mirror law, boundary points, directions, tof), chain continuity, Snell / "
              "mirror step of the layered trace, split-medium reductions, unit transmission / zero reflection for equal "
              "indices and validity + completeness of the path enumeration proved in Lean; the same model text run on Float "
              "agrees with UniformRayTracer/UniformRayTracePath, LayeredRayTracer._trace_path/_build_path/_potential_paths "
              "on every sampled input, and layered solutions of cut media reproduce the unsplit tracers")
LEVEL_NOTE = ("floating-point rounding is not modelled (tolerance run); no _partial theorem: C18_uniform_directions proves "
              "emitted = line to the mirrored receiver and received = the same with the vertical part reversed once per "
              "reflection, for every reflection count; brentq in LayeredRayTracer.solutions is not modelled: its launch angles are "
              "validated as certificates (sum of the model's radial distances = rho); the radial distance inside an "
              "exponential layer is the closed form of property C01 and enters C18_split_exponential_telescopes as an "
              "arbitrary antiderivative F; two-element groups (turn-over inside a gradient layer) are modelled in stepAngle "
              "but exercised only through the split-AntarcticIce comparison, whose tolerance includes the closed-form "
              "cancellation noise of finding K9 (property C02) and whose endpoints stay above z_uniform with rho >= "
              "0.15 |dz| + 5 m; an endpoint exactly on a range bound gives a zero-length leg whose direction / Fresnel "
              "angle is 0/0 (points, length, tof compared only); C18_build_path_complete is proved for every "
              "max_reflections (the design asked for <= 2); hypothesis audit: C18_uniform_directions needs first and last leg > 0 - "
              "on the excluded set the code is wrong (K22: endpoint on the reflecting bound, zero-thickness layer; negation "
              "C18_emitted_zero_on_boundary) or raises (both endpoints on the bound: ValueError, C18_points_reject_zero_angle, "
              "checked); C18_snell_at_boundary's two = false is lifted by C18_step_two_group, theta != pi/2 by "
              "C18_horizontal_radial; identical endpoints / both endpoints on one cut give a duplicated solution (K23); "
              "_build_path with level > max_level does not terminate (model: no path; RecursionError checked); completeness of the layered solution set is a search/correspondence "
              "class only (brentq and the 1-degree launch-angle grid are not modelled): two roots inside one grid cell, e.g. at "
              "the indirect_r_max edge, are outside the sampled classes")
ASSUMPTIONS = ["scipy.constants.c = 299792458 m/s is hard-coded in twin/Uniform.body (the tof comparison notices a change)",
               "LayeredRayTracePath.fresnel transmission amplitudes > 1 (finding K2) belong to property C03"]
C_LIGHT = 299792458.0


def _mods():
    import pyrex  # noqa: F401
    from pyrex import ray_tracing as rt
    from pyrex import ice_model as im
    from pyrex.custom.layered_ice import LayeredIce, LayeredRayTracer
    return rt, im, LayeredIce, LayeredRayTracer



def solve(run, tr, data, where, report=None):
    """the solutions of a tracer, or None after the exception went through the shared classifier (K17 or violation)"""
    import logging
    logging.disable(logging.CRITICAL)
    try:
        with np.errstate(all="ignore"):
            return list(tr.solutions)
    except Exception as e:
        raylib.tracer_exception(run, e, "crash", data, where, report)
        return None
    finally:
        logging.disable(logging.NOTSET)


def guarded(where):
    """oracle(run, data, ...) whose tracer exceptions go through the shared classifier"""
    def deco(fn):
        def wrapped(run, data=None, *a, **kw):
            try:
                return fn(run, data, *a, **kw)
            except Exception as e:
                return raylib.tracer_exception(run, e, "crash", data if isinstance(data, dict) else {"input": data}, where)
        wrapped.__name__ = fn.__name__
        return wrapped
    return deco


def opt(v):
    return "-" if v is None else str(fw.f2b(v))


def uice_toks(ice):
    return "%s %s %s" % (fw.fl([ice.n, ice.valid_range[0], ice.valid_range[1]]), opt(ice._index_above),
                         opt(ice._index_below))


def fls(x):
    return [float(v) for v in np.asarray(x, dtype=float).ravel()]


# --------------------------------------------------------------------------------------------
# generators
def rand_uice(run, im):
    n = run.rng.uniform(1.2, 2.0)
    lo = -run.rng.uniform(100, 3000)
    hi = run.rng.choice([0.0, 0.0, -run.rng.uniform(1, 80)])
    ab = run.rng.choice([1, 1.0, None, run.rng.uniform(1.0, 1.4), run.rng.uniform(n + 0.05, 2.6)])
    be = run.rng.choice([None, run.rng.uniform(1.0, n - 0.05), run.rng.uniform(n + 0.05, 2.8), run.rng.uniform(1.0, 2.8)])
    return im.UniformIce(n, valid_range=(lo, hi), index_above=ab, index_below=be)


def rand_pair(run, lo, hi, kind=None):
    """endpoints strictly inside (lo,hi) unless a special kind says otherwise"""
    r = run.rng
    kind = kind or r.choice(["general"] * 6 + ["far", "vertical", "level", "outside", "boundary", "boundary", "both-on-bound", "same", "intform", "intform"])
    span = hi - lo
    z0 = lo + span * r.uniform(0.02, 0.98)
    z1 = lo + span * r.uniform(0.02, 0.98)
    off = 1e5 if kind == "far" else 1e3
    A = [r.uniform(-off, off), r.uniform(-off, off), z0]
    d = 10 ** r.uniform(0, 3.5)
    az = r.uniform(0, 2 * math.pi)
    B = [A[0] + d * math.cos(az), A[1] + d * math.sin(az), z1]
    if kind == "vertical":
        B[0], B[1] = A[0], A[1]
    elif kind == "level":
        B[2] = A[2]
    elif kind == "outside":
        if r.random() < 0.5:
            A[2] = hi + r.uniform(0.1, 50)
        else:
            B[2] = lo - r.uniform(0.1, 50)
    elif kind == "boundary":
        if r.random() < 0.5:
            A[2] = r.choice([lo, hi])
        else:
            B[2] = r.choice([lo, hi])
    elif kind == "both-on-bound":
        A[2] = B[2] = r.choice([lo, hi])
    elif kind == "same":
        B = list(A)
    elif kind == "intform":
        # integer-valued coordinates (the caller hands them over as ints / int arrays); keep them strictly inside
        A = [round(A[0]), round(A[1]), min(max(round(A[2]), math.floor(lo) + 2), math.ceil(hi) - 2)]
        B = [round(B[0]), round(B[1]), min(max(round(B[2]), math.floor(lo) + 2), math.ceil(hi) - 2)]
        if (A[0], A[1]) == (B[0], B[1]):
            B[0] += 7
    return kind, [float(v) for v in A], [float(v) for v in B]


def zero_legs(lo, hi, zA, zB, refl, up):
    """(first leg empty, last leg empty): an endpoint lying exactly on the bound the reflected path leaves it for /
    arrives from (class of finding K22)"""
    if refl < 1:
        return False, False
    first = (zA == hi) if up else (zA == lo)
    last_up = up if (refl - 1) % 2 == 0 else (not up)      # direction of travel before the last reflection
    last = (zB == hi) if last_up else (zB == lo)
    return bool(first), bool(last)


INT_FORMS = ["int-tuple", "int-list", "int64"]


def as_form(P, form):
    """integer-valued coordinates as Python ints / int list / int64 array / float32 array; anything else as floats"""
    if not form or form == "float64" or any(float(v) != int(v) for v in P):
        return [float(v) for v in P]
    if form == "int-tuple":
        return tuple(int(v) for v in P)
    if form == "int-list":
        return [int(v) for v in P]
    if form == "int64":
        return np.array([int(v) for v in P], dtype=np.int64)
    if form == "float32":
        return np.array(P, dtype=np.float32)
    raise ValueError(form)


# --------------------------------------------------------------------------------------------
def uniform_impl(rt, ice, A, B, maxref):
    """everything the implementation reports for one UniformRayTracer"""
    tr = rt.UniformRayTracer(A, B, ice)
    tr.max_reflections = maxref
    out = []
    for p in tr.solutions:
        rec = {"refl": int(p._reflections), "theta": float(p.theta0)}
        try:
            with np.errstate(all="ignore"):
                rec["points"] = fls(p._points)
                rec["len"] = float(p.path_length)
                rec["tof"] = float(p.tof)
                rec["emitted"] = fls(p.emitted_direction)
                rec["received"] = fls(p.received_direction)
        except ValueError as e:
            rec["err"] = str(e)
        if "err" not in rec:
            try:
                with np.errstate(all="ignore"):
                    f = p.fresnel
                rec["fresnel"] = [float(np.real(f[0])), float(np.imag(f[0])), float(np.real(f[1])), float(np.imag(f[1]))]
            except ValueError as e:
                rec["fresnel"] = "err"
        out.append(rec)
    return tr, out


def corr_uniform(run):
    rt, im, LayeredIce, LayeredRayTracer = _mods()
    cases, reqs = [], []
    n = run.scale(250, 3000)
    for i in range(n):
        ice = rand_uice(run, im)
        kind, A, B = rand_pair(run, *ice.valid_range)
        maxref = run.rng.choice([0, 1, 2, 3, 3, 3, 4, 6])
        form = run.rng.choice(INT_FORMS) if kind == "intform" else None
        tr, sols = uniform_impl(rt, ice, as_form(A, form), as_form(B, form), maxref)
        run.count("uniform_" + kind)
        run.count("uniform_maxref_%d" % maxref)
        run.count("uniform_guard_%s_%s" % ("N" if ice._index_above is None else "v", "N" if ice._index_below is None else "v"))
        it = uice_toks(ice)
        ridx = len(reqs)
        reqs.append("usols %s %d %s" % (it, maxref, fw.fl(A + B)))
        for s in sols:
            reqs.append("upath %s %s %d %s" % (it, fw.fl(A + B), s["refl"], fw.fl([s["theta"]])))
        cases.append((kind, ice, A, B, maxref, sols, ridx, bool(tr.exists)))
    replies = fw.run_driver("C18", reqs)
    ok = True
    for kind, ice, A, B, maxref, sols, ridx, ex in cases:
        desc = ("uniform", kind, ice.n, ice.valid_range, ice._index_above, ice._index_below, tuple(A), tuple(B), maxref)
        run.case(desc, nontrivial=(maxref > 0 or kind != "general"),
                 sample={"kind": "uniform/" + kind, "A": A, "B": B, "max_reflections": maxref, "n_solutions": len(sols)})
        bad = None
        rp = replies[ridx]
        got = fw.unfl(rp.split()) if rp not in ("bad-op", "err") else None
        exp = []
        for s in sols:
            exp += [float(s["refl"]), s["theta"]]
        if got is None:
            bad = "usols reply %s" % rp
        else:
            g2 = []
            for j in range(0, len(got), 3):
                g2 += [got[j], got[j + 2]]
            if not fw.all_close(g2, exp, 1e-12, 1e-15):
                bad = "solution list (refl, theta0) model=%s impl=%s" % (g2[:10], exp[:10])
            if ex != (len(got) > 0):
                bad = "exists=%s but model lists %d solutions" % (ex, len(got) // 3)
        for k, s in enumerate(sols):
            if bad:
                break
            rp = replies[ridx + 1 + k]
            if "err" in s:
                if rp != "err":
                    bad = "path refl=%d raises %r in the implementation, model answers %s" % (s["refl"], s["err"], rp[:80])
                continue
            if rp in ("err", "bad-op"):
                bad = "path refl=%d model answers %s, implementation %s" % (s["refl"], rp, s["points"][:6])
                continue
            main, fr = rp.split(" F ")
            g = fw.unfl(main.split())
            npt = 3 * (s["refl"] + 2)
            want = s["points"] + [s["len"], s["tof"]] + s["emitted"] + s["received"]
            scale = max(1.0, max(abs(v) for v in A + B))
            if len(g) != len(want) or not all(fw.close(a, b, 1e-11, 1e-11 * scale) for a, b in zip(g[:npt], want[:npt])):
                bad = "points refl=%d model=%s impl=%s" % (s["refl"], g[:npt], want[:npt])
            elif not fw.all_close(g[npt:npt + 2], want[npt:npt + 2], 1e-11, 0.0):
                bad = "length/tof refl=%d model=%s impl=%s" % (s["refl"], g[npt:npt + 2], want[npt:npt + 2])
            elif any(zero_legs(ice.valid_range[0], ice.valid_range[1], A[2], B[2], s["refl"], s["theta"] > 0)):
                # K22: a leg of zero length next to an endpoint on the reflecting bound: its direction is 0/0 (zero vector
                # or normalised rounding noise) and the Fresnel angle NaN; the other direction is still compared
                z1, z2 = zero_legs(ice.valid_range[0], ice.valid_range[1], A[2], B[2], s["refl"], s["theta"] > 0)
                run.known_finding("K22")
                run.count("K22_zero_leg")
                if not z1 and not fw.all_close(g[npt + 2:npt + 5], want[npt + 2:npt + 5], 1e-9, 1e-11):
                    bad = "emitted direction refl=%d model=%s impl=%s" % (s["refl"], g[npt + 2:npt + 5], want[npt + 2:npt + 5])
                if not z2 and not fw.all_close(g[npt + 5:], want[npt + 5:], 1e-9, 1e-11):
                    bad = "received direction refl=%d model=%s impl=%s" % (s["refl"], g[npt + 5:], want[npt + 5:])
            elif not fw.all_close(g[npt + 2:], want[npt + 2:], 1e-9, 1e-11):
                bad = "directions refl=%d model=%s impl=%s" % (s["refl"], g[npt + 2:], want[npt + 2:])
            else:
                if s["fresnel"] == "err" or fr == "err":
                    if not (s["fresnel"] == "err" and fr == "err"):
                        bad = "fresnel refl=%d model=%s impl=%s" % (s["refl"], fr, s["fresnel"])
                elif not fw.all_close(fw.unfl(fr.split()), s["fresnel"], 1e-8, 1e-10):
                    bad = "fresnel refl=%d model=%s impl=%s" % (s["refl"], fw.unfl(fr.split()), s["fresnel"])
        if bad:
            ok = False
            run.note_broken("correspondence: uniform %s A=%s B=%s ice=(%s,%s,%s,%s) max_reflections=%d: %s"
                            % (kind, A, B, ice.n, ice.valid_range, ice._index_above, ice._index_below, maxref, bad))
        else:
            run.traces += 1
    return ok


# --------------------------------------------------------------------------------------------
def paths_of(reply):
    reply = reply.strip()
    if not reply:
        return []
    return [tuple(int(x) for x in p.split(",")) for p in reply.split("|")]


def uniform_stack(run, im, LayeredIce, nlayers, distinct=True):
    r = run.rng
    bounds = [0.0]
    for _ in range(nlayers):
        bounds.append(bounds[-1] - r.uniform(40, 400))
    layers = []
    ns = []
    for i in range(nlayers):
        n = r.uniform(1.3, 1.9)
        while distinct and ns and abs(n - ns[-1]) < 0.03:
            n = r.uniform(1.3, 1.9)
        ns.append(n)
        layers.append(im.UniformIce(n, valid_range=(bounds[i + 1], bounds[i]), index_above=None, index_below=None))
    ab = r.choice([1, 1.0, None, r.uniform(1, 1.3)])
    be = r.choice([None, None, r.uniform(1.0, 2.5)])
    return LayeredIce(layers, index_above=ab, index_below=be), bounds


def corr_enumeration(run):
    rt, im, LayeredIce, LayeredRayTracer = _mods()
    from pyrex.internal_functions import flatten
    reqs, exp, descs = [], [], []
    maxr = run.scale(3, 4)
    for m in range(0, 5):
        for s in range(0, m + 1):
            for down in (0, 1):
                for r in range(0, maxr + 1):
                    tree = LayeredRayTracer._build_path((s,), 1 if down else -1, r, m)
                    leaves = [tuple(p) for p in flatten(tree, dont_flatten=(tuple,))]
                    reqs.append("build %d %d %d %d" % (m, s, down, r))
                    exp.append(leaves)
                    descs.append(("build", m, s, down, r))
    # _potential_paths on real tracers
    for i in range(run.scale(25, 200)):
        nl = run.rng.randint(1, 5)
        ice, bounds = uniform_stack(run, im, LayeredIce, nl, distinct=False)
        s, e = run.rng.randrange(nl), run.rng.randrange(nl)
        z0 = run.rng.uniform(bounds[s + 1] + 1, bounds[s] - 1)
        z1 = run.rng.uniform(bounds[e + 1] + 1, bounds[e] - 1)
        tr = LayeredRayTracer((0, 0, z0), (10, 0, z1), ice)
        r = run.rng.randint(0, maxr)
        tr.max_reflections = r
        up, dn = tr._potential_paths
        reqs.append("potential %d %d %d %d" % (nl - 1, s, e, r))
        exp.append((set(up), set(dn)))
        descs.append(("potential", nl - 1, s, e, r))
    replies = fw.run_driver("C18", reqs)
    ok = True
    for rq, ex, rp, d in zip(reqs, exp, replies, descs):
        run.case(d, nontrivial=(d[-1] > 0), sample={"request": rq, "impl": str(ex)[:200]})
        run.count("enum_" + d[0])
        if d[0] == "build":
            good = rp != "bad-op" and paths_of(rp) == ex
        else:
            if rp == "bad-op" or ";" not in rp:
                good = False
            else:
                u, dn = rp.split(";")
                good = (set(paths_of(u)), set(paths_of(dn))) == ex
        if good:
            run.traces += 1
        else:
            ok = False
            run.note_broken("correspondence: %s model=%s impl=%s" % (rq, rp[:300], str(ex)[:300]))
    return ok


# --------------------------------------------------------------------------------------------
def horiz(a, b):
    return math.hypot(b[0] - a[0], b[1] - a[1])


def layered_solution_record(tr, sol):
    """walk, depths, angles and points of a layered solution as the implementation reports it"""
    ice = tr.ice
    levels = [ice.layers.index(sp.ice) for sp in sol.paths]
    pts = [fls(sol.paths[0].from_point)] + [fls(sp.to_point) for sp in sol.paths]
    froms = [fls(sp.from_point) for sp in sol.paths]
    return levels, pts, froms


def corr_layered_uniform_stacks(run):
    """genuine stacks of uniform layers: the implementation's launch angle is a certificate; the twin re-traces the
    walk (radial distances, Snell / mirror angles) and chains the points"""
    rt, im, LayeredIce, LayeredRayTracer = _mods()
    cases, reqs = [], []
    for i in range(run.scale(30, 300)):
        nl = run.rng.randint(2, 4)
        ice, bounds = uniform_stack(run, im, LayeredIce, nl)
        s, e = run.rng.randrange(nl), run.rng.randrange(nl)
        z0 = run.rng.uniform(bounds[s + 1] + 2, bounds[s] - 2)
        z1 = run.rng.uniform(bounds[e + 1] + 2, bounds[e] - 2)
        A = [run.rng.uniform(-500, 500), run.rng.uniform(-500, 500), z0]
        d, az = 10 ** run.rng.uniform(1, 2.8), run.rng.uniform(0, 2 * math.pi)
        B = [A[0] + d * math.cos(az), A[1] + d * math.sin(az), z1]
        tr = LayeredRayTracer(A, B, ice)
        tr.max_reflections = run.rng.choice([0, 1, 1, 2])
        sols = solve(run, tr, {"bounds": bounds, "n": [l.n for l in ice.layers], "above": ice._index_above,
                               "below": ice._index_below, "A": A, "B": B}, "uniform stack (correspondence)")
        if sols is None:
            continue
        run.count("layered_stack_%d_layers" % nl)
        run.count("layered_stack_solutions", len(sols))
        for sol in sols:
            levels, pts, froms = layered_solution_record(tr, sol)
            k = len(levels)
            angle = float(sol.paths[0].theta0)
            groups = []
            for j in range(k):
                lay = ice.layers[levels[j]]
                za, zb = pts[j][2], pts[j + 1][2]
                trans = j < k - 1 and levels[j] != levels[j + 1]
                nn = ice.layers[levels[j + 1]].n if j < k - 1 else lay.n
                groups.append("%s %d %d %d %d %d" % (fw.fl([za, zb, lay.n, nn, lay.n]), int(trans), int(levels[j] == 0),
                                                     int(levels[j] == nl - 1), int(ice._index_above is None),
                                                     int(ice._index_below is None)))
            rho = float(tr.rho)
            ridx = len(reqs)
            reqs.append("trace %s %d %s" % (fw.fl([rho, angle]), k, " ".join(groups)))
            drs = [horiz(pts[j], pts[j + 1]) for j in range(k)]
            reqs.append("chain %s %d %s" % (fw.fl(A + B), k, fw.fl(drs + [p[2] for p in pts[1:]])))
            cases.append((ice, bounds, A, B, tr.max_reflections, levels, pts, froms, angle, drs,
                          [float(sp.theta0) for sp in sol.paths], rho, ridx))
    replies = fw.run_driver("C18", reqs)
    ok = True
    for ice, bounds, A, B, mr, levels, pts, froms, angle, drs, angs, rho, ridx in cases:
        desc = ("layered-stack", tuple(bounds), tuple(l.n for l in ice.layers), tuple(A), tuple(B), tuple(levels))
        run.case(desc, nontrivial=len(levels) > 1,
                 sample={"kind": "layered-stack", "A": A, "B": B, "walk": levels, "launch_angle": angle})
        bad = None
        t = replies[ridx].split()
        if replies[ridx] == "bad-op" or "nan" in t or len(t) != 2 * len(levels):
            bad = "trace reply %s" % replies[ridx][:200]
        else:
            vals = fw.unfl(t)
            mdrs, mang = vals[0::2], vals[1::2]
            if not fw.all_close(mang, angs, 1e-9, 1e-11):
                bad = "launch angles per layer model=%s impl=%s" % (mang, angs)
            # certificate: the model's radial distances add up to rho (root of the launch-angle search) ...
            elif abs(sum(mdrs) - rho) > 1e-6 * max(1.0, rho):
                bad = "certificate: model radial distances %s sum to %r, rho=%r" % (mdrs, sum(mdrs), rho)
            # ... and are the horizontal extents of the sub-paths (the last one is closed by the receiver itself)
            elif not all(abs(a - b) <= 1e-6 * max(1.0, rho) for a, b in zip(mdrs, drs)):
                bad = "radial distances model=%s impl=%s" % (mdrs, drs)
        if not bad:
            g = fw.unfl(replies[ridx + 1].split()) if replies[ridx + 1] != "bad-op" else None
            want = [v for p in pts for v in p]
            if g is None or not fw.all_close(g, want, 1e-9, 1e-7):
                bad = "chained points model=%s impl=%s" % (g, want)
            elif any(f != p for f, p in zip(froms, pts[:-1])):
                bad = "sub-path start points %s are not the previous end points %s" % (froms, pts[:-1])
        if bad:
            ok = False
            run.note_broken("correspondence: layered stack bounds=%s n=%s above=%s below=%s A=%s B=%s max_reflections=%d "
                            "walk=%s: %s" % (bounds, [l.n for l in ice.layers], ice._index_above, ice._index_below,
                                             A, B, mr, levels, bad))
        else:
            run.traces += 1
    return ok


# --------------------------------------------------------------------------------------------
# split media: layered solutions against the unsplit tracer (implementation against implementation)
def split_params(run, kind):
    """random description of a cut medium and an endpoint pair (JSON-serialisable, used by replay)"""
    r = run.rng
    ncut = r.randint(1, 3)
    if kind == "uniform":
        n = r.uniform(1.3, 1.9)
        lo = -r.uniform(300, 2500)
        ab = r.choice([1, 1.0, r.uniform(1.0, 1.3), None])
        be = r.choice([None, r.uniform(1.0, 2.4)])
        zA, zB = r.uniform(lo * 0.9, -5), r.uniform(lo * 0.9, -5)
        cuts = sorted({round(r.uniform(lo * 0.95, -2), 3) for _ in range(ncut)}, reverse=True)
        params = {"n": n, "lo": lo, "above": ab, "below": be, "cuts": cuts, "subclass": r.random() < 0.3,
                  "zero_layer": r.random() < 0.15}
    else:
        # endpoints above z_uniform (-764 m) and not near-vertical: below / steeper than that the one-medium tracer
        # itself is only approximate (deep-ice uniform index, small-beta cancellation: property C01)
        cls = r.choice(["AntarcticIce", "AntarcticIce", "ArasimIce", "GreenlandIce"])
        top = -380.0 if cls == "GreenlandIce" else -700.0        # z_uniform of GreenlandIce is -410 m
        zA, zB = r.uniform(top, -20), r.uniform(top + 100, -10)
        cuts = sorted({round(r.uniform(top - 40, -5), 3) for _ in range(ncut)}, reverse=True)
        params = {"cuts": cuts, "cls": cls}
    for c in cuts:      # keep the endpoints off the cuts
        if abs(zA - c) < 0.5:
            zA = c - 0.7
        if abs(zB - c) < 0.5:
            zB = c - 0.7
    A = [r.uniform(-300, 300), r.uniform(-300, 300), zA]
    d, az = 10 ** r.uniform(1.2, 2.7), r.uniform(0, 2 * math.pi)
    if kind != "uniform":
        d = max(d, 0.15 * abs(zA - zB) + 5)
    B = [A[0] + d * math.cos(az), A[1] + d * math.sin(az), zB]
    return {"kind": kind, "params": params, "A": A, "B": B}


def split_build(data):
    rt, im, LayeredIce, LayeredRayTracer = _mods()
    kind, params = data["kind"], data["params"]
    cuts = list(params["cuts"])
    if kind == "uniform":
        n, lo, ab, be = params["n"], params["lo"], params["above"], params["below"]
        U = im.UniformIce
        if params.get("subclass"):
            class SlabIce(im.UniformIce):        # a user subclass of a shipped ice: traced by the same tracer
                pass
            U = SlabIce
        full = im.UniformIce(n, valid_range=(lo, 0.0), index_above=ab, index_below=be)
        edges = [0.0] + cuts + [lo]
        if params.get("zero_layer") and cuts:
            edges = [0.0] + [cuts[0]] + cuts + [lo]        # a layer of zero thickness at the first cut
        layers = [U(n, valid_range=(edges[i + 1], edges[i]), index_above=None, index_below=None)
                  for i in range(len(edges) - 1)]
        lice = LayeredIce(layers, index_above=ab, index_below=be)
        unsplit = lambda A, B: _with(rt.UniformRayTracer(A, B, full), max_reflections=data.get("max_reflections", 1))
    else:
        C = getattr(im, params.get("cls", "AntarcticIce"))
        full = C()
        edges = [0.0] + cuts + [float(full.valid_range[0])]
        layers = [C(valid_range=(edges[i + 1], edges[i]), index_above=(1 if i == 0 else None),
                                  index_below=None) for i in range(len(edges) - 1)]
        lice = LayeredIce(layers, index_above=1, index_below=None)
        unsplit = lambda A, B: rt.SpecializedRayTracer(A, B, full)
    return full, lice, unsplit


def _with(obj, **kw):
    for k, v in kw.items():
        setattr(obj, k, v)
    return obj


def cancellation_noise(path):
    """metres of rounding noise of the closed forms of SpecializedRayTracePath (finding K9 of property C02; same
    estimate as harness/props/C02.py, calibrated there: observed jitter <= 8.1 x estimate)"""
    if hasattr(path, "paths"):
        return sum(cancellation_noise(sp) for sp in path.paths)
    if not hasattr(path, "uniformity_factor"):
        return 0.0
    ice = path.ice
    beta = abs(float(path.beta))
    ze = max(min(float(path.z0), float(path.z1)), float(path.z_uniform), float(ice.valid_range[0]))
    dn = float(ice.n0) - float(ice.index(ze))
    if beta <= 0 or dn <= 0:
        return float("inf")
    return 2.2e-16 * float(ice.n0) ** 2 / (float(ice.a) * beta ** 2 * dn ** 2)


def cut_reflection(sol, lice):
    """the solution turns around at an interior (artificial) boundary"""
    inner = lice.boundaries[1:-1]
    for sp in sol.paths:
        # a single-layer path that turns around at the top of its own layer (index_above None: nothing to reflect off)
        if getattr(sp, "direct", True) is False and hasattr(sp, "z_turn"):
            top = sp.ice.valid_range[1]
            if float(sp.z_turn) >= top - 1e-9 and any(abs(top - z) < 1e-9 for z in inner):
                return True
    for a, b in zip(sol.paths[:-1], sol.paths[1:]):
        if np.sign(a.received_direction[2]) != np.sign(b.emitted_direction[2]):
            if any(abs(a.to_point[2] - z) < 1e-9 for z in inner):
                return True
    return False


def check_split(run, kind, report, data=None):
    """True when the cut medium reproduces the unsplit one; `report(kind, data, observed, expected, what)` otherwise"""
    rt, im, LayeredIce, LayeredRayTracer = _mods()
    data = data or split_params(run, kind)
    kind, params, A, B = data["kind"], data["params"], data["A"], data["B"]
    full, lice, unsplit = split_build(data)
    try:
        with np.errstate(all="ignore"):
            us = unsplit(A, B).solutions
            ltr = LayeredRayTracer(A, B, lice)
            ltr.max_reflections = data.get("max_reflections", 1)
            ls = list(ltr.solutions)
            [(s_.path_length, s_.tof, s_.fresnel, s_.emitted_direction, s_.received_direction) for s_ in ls]
    except Exception as e:
        run.case(("split", kind, str(params), tuple(A), tuple(B)), nontrivial=True)
        return raylib.tracer_exception(run, e, "split-crash", data, "tracing the cut / unsplit medium", report)
    run.case(("split", kind, str(params), tuple(A), tuple(B)), nontrivial=True,
             sample={"kind": "split/" + kind, "A": A, "B": B, "cuts": params["cuts"], "unsplit": len(us), "layered": len(ls)})
    run.count("split_%s_cuts_%d" % (kind, len(params["cuts"])))
    ltol = 1e-7 if kind == "uniform" else 1e-3     # metres; exponential: cancellation in the closed forms (C01)
    used = set()
    for u in us:
        ul, ut = float(u.path_length), float(u.tof)
        E = cancellation_noise(u)
        uln = max(ul, 1e-3)       # identical endpoints: zero-length path
        best = None
        for j, l in enumerate(ls):
            if j in used:
                continue
            dl = abs(float(l.path_length) - ul)
            if best is None or dl < best[0]:
                best = (dl, j)
        if best is not None:
            E = max(E, cancellation_noise(ls[best[1]]))
        if best is None or best[0] > ltol + 25 * E:
            report("split-missing", data, observed=[(float(l.path_length), float(l.tof)) for l in ls],
                   expected=(ul, ut), what="a solution of the unsplit %s medium is not reproduced by the layered tracer" % kind)
            return False
        l = ls[best[1]]
        used.add(best[1])
        if abs(float(l.tof) - ut) > ((1e-9 if kind == "uniform" else 2e-6) + 25 * E / uln) * ut + 1e-18:
            report("split-tof", data, observed=float(l.tof), expected=ut, what="time of flight of the split medium differs")
            return False
        e1, e2 = np.asarray(u.emitted_direction, float), np.asarray(l.emitted_direction, float)
        r1, r2 = np.asarray(u.received_direction, float), np.asarray(l.received_direction, float)
        dtol = (1e-7 if kind == "uniform" else 1e-5) + 10 * E / uln
        if np.max(np.abs(e1 - e2)) > dtol or np.max(np.abs(r1 - r2)) > dtol:
            report("split-direction", data, observed=[fls(e2), fls(r2)], expected=[fls(e1), fls(r1)],
                   what="emitted/received direction of the split medium differs")
            return False
        # attenuation: the product over the single-layer paths is the attenuation of the unsplit path (both are
        # discretised with ~1 m steps: 2e-3 of the exponent)
        fq = np.array([1e8, 3e8, 8e8])
        with np.errstate(all="ignore"):
            au, al = np.asarray(u.attenuation(fq), float), np.asarray(l.attenuation(fq), float)
        if np.all(au > 1e-250) and np.all(al > 1e-250):
            eu, el = -np.log(au), -np.log(al)
            if np.any(np.abs(eu - el) > 2e-3 * np.abs(eu) + 1e-6 + 0.01 * E):
                report("split-attenuation", data, observed=al.tolist(), expected=au.tolist(),
                       what="attenuation of the chained single-layer paths differs from the unsplit path")
                return False
        # unit transmission: the layered Fresnel product equals the unsplit path's own factor
        fu, fl_ = u.fresnel, l.fresnel
        if params.get("zero_layer") and run.finding_for("K22"):
            # K22 (zero-length leg): a layer of zero thickness gives a sub-path without direction; only the Fresnel
            # product is excused, geometry / length / tof / directions above were compared
            run.known_finding("K22")
            run.count("K22_zero_layer")
            continue
        if max(abs(complex(fu[0]) - complex(fl_[0])), abs(complex(fu[1]) - complex(fl_[1]))) > (1e-7 if kind == "uniform" else 1e-5) + 10 * E / uln:
            report("split-transmission", data, observed=[complex(fl_[0]), complex(fl_[1])], expected=[complex(fu[0]), complex(fu[1])],
                   what="crossing an artificial cut changes the amplitude (transmission factor is not 1)")
            return False
    for j, l in enumerate(ls):
        if j in used:
            continue
        f = l.fresnel
        run.count("split_surplus")
        inner = [float(z) for z in lice.boundaries[1:-1]]
        k23_geometry = list(A) == list(B) or (A[2] == B[2] and any(A[2] == z for z in inner))
        twin = [m for m in used if abs(float(ls[m].path_length) - float(l.path_length)) <= 1e-6
                and abs(float(ls[m].tof) - float(l.tof)) <= 1e-9 * float(l.tof) + 1e-14
                and max(abs(complex(ls[m].fresnel[0]) - complex(f[0])), abs(complex(ls[m].fresnel[1]) - complex(f[1]))) < 1e-9]
        if k23_geometry and twin and run.finding_for("K23"):
            # K23: the same degenerate path listed twice with full amplitude (identical endpoints / both on one cut)
            run.known_finding("K23")
            run.count("K23_duplicate")
            continue
        if not cut_reflection(l, lice) or max(abs(complex(f[0])), abs(complex(f[1]))) > 1e-6:
            report("split-surplus", data, observed={"len": float(l.path_length), "fresnel": [complex(f[0]), complex(f[1])],
                                                    "walk": [lice.layers.index(sp.ice) for sp in l.paths]},
                   expected="zero-amplitude reflection off an artificial cut",
                   what="the layered tracer reports a solution the unsplit medium does not have")
            return False
    return True


def corr_split(run):
    ok = True

    def report(kind, data, observed=None, expected=None, what=None):
        run.note_broken("correspondence: %s %s observed=%s expected=%s (%s)" % (kind, data, observed, expected, what))
    for kind, n in (("uniform", run.scale(30, 300)), ("antarctic", run.scale(15, 150))):
        for i in range(n):
            if check_split(run, kind, report):
                run.traces += 1
            else:
                ok = False
    return ok


F18_INPUT = {"layers": [{"type": "a", "range": [-396.1845488571528, 0.0]},
                        {"type": "u", "n": 1.7348616652482063, "range": [-2850.0, -396.1845488571528]}],
             "above": 1, "below": None, "max_reflections": 1,
             "A": [-441.81386532315724, -43.44463071246474, -128.93988855717305],
             "B": [285.72888770052833, -1051.3776871926834, -113.03222256732371]}


def corpus(run):
    """regression input of the repaired defect F18: reflection off the lower boundary of a gradient-index layer must be a
    mirror reflection at the ARRIVAL angle (before the repair the sub-path angles were 113.49 deg then 66.51 deg)"""
    return oracle_gradient_stack(run, dict(F18_INPUT))


def known_probes(run):
    """K22 (a leg of zero length has no direction) and K23 (degenerate path listed twice) on their recorded inputs"""
    rt, im, LayeredIce, LayeredRayTracer = _mods()
    with np.errstate(all="ignore"):
        u = im.UniformIce(1.5, valid_range=(-100, 0), index_above=1, index_below=1.3)
        t = rt.UniformRayTracer((0, 0, 0.0), (30, 40, -50), u)
        t.max_reflections = 1
        e = np.asarray(t.solutions[1].emitted_direction, float)
        if abs(float(np.sqrt(np.sum(e ** 2))) - 1.0) > 1e-6:
            run.known_finding("K22")
        st = LayeredIce([im.UniformIce(1.4, valid_range=(-150, 0), index_above=None, index_below=None),
                         im.UniformIce(1.7, valid_range=(-400, -150), index_above=None, index_below=None)], index_above=1)
        ls = [float(p.path_length) for p in LayeredRayTracer((0, 0, -150.0), (100, 0, -150.0), st).solutions]
        if len(ls) >= 2 and abs(ls[0] - ls[1]) < 1e-9:
            run.known_finding("K23")
    run.extra["K22_probe_emitted"] = e.tolist()
    run.extra["K23_probe_lengths"] = ls


def correspondence(run):
    ok = corr_uniform(run)
    ok = corr_enumeration(run) and ok
    ok = corr_layered_uniform_stacks(run) and ok
    ok = corr_layered_gradient(run) and ok
    ok = corr_split(run) and ok
    return ok


# --------------------------------------------------------------------------------------------
# search: explicit mirror-image construction, on the implementation alone
def mirror_image_z(z1, lo, hi, refl, up):
    """depth of the receiver mirrored `refl` times: unfold the reflections one by one, starting with the last"""
    z = z1
    # the k-th reflection (k = refl-1 .. 0) is off hi when the ray travels upward before it
    for k in range(refl - 1, -1, -1):
        going_up = up if k % 2 == 0 else not up
        plane = hi if going_up else lo
        z = 2 * plane - z
    return z


def oracle_uniform(run, rt, ice, A, B, maxref, kind):
    lo, hi = ice.valid_range
    tr = rt.UniformRayTracer(A, B, ice)
    tr.max_reflections = maxref
    data = {"ice": [ice.n, lo, hi, ice._index_above, ice._index_below], "A": A, "B": B, "max_reflections": maxref}
    inside = lo <= A[2] <= hi and lo <= B[2] <= hi
    sols = solve(run, tr, data, "uniform tracer")
    if sols is None:
        return
    if bool(tr.exists) != (len(sols) > 0) or bool(tr.exists) != inside:
        run.fail_input("uniform-exists", data, observed=[bool(tr.exists), len(sols)], expected=inside,
                       what="UniformRayTracer.exists / solutions disagree with 'both endpoints inside the range'")
        return
    if not inside:
        return
    allowed = [(0, True)]
    for r in range(1, maxref + 1):
        for up in (True, False):
            top_used = r > 1 or up
            bot_used = r > 1 or not up
            if (ice._index_above is None and top_used) or (ice._index_below is None and bot_used):
                continue
            allowed.append((r, up))
    if len(sols) != len(allowed):
        run.fail_input("uniform-count", data, observed=len(sols), expected=len(allowed),
                       what="number of uniform-ice solutions is not 1 + allowed (reflections, initial direction) pairs")
        return
    rho = math.hypot(B[0] - A[0], B[1] - A[1])
    if kind == "same":
        return
    for (refl, up), p in zip(allowed, sols):
        d = dict(data, reflections=refl, initial_up=up)
        zi = mirror_image_z(B[2], lo, hi, refl, up)
        L = math.sqrt(rho ** 2 + (zi - A[2]) ** 2)
        z_first, z_last = zero_legs(lo, hi, A[2], B[2], refl, up)
        degenerate = z_first or z_last
        if degenerate and run.finding_for("K22"):
            run.known_finding("K22")
        if refl and zi == A[2]:
            # both endpoints on the bound the path heads to: no vertical extent at all; the path object must refuse
            try:
                p._points
                run.fail_input("uniform-empty-path", d, observed=np.asarray(p._points, float).tolist(),
                               what="a reflected path without vertical extent does not raise ValueError")
                return
            except ValueError:
                continue
        pts = np.asarray(p._points, float)
        scale = max(1.0, abs(A[0]), abs(A[1]), abs(B[0]), abs(B[1]))
        if refl and ((zi > A[2]) != up):
            run.fail_input("uniform-image", d, observed=zi, what="oracle inconsistency: image on the wrong side")
            return
        if abs(float(p.path_length) - L) > 1e-9 * max(1.0, L) + 1e-10 * scale:
            run.fail_input("uniform-length", d, observed=float(p.path_length), expected=L,
                           what="path length is not the distance to the receiver mirrored `reflections` times")
            return
        if abs(float(p.tof) - ice.n * L / C_LIGHT) > 1e-9 * ice.n * L / C_LIGHT + 1e-19 * scale:
            run.fail_input("uniform-tof", d, observed=float(p.tof), expected=ice.n * L / C_LIGHT,
                           what="tof is not n L / c (n = index of the ice the endpoints lie in, bounds included)")
            return
        if not math.isfinite(L) or (degenerate and not (L > 0)):
            continue
        if len(pts) != refl + 2 or np.any(pts[0] != np.asarray(A)) or np.any(pts[-1] != np.asarray(B)):
            run.fail_input("uniform-endpoints", d, observed=pts.tolist(), what="path does not start/end at the endpoints")
            return
        for k in range(refl):
            going_up = up if k % 2 == 0 else not up
            if pts[k + 1][2] != (hi if going_up else lo):
                run.fail_input("uniform-boundary", d, observed=pts.tolist(), expected="reflection %d on %s" % (k, "hi" if going_up else "lo"),
                               what="reflection point is not on the ice boundary the ray is heading to")
                return
        if L > 0 and not (degenerate and run.finding_for("K22")):
            e = np.array([B[0] - A[0], B[1] - A[1], zi - A[2]]) / L
            rcv = e * np.array([1, 1, (-1) ** refl])
            if np.max(np.abs(np.asarray(p.emitted_direction, float) - e)) > 1e-8 + 1e-12 * scale / max(L, 1e-3) or \
                    np.max(np.abs(np.asarray(p.received_direction, float) - rcv)) > 1e-8 + 1e-12 * scale / max(L, 1e-3):
                run.fail_input("uniform-direction", d, observed=[fls(p.emitted_direction), fls(p.received_direction)],
                               expected=[e.tolist(), rcv.tolist()],
                               what="emitted/received direction is not the straight line to the mirrored receiver")
                return
            # unfolded, every reflection point lies on the straight segment source -> image: equal slopes
            zs_unf, z_acc = [A[2]], A[2]
            for k in range(1, refl + 2):
                z_acc += abs(pts[k][2] - pts[k - 1][2]) * (1 if up else -1) if refl else (pts[k][2] - pts[k - 1][2])
                zs_unf.append(z_acc)
            for k in range(1, refl + 1):
                t = (zs_unf[k] - A[2]) / (zi - A[2]) if zi != A[2] else 0.0
                want = np.array([A[0] + t * (B[0] - A[0]), A[1] + t * (B[1] - A[1])])
                if np.max(np.abs(pts[k][:2] - want)) > 1e-9 * max(1.0, rho) + 1e-10 * scale:
                    run.fail_input("uniform-mirror-law", d, observed=pts.tolist(), expected=want.tolist(),
                                   what="reflection point %d is not on the straight line to the mirrored receiver "
                                        "(angles of incidence and reflection differ)" % k)
                    return


def oracle_layered_chain(run, tr, sols, data):
    ice = tr.ice
    A, B = np.asarray(tr.from_point, float), np.asarray(tr.to_point, float)
    for sol in sols:
        sp = sol.paths
        walk = [ice.layers.index(s.ice) for s in sp]
        d = dict(data, walk=walk)
        # the residual of the launch-angle root (closed-form jitter of exponential legs, K9 of C02) ends up in the last
        # leg, whose direction is taken from its end points: 5 x noise [m] on directions of legs >= 1.5 m
        dtol = 1e-7 + 5 * cancellation_noise(sol)
        if np.any(np.asarray(sp[0].from_point) != A) or np.any(np.asarray(sp[-1].to_point) != B):
            run.fail_input("layered-ends", d, observed=[fls(sp[0].from_point), fls(sp[-1].to_point)],
                           what="layered solution does not start at the source / end at the receiver")
            return False
        for a, b in zip(sp[:-1], sp[1:]):
            if np.any(np.asarray(a.to_point) != np.asarray(b.from_point)):
                run.fail_input("layered-chain", d, observed=[fls(a.to_point), fls(b.from_point)],
                               what="consecutive single-layer paths are not joined")
                return False
            zb = float(a.to_point[2])
            if not any(abs(zb - z) < 1e-9 for z in ice.boundaries):
                run.fail_input("layered-boundary", d, observed=zb, expected=list(ice.boundaries),
                               what="sub-paths meet away from a layer boundary")
                return False
            ra, eb = np.asarray(a.received_direction, float), np.asarray(b.emitted_direction, float)
            na, nb = float(a.ice.index(zb)), float(b.ice.index(zb))
            ha, hb = math.hypot(ra[0], ra[1]), math.hypot(eb[0], eb[1])
            if a.ice is b.ice:
                # mirror reflection (or turning inside the layer): horizontal part kept, vertical part reversed
                if np.max(np.abs(ra - eb * np.array([1, 1, -1]))) > dtol:
                    run.fail_input("layered-mirror", d, observed=[ra.tolist(), eb.tolist()],
                                   what="reflection at a layer boundary is not a mirror reflection")
                    return False
            else:
                if abs(na * ha - nb * hb) > 2 * dtol or np.sign(ra[2]) != np.sign(eb[2]) or \
                        (ha > 1e-9 and np.max(np.abs(ra[:2] / ha - eb[:2] / max(hb, 1e-300))) > 1e-6 + 10 * dtol):
                    run.fail_input("layered-snell", d, observed=[na, ra.tolist(), nb, eb.tolist()],
                                   what="n sin(theta) is not continuous across a transmitting boundary")
                    return False
    return True



# --------------------------------------------------------------------------------------------
# stacks described by JSON (uniform and exponential layers)
def build_stack(desc):
    rt, im, LayeredIce, LayeredRayTracer = _mods()
    layers = []
    for l in desc["layers"]:
        if l["type"] == "u":
            layers.append(im.UniformIce(l["n"], valid_range=tuple(l["range"]), index_above=None, index_below=None))
        else:
            layers.append(im.AntarcticIce(valid_range=tuple(l["range"]), index_above=None, index_below=None))
    return LayeredIce(layers, index_above=desc["above"], index_below=desc["below"])


def gradient_stack_case(run):
    """stack with at least one exponential layer, endpoints above z_uniform, not near-vertical"""
    r = run.rng
    zc = -r.uniform(60, 400)
    k = r.choice(["firn/uniform", "firn/firn", "uniform/firn"])
    if k == "firn/uniform":
        layers = [{"type": "a", "range": [zc, 0.0]}, {"type": "u", "n": r.uniform(1.6, 1.8), "range": [-2850.0, zc]}]
    elif k == "firn/firn":
        layers = [{"type": "a", "range": [zc, 0.0]}, {"type": "a", "range": [-2850.0, zc]}]
    else:
        layers = [{"type": "u", "n": r.uniform(1.3, 1.5), "range": [zc, 0.0]}, {"type": "a", "range": [-2850.0, zc]}]
    zA, zB = r.uniform(-650, -5), r.uniform(-650, -5)
    if r.random() < 0.4:      # both above the interface: reflections off the top of the lower layer
        zA, zB = r.uniform(zc + 3, -5), r.uniform(zc + 3, -5)
    for z in (zc,):
        if abs(zA - z) < 1.5:
            zA = z - 2.0
        if abs(zB - z) < 1.5:
            zB = z - 2.0
    rho = max(10 ** r.uniform(1.3, 3.0), 0.15 * abs(zA - zB) + 5.0)
    az = r.uniform(0, 2 * math.pi)
    A = [r.uniform(-300, 300), r.uniform(-300, 300), zA]
    B = [A[0] + rho * math.cos(az), A[1] + rho * math.sin(az), zB]
    return {"layers": layers, "above": 1, "below": None, "A": A, "B": B, "max_reflections": 1}


def solution_groups(tr, sol):
    """arguments of `_trace_path` re-derived from a reported solution"""
    ice = tr.ice
    depths, grouped, models = [float(tr.from_point[2])], [], []
    for sp in sol.paths:
        l = ice.layers.index(sp.ice)
        if getattr(sp, "direct", True):
            grouped.append([l])
        else:
            grouped.append([l, l])
            depths.append(float(ice.boundaries[l]))      # turn-over toward the top of its layer
        depths.append(float(sp.to_point[2]))
        models.append(sp.ice)
    return depths, grouped, models


def corr_layered_gradient(run):
    """stacks with exponential layers: the angle handed from group to group by `_trace_path` against `stepAngle`"""
    rt, im, LayeredIce, LayeredRayTracer = _mods()
    reqs, cases = [], []
    for i in range(run.scale(12, 120)):
        desc = gradient_stack_case(run)
        ice = build_stack(desc)
        tr = LayeredRayTracer(desc["A"], desc["B"], ice)
        tr.max_reflections = desc["max_reflections"]
        sols = solve(run, tr, desc, "stack with exponential layers (correspondence)")
        if sols is None:
            continue
        nl = len(ice.layers)
        run.count("layered_gradient_stack")
        for sol in sols:
            depths, grouped, models = solution_groups(tr, sol)
            a0 = float(sol.paths[0].theta0)
            with np.errstate(all="ignore"):
                drs, angs = tr._trace_path(a0, np.array(depths), grouped, models)
            start = 0
            plan = []
            for j, g in enumerate(grouped[:-1]):
                stop = start + len(g)
                trans = g[-1] != grouped[j + 1][0]
                nh, ns = float(models[j].index(depths[start])), float(models[j].index(depths[stop]))
                nn = float(models[j + 1].index(depths[stop]))
                plan.append((len(reqs), float(angs[j + 1])))
                reqs.append("step %s %d %d %s %d %d %d %d 0" % (fw.fl([float(angs[j])]), int(len(g) == 2), int(trans),
                                                            fw.fl([nh, nn, ns]), int(g[-1] == 0), int(g[-1] == nl - 1),
                                                            int(ice._index_above is None), int(ice._index_below is None)))
                start = stop
            cases.append((desc, grouped, [float(a) for a in angs], [float(sp.theta0) for sp in sol.paths],
                          float(np.sum(drs)), float(tr.rho), plan, cancellation_noise(sol)))
    replies = fw.run_driver("C18", reqs)
    ok = True
    for desc, grouped, angs, thetas, rsum, rho, plan, noise in cases:
        run.case(("layered-gradient", str(desc["layers"]), tuple(desc["A"]), tuple(desc["B"]), str(grouped)),
                 nontrivial=len(grouped) > 1, sample={"kind": "layered-gradient", "A": desc["A"], "B": desc["B"], "groups": grouped})
        bad = None
        if not fw.all_close(angs, thetas, 1e-9, 1e-11):
            bad = "_trace_path angles %s are not the sub-path launch angles %s" % (angs, thetas)
        elif abs(rsum - rho) > 1e-6 * max(1.0, rho) + 25 * noise:      # closed-form jitter of the exponential legs (K9)
            bad = "certificate: radial distances sum to %r, rho = %r" % (rsum, rho)
        for idx, want in plan:
            if bad:
                break
            rp = replies[idx]
            got = fw.unfl([rp])[0] if rp not in ("nan", "bad-op") else None
            if got is None or abs(got - want) > 1e-11:
                bad = "angle handed to the next group: model=%s impl=%r (request %s)" % (rp if got is None else got, want, reqs[idx][:60])
        if bad:
            ok = False
            run.note_broken("correspondence: layered gradient stack %s: %s" % (desc, bad))
        else:
            run.traces += 1
    return ok


# --------------------------------------------------------------------------------------------
# completeness of the layered solution set next to a cut-off of the launch-angle search
def special_split(run, which):
    """cut media whose unsplit solutions have launch angles within a degree of a validity cut-off of the index path"""
    rt, im, LayeredIce, LayeredRayTracer = _mods()
    r = run.rng
    if which in ("identical", "on-cut-level"):
        # class of finding K23: identical endpoints (uniform or exponential medium) / both endpoints on one cut
        if which == "identical" and r.random() < 0.5:
            z = -r.uniform(30, 600)
            cuts = sorted({round(z + r.uniform(20, 80), 3), round(z - r.uniform(20, 200), 3)}, reverse=True)
            cuts = [c for c in cuts if c < -1]
            P = [r.uniform(-300, 300), r.uniform(-300, 300), z]
            return {"kind": "antarctic", "params": {"cuts": cuts, "cls": "AntarcticIce"}, "A": P, "B": list(P), "special": which}
        n, lo = r.uniform(1.3, 1.9), -r.uniform(400, 2500)
        z = round(r.uniform(lo * 0.8, -30), 3)
        cuts = sorted({z if which == "on-cut-level" else round(z - 25.0, 3), round(r.uniform(lo * 0.95, -2), 3)}, reverse=True)
        A = [r.uniform(-300, 300), r.uniform(-300, 300), z]
        B = list(A) if which == "identical" else [A[0] + r.uniform(20, 400), A[1] + r.uniform(-200, 200), z]
        return {"kind": "uniform", "params": {"n": n, "lo": lo, "above": 1, "below": None, "cuts": cuts}, "A": A, "B": B,
                "special": which, "max_reflections": r.choice([0, 1])}
    if which in ("vertical", "near-vertical"):
        # identical x, y (rho == 0 exactly) or rho = 1e-12 .. 1e-6 m; receiver below or above the source; cuts between and
        # beside the endpoints
        n = r.uniform(1.3, 1.9)
        lo = -r.uniform(400, 2500)
        ab, be = r.choice([1, 1.0, r.uniform(1.0, 1.3)]), r.choice([None, r.uniform(1.0, 2.4)])
        zA, zB = r.uniform(lo * 0.9, -5), r.uniform(lo * 0.9, -5)
        if abs(zA - zB) < 3:
            zB = zA - 40.0 if zA - 40.0 > lo * 0.95 else zA + 4.0
        cuts = {round(0.5 * (zA + zB), 3)} | {round(r.uniform(lo * 0.95, -2), 3) for _ in range(r.randint(0, 2))}
        cuts = sorted(cuts, reverse=True)
        for c in cuts:
            if abs(zA - c) < 0.5:
                zA = c - 0.7
            if abs(zB - c) < 0.5:
                zB = c - 0.7
        rho = 0.0 if which == "vertical" else 10 ** r.uniform(-12, -6)
        az = r.uniform(0, 2 * math.pi)
        A = [r.uniform(-300, 300), r.uniform(-300, 300), zA]
        B = [A[0], A[1], zB] if rho == 0.0 else [A[0] + rho * math.cos(az), A[1] + rho * math.sin(az), zB]
        return {"kind": "uniform", "params": {"n": n, "lo": lo, "above": ab, "below": be, "cuts": cuts}, "A": A, "B": B,
                "special": which, "max_reflections": r.choice([0, 1, 2])}
    if which in ("horizontal", "horizontal-reflected", "level"):
        n = r.uniform(1.3, 1.9)
        lo = -r.uniform(600, 2500)
        ab = r.choice([1, 1.0, r.uniform(1.0, 1.3)])
        if which == "horizontal-reflected":
            zA, zB = -r.uniform(20, 150), -r.uniform(20, 150)
            rho = (abs(zA) + abs(zB)) / math.tan(math.radians(r.uniform(0.2, 0.95)))
            cuts = sorted({round(r.uniform(lo * 0.9, -160), 3) for _ in range(r.randint(1, 2))}, reverse=True)
            if r.random() < 0.5:
                cuts = sorted(set(cuts) | {round(-r.uniform(2, 18), 3)}, reverse=True)
        else:
            rho = 10 ** r.uniform(2.3, 3.3)
            zA = r.uniform(lo * 0.8, -30)
            dz = 0.0 if which == "level" else rho * math.tan(math.radians(r.uniform(0.05, 0.95))) * r.choice([-1, 1])
            zB = min(zA + dz, -3.0)
            cuts = {round(r.uniform(lo * 0.95, -2), 3) for _ in range(r.randint(0, 2))}
            if abs(zA - zB) > 1.4:
                cuts.add(round(0.5 * (zA + zB), 3))       # a cut between the endpoints
            else:
                cuts.add(round(zA - 5.0, 3))
            cuts = sorted(cuts, reverse=True)
        for c in cuts:
            if abs(zA - c) < 0.5:
                zA = c - 0.6
            if abs(zB - c) < 0.5:
                zB = c - 0.6
        data = {"kind": "uniform", "params": {"n": n, "lo": lo, "above": ab, "below": None, "cuts": cuts},
                "max_reflections": r.choice([0, 1, 1, 2])}
    else:   # shadow-edge: direct ray launched within a degree of max_angle
        zA, zB = r.uniform(-500, -60), r.uniform(-250, -20)
        cuts = sorted({round(r.uniform(-600, -10), 3) for _ in range(r.randint(1, 2))}, reverse=True)
        for c in cuts:
            if abs(zA - c) < 0.5:
                zA = c - 0.7
            if abs(zB - c) < 0.5:
                zB = c - 0.7
        probe = rt.SpecializedRayTracer((0, 0, zA), (10, 0, zB), im.AntarcticIce())
        try:
            with np.errstate(all="ignore"):
                horizon = float(probe.direct_r_max)
        except Exception as e:
            raylib.tracer_exception(run, e, "crash", {"zA": zA, "zB": zB}, "direct_r_max of the shadow-edge probe")
            horizon = 300.0
        rho = horizon * (1 - 10 ** r.uniform(-3.5, -1.7))
        data = {"kind": "antarctic", "params": {"cuts": cuts}}
    az = r.uniform(0, 2 * math.pi)
    A = [r.uniform(-300, 300), r.uniform(-300, 300), zA]
    data.update(A=A, B=[A[0] + rho * math.cos(az), A[1] + rho * math.sin(az), zB], special=which)
    return data


def critical_case(run):
    """uniform layers with different indices and a refracted direct path launched within a degree of a critical angle,
    constructed forward from Snell's law (independent of any root search)"""
    r = run.rng
    nl = r.randint(2, 3)
    top, layers = 0.0, []
    for i in range(nl):
        bot = top - r.uniform(40, 300)
        layers.append({"type": "u", "n": r.uniform(1.3, 1.9), "range": [bot, top]})
        top = bot
    i0, i1 = r.sample(range(nl), 2)
    route = list(range(i0, i1 + 1)) if i0 < i1 else list(range(i0, i1 - 1, -1))
    ns = [layers[j]["n"] for j in route]
    if min(ns[1:]) > ns[0] - 0.03:
        layers[route[-1]]["n"] = ns[0] - r.uniform(0.05, 0.25)       # the receiver's layer is lighter: a critical angle exists
        ns = [layers[j]["n"] for j in route]
    theta_c = math.asin(min(ns[1:]) / ns[0])
    theta = theta_c - math.radians(10 ** r.uniform(-2, -0.05))
    down = i0 < i1
    zs = r.uniform(layers[i0]["range"][0] + 2, layers[i0]["range"][1] - 2)
    zr = r.uniform(layers[i1]["range"][0] + 2, layers[i1]["range"][1] - 2)
    rho = length = tof = 0.0
    for j in route:
        lo, hi = layers[j]["range"]
        a = zs if j == i0 else (hi if down else lo)
        b = zr if j == i1 else (lo if down else hi)
        th = math.asin(ns[0] * math.sin(theta) / layers[j]["n"])
        h = abs(b - a)
        rho += h * math.tan(th)
        length += h / math.cos(th)
        tof += layers[j]["n"] * h / math.cos(th) / C_LIGHT
    az = r.uniform(0, 2 * math.pi)
    A = [r.uniform(-200, 200), r.uniform(-200, 200), zs]
    B = [A[0] + rho * math.cos(az), A[1] + rho * math.sin(az), zr]
    pol = math.pi - theta if down else theta
    return {"layers": layers, "above": 1, "below": None, "A": A, "B": B, "max_reflections": r.choice([0, 1]),
            "expected": {"length": length, "tof": tof, "launch_polar_angle": pol,
                         "critical_angle_deg": math.degrees(theta_c), "launch_from_vertical_deg": math.degrees(theta)}}


@guarded('critical-angle oracle')
def oracle_critical(run, data):
    rt, im, LayeredIce, LayeredRayTracer = _mods()
    ice = build_stack(data)
    tr = LayeredRayTracer(data["A"], data["B"], ice)
    tr.max_reflections = data["max_reflections"]
    with np.errstate(all="ignore"):
        sols = tr.solutions
    ex = data["expected"]
    run.case(("oracle-critical", str(data["layers"]), tuple(data["A"]), tuple(data["B"])), nontrivial=True)
    for s in sols:
        if abs(float(s.path_length) - ex["length"]) <= 1e-6 * ex["length"] and abs(float(s.tof) - ex["tof"]) <= 1e-6 * ex["tof"] \
                and abs(math.acos(max(-1.0, min(1.0, float(s.emitted_direction[2])))) - ex["launch_polar_angle"]) < 1e-5:
            return True
    run.fail_input("complete-critical", data, observed=[(float(s.path_length), float(s.tof)) for s in sols],
                   expected=ex, what="the refracted direct path constructed from Snell's law (launched %.3f deg below the critical "
                                     "angle) is missing from the layered solutions" % (ex["critical_angle_deg"] - ex["launch_from_vertical_deg"]))
    return False


@guarded('gradient stack oracle')
def oracle_gradient_stack(run, desc):
    rt, im, LayeredIce, LayeredRayTracer = _mods()
    ice = build_stack(desc)
    tr = LayeredRayTracer(desc["A"], desc["B"], ice)
    tr.max_reflections = desc["max_reflections"]
    with np.errstate(all="ignore"):
        sols = tr.solutions
    run.case(("oracle-gradient-stack", str(desc["layers"]), tuple(desc["A"]), tuple(desc["B"])), nontrivial=True)
    if bool(tr.exists) != (len(sols) > 0):
        run.fail_input("layered-exists", desc, observed=[bool(tr.exists), len(sols)], what="exists is not 'solutions non-empty'")
        return False
    return oracle_layered_chain(run, tr, sols, desc)


# --------------------------------------------------------------------------------------------
# the same integer-valued endpoints in different container / dtype forms
def solution_signature(sol):
    sig = [float(sol.path_length), float(sol.tof)] + fls(sol.emitted_direction) + fls(sol.received_direction)
    if hasattr(sol, "_points"):
        sig += fls(sol._points)
    if hasattr(sol, "paths"):
        for sp in sol.paths:
            sig += fls(sp.from_point) + fls(sp.to_point)
    return sig


def forms_case(run, which):
    r = run.rng
    if which == "uniform":
        rt, im, LayeredIce, LayeredRayTracer = _mods()
        ice = rand_uice(run, im)
        kind, A, B = rand_pair(run, *ice.valid_range, kind="intform")
        return {"which": which, "ice": [ice.n, ice.valid_range[0], ice.valid_range[1], ice._index_above, ice._index_below],
                "A": A, "B": B, "max_reflections": r.choice([1, 2, 3])}
    nl = r.randint(2, 3)
    top, layers = 0.0, []
    for i in range(nl):
        bot = top - r.randint(40, 300) - r.choice([0.0, 0.5])
        layers.append({"type": "u", "n": r.uniform(1.3, 1.9), "range": [bot, top]})
        top = bot
    edges = [z for l in layers for z in l["range"]]

    def zin():
        while True:
            z = float(r.randint(int(top) + 3, -3))
            if all(abs(z - e) > 1.2 for e in edges):
                return z
    A = [float(r.randint(-300, 300)), float(r.randint(-300, 300)), zin()]
    B = [A[0] + r.randint(10, 600), A[1] + r.randint(-300, 300), zin()]
    return {"which": which, "layers": layers, "above": 1, "below": r.choice([None, 2.0]), "A": A, "B": B,
            "max_reflections": r.choice([0, 1])}


@guarded('container / dtype forms')
def oracle_forms(run, data):
    """every form of handing over the same integer-valued endpoints gives the float64 result"""
    rt, im, LayeredIce, LayeredRayTracer = _mods()

    def solve(form):
        A, B = as_form(data["A"], form), as_form(data["B"], form)
        if data["which"] == "uniform":
            n, lo, hi, ab, be = data["ice"]
            tr = rt.UniformRayTracer(A, B, im.UniformIce(n, valid_range=(lo, hi), index_above=ab, index_below=be))
        else:
            tr = LayeredRayTracer(A, B, build_stack(data))
        tr.max_reflections = data["max_reflections"]
        with np.errstate(all="ignore"):
            return [solution_signature(s) for s in tr.solutions]
    run.case(("oracle-forms", str(data)), nontrivial=True)
    ref = solve("float64")
    scale = max(1.0, max(abs(v) for v in data["A"] + data["B"]))
    for form in INT_FORMS + ["float32"]:
        got = solve(form)
        tol = 1e-12 if form != "float32" else 3e-6      # float32 carries 6e-8 relative through rho and phi
        if len(got) != len(ref) or any(len(g) != len(w) or any(abs(x - y) > tol * max(scale, abs(y)) for x, y in zip(g, w))
                                       for g, w in zip(got, ref)):
            run.fail_input("forms-" + data["which"], dict(data, form=form), observed=got[:3], expected=ref[:3],
                           what="endpoints given as %s give a different result than the same coordinates as float64" % form)
            return False
    return True


@guarded('evaluate-replace-evaluate')
def oracle_reuse(run, data):
    """one tracer object re-used: changing max_reflections or an endpoint after a query gives the result of a fresh
    tracer (evaluate - replace - evaluate), and reading the solutions twice gives the same objects' values"""
    rt, im, LayeredIce, LayeredRayTracer = _mods()

    def fresh(A, B, mr):
        if data["which"] == "uniform":
            n, lo, hi, ab, be = data["ice"]
            tr = rt.UniformRayTracer(A, B, im.UniformIce(n, valid_range=(lo, hi), index_above=ab, index_below=be))
        else:
            tr = LayeredRayTracer(A, B, build_stack(data))
        tr.max_reflections = mr
        return tr

    def sig(tr):
        with np.errstate(all="ignore"):
            return [solution_signature(s) for s in tr.solutions]
    A, B, C = data["A"], data["B"], data["C"]
    run.case(("oracle-reuse", str(data)), nontrivial=True)
    tr = fresh(A, B, data["mr1"])
    first = sig(tr)
    # path objects handed out earlier keep describing the pair they were solved for (their lazy quantities are read late)
    held = fresh(A, B, data["mr1"])
    with np.errstate(all="ignore"):
        old_paths = list(held.solutions)
    held.to_point = np.array(C, dtype=float)
    held.from_point = np.array(B, dtype=float)
    with np.errstate(all="ignore"):
        late = [solution_signature(s) for s in old_paths]
    if late != first:
        run.fail_input("reuse", dict(data, changed="held paths"), observed=late[:2], expected=first[:2],
                       what="path objects obtained before the tracer's endpoints were replaced changed with them")
        return False
    steps = [("max_reflections", data["mr2"], lambda: fresh(A, B, data["mr2"])),
             ("to_point", np.array(C, dtype=float), lambda: fresh(A, C, data["mr2"])),
             ("from_point", np.array(B, dtype=float), lambda: fresh(B, C, data["mr2"]))]
    if first != sig(tr):
        run.fail_input("reuse", data, what="reading solutions twice gives different values")
        return False
    for attr, val, mk in steps:
        setattr(tr, attr, val)
        got, want = sig(tr), sig(mk())
        if got != want:
            run.fail_input("reuse", dict(data, changed=attr), observed=got[:2], expected=want[:2],
                           what="after assigning %s on a used tracer the solutions differ from a fresh tracer's" % attr)
            return False
    return True


@guarded("returned arrays")
def oracle_returned(run, data):
    """arrays handed out by uniform / layered paths belong to the caller (see raylib.returned_arrays_oracle)"""
    rt, im, LayeredIce, LayeredRayTracer = _mods()

    def mk():
        A, B = [float(v) for v in data["A"]], [float(v) for v in data["B"]]
        if data["which"] == "uniform":
            n, lo, hi, ab, be = data["ice"]
            tr = rt.UniformRayTracer(A, B, im.UniformIce(n, valid_range=(lo, hi), index_above=ab, index_below=be))
        else:
            tr = LayeredRayTracer(A, B, build_stack(data))
        tr.max_reflections = data["max_reflections"]
        return tr
    run.case(("oracle-returned", str(data)), nontrivial=True)
    ok = raylib.returned_arrays_oracle(run, mk, data, np.array([2e8, 6e8]), which=data.get("solutions"))
    if ok and data["which"] == "uniform":
        # the untouched geometry: reflection points on the bounds (already part of oracle_uniform) - here after the scribble
        n, lo, hi, ab, be = data["ice"]
        for p in mk().solutions:
            raylib.scribble(p.coordinates)
            z = np.asarray(p._points, float)[1:-1, 2]
            if np.any((z != lo) & (z != hi)):
                run.fail_input("returned-arrays", dict(data, modified="coordinates", affected="reflection points"),
                               observed=z.tolist(), expected=[lo, hi], what="reflection points left the ice bounds after the "
                               "arrays returned by coordinates were modified")
                return False
    return ok


def bounce_walks(m, start, down, refl):
    """independent enumeration of the complete index walks: depth-first over "move on" / "turn around" """
    out = []

    def go(walk, down, r):
        l = walk[-1]
        at_edge = (l == 0 and not down) or (l == m and down)
        if at_edge:
            if r == 0:
                out.append(tuple(walk))
            else:
                go(walk + [l], not down, r - 1)
            return
        go(walk + [l + (1 if down else -1)], down, r)
        if r > 0:
            go(walk + [l], not down, r - 1)
    go([start], down, refl)
    return out


@guarded('_potential_paths sequence')
def oracle_potential(run, seq=None):
    """`_potential_paths` of tracers used one after the other on stacks with different numbers of layers but the same
    (start layer, end layer, max_reflections) against the exhaustive enumeration of the walks"""
    rt, im, LayeredIce, LayeredRayTracer = _mods()
    if seq is None:
        r = run.rng
        s, e, mr = r.randint(0, 1), r.randint(0, 1), r.randint(0, 2)
        seq = [{"nl": nl, "start": s, "end": e, "max_reflections": mr} for nl in (2, 4, 3, 2)]
    run.case(("oracle-potential", str(seq)), nontrivial=True)
    for item in seq:
        nl = item["nl"]
        bounds = [-100.0 * i for i in range(nl + 1)]
        ice = LayeredIce([im.UniformIce(1.5, valid_range=(bounds[i + 1], bounds[i]), index_above=None, index_below=None)
                          for i in range(nl)], index_above=1, index_below=None)
        tr = LayeredRayTracer((0, 0, bounds[item["start"]] - 50.0), (40, 0, bounds[item["end"]] - 30.0), ice)
        tr.max_reflections = item["max_reflections"]
        got = tr._potential_paths
        want = []
        for down in (False, True):
            ws = set()
            for w in bounce_walks(nl - 1, item["start"], down, item["max_reflections"]):
                ws |= {w[:i + 1] for i, lv in enumerate(w) if lv == item["end"]}
            want.append(ws)
        if (set(got[0]), set(got[1])) != (want[0], want[1]):
            run.fail_input("potential-paths", {"sequence": seq, "failing": item},
                           observed=[sorted(got[0]), sorted(got[1])], expected=[sorted(want[0]), sorted(want[1])],
                           what="_potential_paths of a %d-layer stack (after tracers on other stacks were used) is not the set of "
                                "walk prefixes ending in the receiver's layer" % nl)
            return False
    return True


def oracle_enumeration(run, deep):
    rt, im, LayeredIce, LayeredRayTracer = _mods()
    from pyrex.internal_functions import flatten
    # outside its domain (level > max_level; never requested by _potential_paths) the recursion does not end: the model
    # returns no path, the implementation must not return one either
    import sys
    limit = sys.getrecursionlimit()
    try:
        sys.setrecursionlimit(300)
        out = LayeredRayTracer._build_path((3,), 1, 1, 2)
        run.fail_input("build-path", {"max_level": 2, "start": 3, "direction": 1, "reflections": 1}, observed=str(out)[:200],
                       what="_build_path returns paths for a start level beyond max_level")
    except RecursionError:
        pass
    finally:
        sys.setrecursionlimit(limit)
    for m in range(0, 4 if not deep else 6):
        for s in range(0, m + 1):
            for down in (False, True):
                for r in range(0, 4):
                    tree = LayeredRayTracer._build_path((s,), 1 if down else -1, r, m)
                    leaves = [tuple(p) for p in flatten(tree, dont_flatten=(tuple,))]
                    want = bounce_walks(m, s, down, r)
                    run.case(("oracle-build", m, s, down, r), nontrivial=r > 0)
                    bad = None
                    if sorted(leaves) != sorted(want):
                        bad = "the set of index walks differs from the exhaustive enumeration"
                    elif any(sum(1 for a, b in zip(w[:-1], w[1:]) if a == b) != r or
                             any(abs(a - b) > 1 for a, b in zip(w[:-1], w[1:])) or min(w) < 0 or max(w) > m
                             for w in leaves):
                        bad = "a walk leaves the stack, jumps a layer or has the wrong number of reflections"
                    if bad:
                        run.fail_input("build-path", {"max_level": m, "start": s, "direction": 1 if down else -1,
                                                      "reflections": r}, observed=leaves, expected=want, what=bad)
                        return


def search(run, deep):
    rt, im, LayeredIce, LayeredRayTracer = _mods()
    oracle_enumeration(run, deep)
    for i in range(4 if not deep else 40):
        oracle_potential(run)
    n = run.scale(200, 3000) if not deep else 3000
    for i in range(n):
        ice = rand_uice(run, im)
        kind, A, B = rand_pair(run, *ice.valid_range)
        if kind == "intform":
            form = run.rng.choice(INT_FORMS)
            A, B = as_form(A, form), as_form(B, form)
            A, B = (A.tolist() if hasattr(A, "tolist") else list(A)), (B.tolist() if hasattr(B, "tolist") else list(B))
        maxref = run.rng.choice([0, 1, 2, 3, 3, 5])
        run.case(("oracle-uniform", kind, ice.n, ice.valid_range, tuple(A), tuple(B), maxref), nontrivial=maxref > 0)
        with np.errstate(all="ignore"):
            oracle_uniform(run, rt, ice, A, B, maxref, kind)
    # layered: chain continuity / Snell on genuine stacks, and the split-medium relation
    for i in range(run.scale(15, 150) if not deep else 150):
        nl = run.rng.randint(2, 4)
        ice, bounds = uniform_stack(run, im, LayeredIce, nl)
        z0, z1 = run.rng.uniform(bounds[-1] + 2, -2), run.rng.uniform(bounds[-1] + 2, -2)
        if any(abs(z0 - b) < 1 or abs(z1 - b) < 1 for b in bounds):
            continue
        A = [run.rng.uniform(-200, 200), run.rng.uniform(-200, 200), z0]
        d, az = 10 ** run.rng.uniform(1, 2.7), run.rng.uniform(0, 2 * math.pi)
        B = [A[0] + d * math.cos(az), A[1] + d * math.sin(az), z1]
        tr = LayeredRayTracer(A, B, ice)
        ddesc = {"bounds": bounds, "n": [l.n for l in ice.layers], "above": ice._index_above, "below": ice._index_below,
                 "A": A, "B": B}
        sols = solve(run, tr, ddesc, "uniform stack")
        run.case(("oracle-layered", tuple(bounds), tuple(A), tuple(B)), nontrivial=True)
        if sols is not None:
            oracle_layered_chain(run, tr, sols, ddesc)

    def report(kind, data, observed=None, expected=None, what=None):
        run.fail_input(kind, data, observed=observed, expected=expected, what=what)
    for kind, m in (("uniform", run.scale(10, 100) if not deep else 100), ("antarctic", run.scale(5, 50) if not deep else 50)):
        for i in range(m):
            check_split(run, kind, report)
    # stacks with exponential layers: exists, chain continuity, mirror law and Snell from the reported directions
    for i in range(run.scale(10, 100) if not deep else 100):
        oracle_gradient_stack(run, gradient_stack_case(run))
    # completeness next to the cut-offs of the launch-angle search: within a degree of horizontal, of the shadow edge
    # (unsplit tracer as reference) and of a critical angle (forward Snell construction as reference)
    for which, m in (("horizontal", 6), ("level", 2), ("horizontal-reflected", 3), ("shadow-edge", 6), ("vertical", 8),
                     ("near-vertical", 4), ("identical", 3), ("on-cut-level", 3)):
        for i in range(m if not deep else 10 * m):
            run.count("complete_" + which)
            check_split(run, None, report, data=special_split(run, which))
    for i in range(8 if not deep else 80):
        run.count("complete_critical")
        oracle_critical(run, critical_case(run))
    # integer-valued endpoints as Python ints / int lists / int64 / float32 arrays against the float64 evaluation
    for which, m in (("uniform", 12), ("layered", 4)):
        for i in range(m if not deep else 10 * m):
            run.count("forms_" + which)
            oracle_forms(run, forms_case(run, which))
    # arrays handed out by paths are the caller's
    for which, m in (("uniform", 10), ("layered", 2)):
        for i in range(m if not deep else 10 * m):
            d = forms_case(run, which)
            if which == "uniform":
                d["max_reflections"] = run.rng.choice([0, 1, 2, 3])
            else:
                d["solutions"] = [run.rng.randint(0, 2)]
            run.count("returned_" + which)
            oracle_returned(run, d)
    d = dict(gradient_stack_case(run), which="layered", solutions=[0])
    oracle_returned(run, d)
    # evaluate - replace - evaluate on one tracer object
    for which, m in (("uniform", 6), ("layered", 3)):
        for i in range(m if not deep else 10 * m):
            d = forms_case(run, which)
            d.update(C=[d["B"][0] + run.rng.randint(5, 90), d["B"][1] - run.rng.randint(5, 90), d["A"][2]],
                     mr1=run.rng.choice([0, 1]), mr2=run.rng.choice([1, 2]) if which == "uniform" else 1)
            d.pop("max_reflections", None)
            run.count("reuse_" + which)
            oracle_reuse(run, d)
    # endpoints exactly on a range bound with explicit outside indices: tof = n L / c with the index of the ice itself
    for i in range(10 if not deep else 100):
        ice = rand_uice(run, im)
        if ice._index_below is None:
            ice = im.UniformIce(ice.n, valid_range=ice.valid_range, index_above=ice._index_above, index_below=ice.n + 0.3)
        if ice._index_above is None:
            ice = im.UniformIce(ice.n, valid_range=ice.valid_range, index_above=1.0, index_below=ice._index_below)
        kind, A, B = rand_pair(run, *ice.valid_range, kind="general")
        bound = ice.valid_range[i % 2]
        if (i // 2) % 2:
            B[2] = bound
        else:
            A[2] = bound
        maxref = run.rng.choice([0, 1, 2])
        run.case(("oracle-uniform-on-bound", ice.n, ice.valid_range, tuple(A), tuple(B), maxref), nontrivial=True)
        run.count("uniform_endpoint_on_bound")
        with np.errstate(all="ignore"):
            oracle_uniform(run, rt, ice, A, B, maxref, "boundary")


def replay(run, data):
    """re-run the recorded input against the current tree"""
    rt, im, LayeredIce, LayeredRayTracer = _mods()
    inp = data["input"]
    kind = data.get("kind", "")
    if kind.startswith("uniform-"):
        n, lo, hi, ab, be = inp["ice"]
        ice = im.UniformIce(n, valid_range=(lo, hi), index_above=ab, index_below=be)
        with np.errstate(all="ignore"):
            lo_, hi_ = ice.valid_range
            on_bound = inp["A"][2] in (lo_, hi_) or inp["B"][2] in (lo_, hi_)
            oracle_uniform(run, rt, ice, inp["A"], inp["B"], inp["max_reflections"], "boundary" if on_bound else "general")
    elif kind == "crash" and "layers" in inp and "expected" in inp:
        oracle_critical(run, inp)
    elif kind == "crash" and "layers" in inp:
        oracle_gradient_stack(run, inp)
    elif kind == "crash" and "ice" in inp and "max_reflections" in inp and "which" not in inp:
        n, lo, hi, ab, be = inp["ice"]
        oracle_uniform(run, rt, im.UniformIce(n, valid_range=(lo, hi), index_above=ab, index_below=be), inp["A"], inp["B"],
                       inp["max_reflections"], "general")
    elif kind == "complete-critical":
        oracle_critical(run, inp)
    elif kind == "returned-arrays":
        oracle_returned(run, {k: v for k, v in inp.items() if k not in ("solution", "modified", "affected")})
    elif kind == "reuse":
        oracle_reuse(run, {k: v for k, v in inp.items() if k != "changed"})
    elif kind.startswith("forms-"):
        oracle_forms(run, {k: v for k, v in inp.items() if k != "form"})
    elif kind.startswith("layered-") and "layers" in inp:
        oracle_gradient_stack(run, inp)
    elif kind.startswith("layered-"):
        b = inp["bounds"]
        layers = [im.UniformIce(n, valid_range=(b[i + 1], b[i]), index_above=None, index_below=None)
                  for i, n in enumerate(inp["n"])]
        ice = LayeredIce(layers, index_above=inp["above"], index_below=inp["below"])
        tr = LayeredRayTracer(inp["A"], inp["B"], ice)
        with np.errstate(all="ignore"):
            sols_ = solve(run, tr, inp, "uniform stack (replay)")
            if sols_ is not None:
                oracle_layered_chain(run, tr, sols_, {k: inp[k] for k in ("bounds", "n", "above", "below", "A", "B")})
    elif kind == "potential-paths":
        oracle_potential(run, inp["sequence"])
    elif kind == "build-path":
        oracle_enumeration(run, True)
    elif kind.startswith("split-"):
        check_split(run, inp["kind"], lambda k, d, observed=None, expected=None, what=None:
                    run.fail_input(k, d, observed=observed, expected=expected, what=what), data=inp)
    else:
        search(run, True)
