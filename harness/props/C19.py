"""C19 - detector composition.  Exact differential run of lean/PyrexVerif/D/Detector.lean against
pyrex.detector (Detector subclasses created on the fly, CombinedDetector, bare antennas, lists)."""
import inspect
import numpy as np

import framework as fw

LEVEL = "proof"
TECHNIQUE = "Lean 4 theorems over a rose-tree model of detectors + exact differential run against pyrex.detector"
LEVEL_TEXT = ("18 theorems (flatten is a monoid homomorphism, +/+=/sum associative in flattened content, multiplicities "
              "add, position test, any-hit trigger incl. the statement-by-statement call semantics with keyword "
              "forwarding/TypeError/retry, clear, keyword stripping and build routing) hold for trees of every shape "
              "and depth; the executable model agrees exactly with pyrex.detector on every generated expression, query "
              "and keyword set")
LEVEL_NOTE = ("the Lean model is pure (flatten is recomputed, there is no cache that could go stale); histories that "
              "mutate a nested part after a query (inner += x, list.append, rebuilding a string) are covered by the "
              "model-free history oracle in search(), not by a theorem. Plain `Detector` is never instantiated directly. "
              "Trusted: Lean kernel, the harness' dynamically generated Detector subclasses and canonicalisation.")
RULE = ("random nestings (depth<=4) of dynamically created Detector subclasses with differing "
        "`triggered` signatures, CombinedDetectors, bare antennas and antenna lists, combined by random "
        "expression trees over +, += and sum; a case is non-trivial when it involves at least one "
        "combination or a nested detector; distinct = distinct (expression, query) pairs")
ASSUMPTIONS = [
               "plain `Detector` (the abstract base) is never instantiated directly, so the reflected-operator "
               "priority rule for subclasses never applies"]

_NP = object()
KW_POOL = ["thr", "win", "x"]


def _pyrex():
    import pyrex
    return pyrex


_ant_cls = None

# heights on both sides of the surface, down to the smallest representable ones: "above" is exactly z > 0
ABOVE_Z = [5.0, 1e-9, 5e-324, 1e-300, 1e-6, 3e-8, 0.3]
BELOW_Z = [None, 0.0, -0.0, -5e-324, -1e-9, None, -1e-300]


def antenna_height(aid, above):
    if above:
        return ABOVE_Z[aid % len(ABOVE_Z)]
    z = BELOW_Z[aid % len(BELOW_Z)]
    return -10.0 - aid if z is None else z


def ant_class():
    global _ant_cls
    if _ant_cls is None:
        pyrex = _pyrex()

        class FlagAntenna(pyrex.Antenna):
            def __init__(self, aid, hit, mc, above):
                super().__init__(position=(float(aid), 0.0, antenna_height(aid, above)), noisy=False)
                self.aid, self._hit, self._mc = aid, hit, mc

            @property
            def is_hit(self):
                return self._hit

            @property
            def is_hit_mc_truth(self):
                return self._mc

            def clear(self, reset_noise=False):
                super().clear(reset_noise=reset_noise)
                self._hit = False
                self._mc = False
                self.last_reset = reset_noise
        _ant_cls = FlagAntenna
    return _ant_cls


_det_classes = {}
CALL_LOG = []


def det_class(accepts, star):
    """Detector subclass whose `triggered` has the signature (accepts..., **kwargs if star)"""
    key = (tuple(accepts), star)
    if key in _det_classes:
        return _det_classes[key]
    pyrex = _pyrex()

    def set_positions(self, tag, subsets):
        self.tag = tag
        self.subsets = list(subsets)
        if all(not hasattr(s, "__iter__") for s in subsets):
            self.antenna_positions = [s.position for s in subsets]

    def _trig(self, passed):
        CALL_LOG.append((self.tag, sorted(passed)))
        mc = bool(passed.get("require_mc_truth", False))
        return any((a.is_hit_mc_truth if mc else a.is_hit) for a in self)

    ns = {"_NP": _NP}
    if star and not accepts:
        src = ("def triggered(self, *args, require_mc_truth=False, **kwargs):\n"
               "    p = dict(kwargs); p['require_mc_truth'] = require_mc_truth\n"
               "    return self._trig(p)\n")
    else:
        params = "".join(", %s=_NP" % k for k in accepts)
        src = ("def triggered(self%s%s):\n"
               "    p = {k: v for k, v in [%s] if v is not _NP}\n"
               "    %s\n"
               "    return self._trig(p)\n"
               % (params, ", **kwargs" if star else "",
                  ", ".join("(%r, %s)" % (k, k) for k in accepts),
                  "p.update(kwargs)" if star else "pass"))
    exec(src, ns)
    cls = type("Det_%s_%d" % ("_".join(accepts) or "none", star), (pyrex.Detector,),
               {"set_positions": set_positions, "triggered": ns["triggered"], "_trig": _trig})
    _det_classes[key] = cls
    return cls


BUILD_POOL = ["p", "q", "r", "s"]
_build_classes = {}
BUILD_LOG = []


def build_class(params):
    key = tuple(params)
    if key not in _build_classes:
        pyrex = _pyrex()

        def set_positions(self, subsets, tag=0):
            self.tag = tag
            self.subsets = list(subsets)
            if all(not hasattr(s, "__iter__") for s in subsets):
                self.antenna_positions = [s.position for s in subsets]
        ns = {}
        exec("def build_antennas(self, %s):\n    _log.append((self.tag, sorted(k for k, v in [%s] if v is not _NP)))\n"
             % (", ".join("%s=_NP" % p_ for p_ in params), ", ".join("(%r, %s)" % (p_, p_) for p_ in params)),
             {"_NP": _NP, "_log": BUILD_LOG}, ns)
        _build_classes[key] = type("B_" + "_".join(params), (pyrex.Detector,),
                                   {"set_positions": set_positions, "build_antennas": ns["build_antennas"]})
    return _build_classes[key]


def build_route_impl(sigs, kw):
    """call Parent.build_antennas(**kw) on a detector whose sub-detectors have the given signatures"""
    pyrex = _pyrex()
    subs = [build_class(q)([ant_class()(10 * i + 1, False, False, False)], tag=i) for i, q in enumerate(sigs)]

    class Parent(pyrex.Detector):
        def set_positions(self, subsets):
            self.subsets = list(subsets)
    par = Parent(subs)
    del BUILD_LOG[:]
    try:
        par.build_antennas(**{k: 1 for k in kw})
    except TypeError:
        return "typeerror"
    got = dict(BUILD_LOG)
    return "ok " + ";".join(",".join(got.get(i, ["<not called>"])) for i in range(len(sigs)))


# ---- nested build routing (BNode trees): leaf = detector overriding build_antennas, group = detector made of
#      sub-detectors that keeps the default build_antennas, assembled by a random recipe
def gen_bnode(run, st, depth, pool_sigs):
    if depth <= 0 or run.rng.random() < 0.45:
        st["tag"] += 1
        return ("F", st["tag"], list(run.rng.choice(pool_sigs)))
    return ("G", [gen_bnode(run, st, depth - 1, pool_sigs) for _ in range(run.rng.randint(1, 3))])


def btoks(b):
    if b[0] == "F":
        return "F %d %d%s" % (b[1], len(b[2]), "".join(" " + x for x in b[2]))
    return "G %d%s" % (len(b[1]), "".join(" " + btoks(x) for x in b[1]))


def bbuild_obj(run, b, recipes):
    """build the real detector for a BNode with a random assembly recipe.
    Returns (object, effective BNode, is CombinedDetector): `+`, `+=` and `sum` splice the members of a
    CombinedDetector operand into the result (see Det.add), so the effective tree can be flatter than `b`."""
    pyrex = _pyrex()
    CD = pyrex.detector.CombinedDetector
    if b[0] == "F":
        return build_class(b[2])([ant_class()(1000 + b[1], False, False, False)], tag=b[1]), b, False
    subs = [bbuild_obj(run, x, recipes) for x in b[1]]
    recipe = run.rng.choice(["ctor", "grown_empty", "grown_first", "subclass", "sum"])
    recipes.append(recipe)
    splice = lambda kids, x: kids + (list(x[1][1]) if x[2] else [x[1]])
    if recipe == "ctor":
        return CD(*[x[0] for x in subs]), ("G", [x[1] for x in subs]), True
    if recipe == "grown_empty":
        c, kids = CD(), []
        for x in subs:
            c += x[0]
            kids = splice(kids, x)
        return c, ("G", kids), True
    if recipe == "grown_first":
        c, kids = CD(subs[0][0]), [subs[0][1]]
        for x in subs[1:]:
            c += x[0]
            kids = splice(kids, x)
        return c, ("G", kids), True
    if recipe == "sum":
        acc = subs[0]                     # 0 + x is x itself
        for x in subs[1:]:
            obj = acc[0] + x[0]
            if acc[2]:                    # CombinedDetector.__add__ splices its own members (and x's if combined)
                acc = (obj, ("G", splice(list(acc[1][1]), x)), True)
            else:                         # Detector.__add__: CombinedDetector(self, other), both nested
                acc = (obj, ("G", [acc[1], x[1]]), True)
        return acc

    class Parent(pyrex.Detector):
        def set_positions(self, subsets):
            self.subsets = list(subsets)
    return Parent([x[0] for x in subs]), ("G", [x[1] for x in subs]), False


def bleaves_of(b):
    return [b[1]] if b[0] == "F" else [t for x in b[1] for t in bleaves_of(x)]


def bsig_of(b):
    """advertised signature as the property reads it (independent of the Lean model): tuple or None (generic)"""
    if b[0] == "F":
        return tuple(b[2])
    sigs = [bsig_of(x) for x in b[1]]
    return sigs[0] if all(x == sigs[0] for x in sigs) else None


def has_generic_under_hetero(b):
    """a group advertising the generic signature sits under a parent whose members' signatures differ (K16 class)"""
    if b[0] == "F":
        return False
    sigs = [bsig_of(x) for x in b[1]]
    hetero = not all(x == sigs[0] for x in sigs)
    if hetero and any(x[0] == "G" and bsig_of(x) is None for x in b[1]):
        return True
    return any(has_generic_under_hetero(x) for x in b[1])


def bbuild_impl(run, b, kw, recipes):
    """-> (status, {tag: received keywords}, effective tree)"""
    obj, eff, _ = bbuild_obj(run, b, recipes)
    del BUILD_LOG[:]
    try:
        obj.build_antennas(**{k: 1 for k in kw})
    except TypeError:
        return "typeerror", None, eff
    got = {}
    for t, ks in BUILD_LOG:
        got[t] = ks
    return "ok", got, eff


# ---- random trees (as nested tuples), their Python objects and their protocol tokens
def gen_ant(run, st):
    st["id"] += 1
    above = run.rng.random() < st["p_above"]
    return ("A", st["id"], run.rng.random() < 0.3, run.rng.random() < 0.2, above)


def gen_sig(run):
    r = run.rng.random()
    if r < 0.45:
        return [], True
    pool = ["require_mc_truth"] + KW_POOL
    k = run.rng.randint(0, 3)
    acc = run.rng.sample(pool, k)
    return acc, run.rng.random() < 0.25


def gen_tree(run, st, depth, need_det=False):
    r = run.rng.random()
    if depth <= 0 or (not need_det and r < 0.25):
        if need_det:
            acc, star = gen_sig(run)
            st["tag"] += 1
            return ("D", st["tag"], star, acc, [gen_ant(run, st) for _ in range(run.rng.randint(1, 3))])
        if run.rng.random() < 0.6:
            return gen_ant(run, st)
        return ("L", [gen_ant(run, st) for _ in range(run.rng.randint(0, 3))])
    if r < 0.65:
        acc, star = gen_sig(run)
        st["tag"] += 1
        tag = st["tag"]
        if run.rng.random() < 0.5:
            subs = [gen_ant(run, st) for _ in range(run.rng.randint(1, 3))]
        else:  # non-base Detector: all subsets must be detectors (they need antenna_positions)
            subs = [gen_tree(run, st, depth - 1, need_det=True) for _ in range(run.rng.randint(1, 3))]
        return ("D", tag, star, acc, subs)
    subs = [gen_tree(run, st, depth - 1) for _ in range(run.rng.randint(1, 3))]
    return ("C", subs)


def toks(t):
    k = t[0]
    if k == "A":
        return "A %d %d %d %d" % (t[1], t[2], t[3], t[4])
    if k == "L":
        return "L %d" % len(t[1]) + "".join(" " + toks(a)[2:] for a in t[1])
    if k == "D":
        return ("D %d %d %d" % (t[1], t[2], len(t[3])) + "".join(" " + a for a in t[3])
                + " %d" % len(t[4]) + "".join(" " + toks(s) for s in t[4]))
    return "C %d" % len(t[1]) + "".join(" " + toks(s) for s in t[1])


def build(t):
    pyrex = _pyrex()
    k = t[0]
    if k == "A":
        return ant_class()(t[1], t[2], t[3], t[4])
    if k == "L":
        return [build(a) for a in t[1]]
    if k == "D":
        return det_class(t[3], t[2])(t[1], [build(s) for s in t[4]])
    return pyrex.detector.CombinedDetector(*[build(s) for s in t[1]])


def serialize(o):
    pyrex = _pyrex()
    if isinstance(o, pyrex.detector.CombinedDetector):
        return "C %d" % len(o.subsets) + "".join(" " + serialize(s) for s in o.subsets)
    if isinstance(o, pyrex.Detector):
        sig = inspect.signature(type(o).triggered)
        names = [p.name for p in sig.parameters.values()
                 if p.kind == p.POSITIONAL_OR_KEYWORD and p.name != "self"]
        star = any(p.kind == p.VAR_KEYWORD for p in sig.parameters.values())
        if any(p.kind == p.VAR_POSITIONAL for p in sig.parameters.values()):
            names = []
        return ("D %d %d %d" % (o.tag, star, len(names)) + "".join(" " + n for n in names)
                + " %d" % len(o.subsets) + "".join(" " + serialize(s) for s in o.subsets))
    if isinstance(o, list):
        return "L %d" % len(o) + "".join(" " + serialize(a)[2:] for a in o)
    return "A %d %d %d %d" % (o.aid, o.is_hit, o.is_hit_mc_truth, o.position[2] > 0)


def leaves(t):
    if t[0] == "A":
        return [t[1]]
    if t[0] == "L":
        return [a[1] for a in t[1]]
    return [i for s in (t[4] if t[0] == "D" else t[1]) for i in leaves(s)]


def gen_expr(run, st, depth):
    r = run.rng.random()
    if depth <= 0 or r < 0.3:
        return ("T", gen_tree(run, st, run.rng.randint(0, 3), need_det=run.rng.random() < 0.3))
    if r < 0.65:
        return ("P", gen_expr(run, st, depth - 1), gen_expr(run, st, depth - 1))
    if r < 0.85:
        return ("I", gen_expr(run, st, depth - 1), gen_expr(run, st, depth - 1))
    n = run.rng.randint(1, 3)
    return ("S", [gen_expr(run, st, depth - 1) for _ in range(n)])


def etoks(e):
    if e[0] == "T":
        return "T " + toks(e[1])
    if e[0] in "PI":
        return "%s %s %s" % (e[0], etoks(e[1]), etoks(e[2]))
    return "S %d" % len(e[1]) + "".join(" " + etoks(x) for x in e[1])


def eleaves(e):
    if e[0] == "T":
        return leaves(e[1])
    if e[0] in "PI":
        return eleaves(e[1]) + eleaves(e[2])
    return [i for x in e[1] for i in eleaves(x)]


def evaluate(e):
    if e[0] == "T":
        return build(e[1])
    if e[0] == "P":
        return evaluate(e[1]) + evaluate(e[2])
    if e[0] == "I":
        a = evaluate(e[1])
        b = evaluate(e[2])
        before = [id(x) for x in a] if is_det(a) else None
        try:
            a += b
        except ValueError:
            # a refused in-place addition (antenna above the surface) must leave the left operand as it was
            if before is not None and [id(x) for x in a] != before:
                REFUSED_MUTATED.append({"expr": etoks(e), "antennas_before": len(before), "antennas_after": len(list(a)),
                                        "heights_after": [float(x.position[2]) for x in a]})
            raise
        return a
    return sum(evaluate(x) for x in e[1])


REFUSED_MUTATED = []


def report_refused(run):
    """F23: `detector += x` refused with ValueError although x was already appended (the antenna above the surface stayed
    inside the detector)"""
    seen = set()
    while REFUSED_MUTATED:
        r = REFUSED_MUTATED.pop()
        if r["expr"] in seen:
            continue
        seen.add(r["expr"])
        run.fail_input("refused-iadd", r, observed="%d antennas before the refused +=, %d afterwards (heights %s)"
                       % (r["antennas_before"], r["antennas_after"], r["heights_after"][-3:]),
                       expected="a refused addition leaves the detector unchanged",
                       what="a refused `+=` left the rejected antenna(s) inside the detector")


def py_eval(e):
    try:
        return evaluate(e)
    except (TypeError, ValueError, AttributeError):
        return None


def is_det(o):
    return isinstance(o, _pyrex().Detector)


def logs(entries):
    return ";".join("%d:%s" % (t, ",".join(k)) for t, k in entries)


def canon_log(s):
    out = []
    for ent in s.split(";"):
        if ent:
            t, _, k = ent.partition(":")
            out.append((int(t), sorted(x for x in k.split(",") if x)))
    return out


# ---------------------------------------------------------------------------------------------
def correspondence(run):
    n = run.scale(250, 4000)
    reqs, expect, descs = [], [], []
    def targeted_above(st):
        """every combination form with an antenna above the surface in the non-detector operand"""
        up = ("A", _next(st, "id"), False, False, True)
        ok_ant = gen_ant(run, st)
        bad = run.rng.choice([("T", up), ("T", ("L", [ok_ant, up])), ("T", ("L", [up]))])
        st["p_above"] = 0.0
        det = ("T", gen_tree(run, st, 2, need_det=True))
        comb = ("T", ("C", [gen_tree(run, st, 1, need_det=True) for _ in range(run.rng.randint(1, 2))]))
        form = run.rng.choice(["I", "P", "Pr", "Pc", "S", "II"])
        if form == "I":
            return ("I", comb, bad)
        if form == "P":
            return ("P", det, bad)
        if form == "Pr":
            return ("P", bad, run.rng.choice([det, comb]))
        if form == "Pc":
            return ("P", comb, bad)
        if form == "S":
            return ("S", [det, bad])
        return ("I", ("I", comb, det), bad)

    for i in range(n):
        st = {"id": 0, "tag": 0, "p_above": run.rng.choice([0.0, 0.0, 0.0, 0.08])}
        if i % 8 == 7:
            e = targeted_above(st)
            run.count("targeted_above_surface")
        else:
            e = gen_expr(run, st, run.rng.randint(0, 3))
        et = etoks(e)
        obj = py_eval(e)
        run.count("expr_" + e[0])
        # eval: structure, len, iteration order
        if obj is None:
            imp = "raise"
            run.count("raises")
        elif is_det(obj):
            imp = "ok %s | %d | %s" % (serialize(obj), len(obj), " ".join(str(a.aid) for a in obj))
        else:
            imp = "ok " + serialize(obj) + " | nodet"
        reqs.append("eval " + et)
        expect.append(imp)
        descs.append(("eval", et))
        if obj is None or not is_det(obj):
            continue
        run.count("detectors")
        ln = len(obj)
        # indexing
        for idx in sorted({-ln - 1, -ln, -1, 0, ln - 1, ln, run.rng.randint(-ln - 1, ln + 1)}):
            try:
                imp = "ok %d" % obj[idx].aid
            except IndexError:
                imp = "indexerror"
            reqs.append("getitem %d %s" % (idx, et))
            expect.append(imp)
            descs.append(("getitem", idx, et))
        # triggers with keyword sets
        for _ in range(2):
            mc = run.rng.random() < 0.5
            kws = run.rng.sample(KW_POOL, run.rng.randint(0, 2))
            del CALL_LOG[:]
            try:
                r = obj.triggered(require_mc_truth=mc, **{k: 1 for k in kws})
                imp = ("ok %d" % bool(r), list(CALL_LOG))
            except TypeError:
                imp = ("typeerror", list(CALL_LOG))
                run.count("trigger_typeerror")
            run.count("trigger_calls")
            if len(CALL_LOG) > 0:
                run.count("trigger_with_custom_subdetectors")
            reqs.append("trig %d %d %s %s" % (mc, len(kws), " ".join(kws), et))
            expect.append(imp)
            descs.append(("trig", mc, kws, et))
        # the structural any-hit model `triggered` (the object of C19_triggered_iff_any) on default-only trees
        if _expr_all_default(e):
            for mc in (False, True):
                reqs.append("simple %d %s" % (mc, et))
                expect.append("ok %d" % bool(obj.triggered(require_mc_truth=mc)))
                descs.append(("simple", mc, et))
                run.count("default_only_trigger")
        # clear
        obj2 = py_eval(e)
        obj2.clear()
        reqs.append("clear " + et)
        expect.append("ok " + serialize(obj2))
        descs.append(("clear", et))
    # `combined += other` as executed on ONE object, accepted or refused (F23: a refusal leaves the object unchanged);
    # the model's iaddExec is what C19_refused_iadd_rolls_back / C19_iadd_history_keeps_valid are about
    for _ in range(run.scale(60, 600)):
        st = {"id": 0, "tag": 0, "p_above": 0.0}
        subs = [gen_tree(run, st, run.rng.randint(0, 2)) for _ in range(run.rng.randint(1, 3))]
        c = _pyrex().detector.CombinedDetector(*[build(t_) for t_ in subs])
        steps = []
        for _step in range(run.rng.randint(1, 4)):
            kind = run.rng.choice(["ant", "lst", "det", "comb"])
            st["p_above"] = 0.5 if kind in ("ant", "lst") else 0.0      # detectors refuse above-surface antennas themselves
            if kind == "ant":
                other = gen_ant(run, st)
            elif kind == "lst":
                other = ("L", [gen_ant(run, st) for _ in range(run.rng.randint(1, 3))])
            elif kind == "det":
                other = gen_tree(run, st, 1, need_det=True)
            else:
                other = ("C", [gen_tree(run, st, 1) for _ in range(run.rng.randint(1, 2))])
            if run.rng.random() < 0.25:
                # an antenna ALREADY INCLUDED (directly, or in a plain list) is moved above the surface before the next `+=`:
                # the position test covers the whole detector, so the addition must be refused (and rolled back)
                movable = [x for sub in c.subsets for x in ([sub] if isinstance(sub, ant_class()) else
                                                            sub if isinstance(sub, list) else [])]
                if movable:
                    m = run.rng.choice(movable)
                    m.position = np.array([m.position[0], m.position[1], run.rng.choice([4.0, 1e-9, 0.3])])
                    run.count("iadd_after_moving_an_included_antenna_above")
            before = serialize(c)
            try:
                c += build(other)
                verdict = "ok"
            except ValueError:
                verdict = "refused"
                run.count("iadd_refused")
            if verdict == "ok" and any(a.position[2] > 0 for a in c):
                run.fail_input("iadd-accepted-above", {"detector_before": before, "added": toks(other)},
                               observed="`+=` accepted; heights %s" % [float(a.position[2]) for a in c if a.position[2] > 0],
                               expected="ValueError (the detector holds an antenna above the surface)",
                               what="an in-place addition was accepted although the detector then holds an antenna above the surface")
            reqs.append("iaddx %s %s" % (before, toks(other)))
            expect.append("%s | %s" % (verdict, " ".join(str(a.aid) for a in c)))
            descs.append(("iaddx", before, toks(other)))
            steps.append((toks(other), verdict))
            run.count("iadd_steps")
    # keyword stripping loop in isolation
    for _ in range(run.scale(40, 400)):
        acc = run.rng.sample(["require_mc_truth"] + KW_POOL + ["y"], run.rng.randint(0, 4))
        kw = run.rng.sample(["require_mc_truth"] + KW_POOL + ["y", "z"], run.rng.randint(0, 5))
        reqs.append("strip %d %s %d %s" % (len(acc), " ".join(acc), len(kw), " ".join(kw)))
        expect.append("ok " + ",".join(k for k in kw if k in acc))
        descs.append(("strip", acc, kw))
    # build_antennas keyword routing through a detector made of sub-detectors
    for _ in range(run.scale(40, 400)):
        nsub = run.rng.randint(1, 3)
        same = run.rng.random() < 0.35
        first = ["antenna_class"] + run.rng.sample(BUILD_POOL, run.rng.randint(0, 3))
        sigs = [list(first) if same else ["antenna_class"] + run.rng.sample(BUILD_POOL, run.rng.randint(0, 3))
                for _ in range(nsub)]
        kw = ["antenna_class"] + run.rng.sample(BUILD_POOL + ["zz"], run.rng.randint(0, 3))
        imp = build_route_impl(sigs, kw)
        reqs.append("build %d %s %d %s" % (nsub, " ".join("%d %s" % (len(q), " ".join(q)) for q in sigs), len(kw), " ".join(kw)))
        expect.append(imp)
        descs.append(("build", tuple(map(tuple, sigs)), tuple(kw)))
        run.count("build_routes")
    for _ in range(run.scale(60, 600)):
        st = {"tag": 0}
        pool = [["antenna_class"] + run.rng.sample(BUILD_POOL, run.rng.randint(0, 2)) for _ in range(run.rng.randint(1, 3))]
        b = ("G", [gen_bnode(run, st, run.rng.randint(0, 2), pool) for _ in range(run.rng.randint(1, 3))])
        kw = ["antenna_class"] + run.rng.sample(BUILD_POOL + ["zz"], run.rng.randint(0, 3))
        recipes = []
        status, got, b = bbuild_impl(run, b, kw, recipes)     # b := the effective tree after splicing
        imp = "typeerror" if status == "typeerror" else "ok " + ";".join(
            "%d:%s" % (t, ",".join(got.get(t, ["<not called>"]))) for t in bleaves_of(b))
        reqs.append("bbuild %s %d %s" % (btoks(b), len(kw), " ".join(kw)))
        expect.append(imp)
        descs.append(("bbuild", btoks(b), tuple(kw), tuple(recipes)))
        run.count("nested_build_routes")
        for r_ in recipes:
            run.count("recipe_" + r_)
        if has_generic_under_hetero(b):
            run.count("nested_build_generic_group_under_hetero_parent")
    replies = fw.run_driver("C19", reqs)
    ok = True
    for rq, ex, rp, d in zip(reqs, expect, replies, descs):
        if d[0] == "bbuild":
            got = rp if rp == "typeerror" else "ok " + ";".join(
                part.split(":")[0] + ":" + ",".join(sorted(x for x in part.split(":")[1].split(",") if x))
                for part in rp[3:].split(";"))
            run.case(d, nontrivial=True, sample={"request": rq, "model": rp, "recipes": d[3]})
            if got == ex:
                run.traces += 1
            else:
                ok = False
                run.note_broken("correspondence: request `%s` (assembled by %s) model `%s` implementation `%s`"
                                % (rq, d[3], rp, ex))
            continue
        if d[0] == "build":
            got = rp if rp == "typeerror" else "ok " + ";".join(",".join(sorted(x for x in part.split(",") if x))
                                                                  for part in rp[3:].split(";"))
            run.case(d, nontrivial=len(d[1]) > 1, sample={"request": rq, "model": rp})
            if got == ex:
                run.traces += 1
            else:
                ok = False
                run.note_broken("correspondence: request `%s` model `%s` implementation `%s`" % (rq, rp, ex))
            continue
        nontrivial = (" P " in rq or " I " in rq or " S " in rq or " C " in rq or rq.count(" D ") > 1)
        run.case(d, nontrivial=nontrivial, sample={"request": rq[:300], "model": rp[:200]})
        if d[0] == "trig":
            head, _, lg = rp.partition(" | ")
            same = (head == ex[0] and canon_log(lg) == [(t, sorted(k)) for t, k in ex[1]])
            exs = "%s | %s" % (ex[0], logs(ex[1]))
        else:
            same = rp.replace(" | nodet", "") .split(" | ")[0] == ex.split(" | ")[0] if " | nodet" in ex else rp == ex
            exs = ex
        if same:
            run.traces += 1
        else:
            ok = False
            run.note_broken("correspondence: request `%s` model `%s` implementation `%s`"
                            % (rq[:400], rp[:300], exs[:300]))
            if len(run.broken) > 6:
                break
    report_refused(run)
    return ok


# ---------------------------------------------------------------------------------------------
def oracle_case(run, e):
    """property-level checks on the implementation alone; returns a failure description or None"""
    obj = py_eval(e)
    ids = eleaves(e)
    aboves = _any_above(e)
    if obj is None:
        if not aboves and _has_det_everywhere(e):
            return "combination of valid operands raised"
        return None
    if not is_det(obj):
        return None
    if aboves:
        return "antenna above the surface accepted"
    got = [a.aid for a in obj]
    if got != ids:
        return "iteration %s != construction order %s" % (got, ids)
    if len(obj) != len(ids) or [obj[i].aid for i in range(len(ids))] != ids:
        return "len/getitem disagree with iteration"
    if ids and obj[-1].aid != ids[-1]:
        return "negative index"
    return None


def _any_above(e):
    if e[0] == "T":
        return _tree_above(e[1])
    if e[0] in "PI":
        return _any_above(e[1]) or _any_above(e[2])
    return any(_any_above(x) for x in e[1])


def _tree_above(t):
    if t[0] == "A":
        return bool(t[4])
    if t[0] == "L":
        return any(a[4] for a in t[1])
    return any(_tree_above(s) for s in (t[4] if t[0] == "D" else t[1]))


def _has_det_everywhere(e):
    """every binary step has a detector on one side (so no TypeError is expected)"""
    def isd(e):
        if e[0] == "T":
            return e[1][0] in "DC"
        return True

    def okk(e):
        if e[0] == "T":
            return True
        if e[0] in "PI":
            return okk(e[1]) and okk(e[2]) and (isd(e[1]) or isd(e[2]))
        return all(okk(x) for x in e[1]) and isd(e[1][0]) and len(e[1]) > 0
    return okk(e)


def known_probes(run):
    """K16: keywords do not pass through a nested group whose members have differing build signatures"""
    b = ("G", [("G", [("F", 1, ["antenna_class", "p"]), ("F", 2, ["antenna_class", "q"])]), ("F", 3, ["antenna_class", "r"])])
    class _Ctor:      # force the plain constructor recipe
        @staticmethod
        def choice(xs):
            return "ctor"
    fake = type("R", (), {"rng": _Ctor})()
    status, got, _ = bbuild_impl(fake, b, ["antenna_class", "p", "q", "r"], [])
    run.case(("known", "K16"), sample={"K16_probe": got})
    if status == "ok" and got.get(1) == [] and got.get(2) == [] and got.get(3) == ["antenna_class", "r"]:
        run.known_finding("K16")


def search(run, deep):
    n = run.scale(60, 1500) if not deep else 1500
    for i in range(n):
        seq = [run.rng.choice(HISTORY_STEPS) for _ in range(run.rng.randint(2, 7))]
        state = run.rng.getstate()
        why = history_case(run, seq)
        run.case(("history", tuple(seq)), nontrivial=True, sample={"history": seq})
        run.count("history_steps", len(seq))
        if why:
            run.fail_input("history", {"steps": seq, "rng_state": repr(state)}, observed=why,
                           what="query/mutate/query history %s: %s" % (seq, why))
        inp3, why3 = rebuild_case(run)
        run.case(("rebuild", str(inp3)[:80]), nontrivial=True)
        if why3:
            run.fail_input("rebuild", inp3, observed=why3, what=why3)
        inp2, why2 = default_trigger_case(run)
        run.case(("default-trigger-strict-subs", str(inp2)[:80]), nontrivial=True)
        if why2:
            run.fail_input("default-trigger", inp2, observed=why2, what=why2)
        inp, why = routing_case(run)
        run.case(("routing", str(inp)), nontrivial=True)
        if why:
            run.fail_input("routing", inp, observed=why, what="trigger keyword routing: " + why)
        inp, why, k16 = build_property_case(run)
        run.case(("build-nested", inp["tree"], tuple(inp["kw"]), tuple(inp["recipes"])), nontrivial=True)
        if why:
            run.fail_input("build-nested", inp, observed=why, what="build keyword routing: " + why,
                           finding_key="K16" if k16 else None)
    for i in range(n):
        st = {"id": 0, "tag": 0, "p_above": run.rng.choice([0.0, 0.0, 0.1])}
        e = gen_expr(run, st, run.rng.randint(1, 3))
        why = oracle_case(run, e)
        run.case(("oracle", etoks(e)), nontrivial=e[0] != "T")
        if why:
            run.fail_input("expr", {"expr": etoks(e)}, observed=why, what=why)
            continue
        # associativity of three random detectors
        a, b, c = (("T", gen_tree(run, st, 2, need_det=True)) for _ in range(3))
        st["p_above"] = 0.0
        l = py_eval(("P", ("P", a, b), c))
        r = py_eval(("P", a, ("P", b, c)))
        i3 = py_eval(("I", ("I", ("P", a, b), ("T", ("L", []))), c))
        s3 = py_eval(("S", [a, b, c]))
        outs = [[x.aid for x in o] if o is not None and is_det(o) else None for o in (l, r, i3, s3)]
        if any(o is None for o in outs):
            if not (_any_above(a) or _any_above(b) or _any_above(c)):
                run.fail_input("assoc", {"a": etoks(a), "b": etoks(b), "c": etoks(c)}, observed=outs,
                               what="combination of three valid detectors failed")
            continue
        if not (outs[0] == outs[1] == outs[2] == outs[3]):
            run.fail_input("assoc", {"a": etoks(a), "b": etoks(b), "c": etoks(c)}, observed=outs,
                           what="+, += and sum disagree on the flattened content")
        # indexing: det[i] is list(det)[i] for EVERY integer (IndexError exactly where the list raises), slices likewise
        obj = l
        flat = list(obj)
        n_ = len(flat)
        for idx in list(range(-n_ - 4, n_ + 4)) + [np.int64(-1), np.int64(0)]:
            try:
                want = ("ok", id(flat[int(idx)]))
            except IndexError:
                want = ("IndexError", None)
            try:
                got = ("ok", id(obj[idx]))
            except IndexError:
                got = ("IndexError", None)
            if got != want:
                run.fail_input("getitem", {"a": etoks(a), "b": etoks(b), "c": etoks(c), "index": int(idx), "len": n_},
                               observed=got[0] if got[0] != "ok" else "antenna #%d" % [id(x) for x in flat].index(got[1]),
                               expected=want[0] if want[0] != "ok" else "antenna #%d" % [id(x) for x in flat].index(want[1]),
                               what="detector[%d] differs from list(detector)[%d] (len %d)" % (int(idx), int(idx), n_))
                break
        if len(obj) != n_:
            run.fail_input("getitem", {"a": etoks(a), "b": etoks(b), "c": etoks(c)}, observed=len(obj), expected=n_,
                           what="len(detector) != number of antennas iterated")
        # default trigger = any hit; clear clears all
        for mc in (False, True):
            alld = all(getattr(type(d), "triggered").__name__ == "triggered" for d in [obj])
            exp = any((x.is_hit_mc_truth if mc else x.is_hit) for x in obj)
            if _all_default(a) and _all_default(b) and _all_default(c):
                if bool(obj.triggered(require_mc_truth=mc)) != exp:
                    run.fail_input("trigger", {"a": etoks(a), "b": etoks(b), "c": etoks(c), "mc": mc},
                                   observed=not exp, expected=exp, what="default trigger != any antenna hit")
        # keyword routing: every custom sub-detector that was called received only what it accepts
        del CALL_LOG[:]
        kws = run.rng.sample(KW_POOL, run.rng.randint(0, 3))
        try:
            obj.triggered(require_mc_truth=True, **{k: 1 for k in kws})
        except TypeError:
            pass
        flag = run.rng.random() < 0.5
        obj.clear(reset_noise=flag)
        if any(getattr(x, "last_reset", None) is not flag for x in obj):
            run.fail_input("clear", {"a": etoks(a), "b": etoks(b), "c": etoks(c), "reset_noise": flag},
                           what="clear(reset_noise=%s) did not reach every antenna with that argument" % flag)
        try:
            still = obj.triggered()
        except TypeError:   # a custom sub-detector that does not take require_mc_truth
            still = False
        if any(x.is_hit or x.is_hit_mc_truth for x in obj) or still:
            run.fail_input("clear", {"a": etoks(a), "b": etoks(b), "c": etoks(c)},
                           what="clear() left an antenna hit")
    report_refused(run)


def _expr_all_default(e):
    if e[0] == "T":
        return _all_default(e)
    if e[0] in "PI":
        return _expr_all_default(e[1]) and _expr_all_default(e[2])
    return all(_expr_all_default(x) for x in e[1])


def walk_ids(o):
    """independent flatten: walk .subsets / lists recursively"""
    if isinstance(o, list):
        return [i for x in o for i in walk_ids(x)]
    if is_det(o):
        return [i for x in o.subsets for i in walk_ids(x)]
    return [o.aid]


def consistent(obj):
    """len / iteration / indexing agree with each other and with the live structure"""
    exp = walk_ids(obj)
    it = [a.aid for a in obj]
    if it != exp:
        return "iteration %s != live structure %s" % (it, exp)
    if len(obj) != len(exp):
        return "len %d != %d antennas in the structure" % (len(obj), len(exp))
    try:
        if [obj[i].aid for i in range(len(exp))] != exp or (exp and obj[-1].aid != exp[-1]):
            return "indexing disagrees with iteration"
        n = len(exp)
        for sl in (slice(None), slice(1, None), slice(None, -1), slice(None, None, 2), slice(n, 0, -1), slice(-2, None)):
            if [a.aid for a in obj[sl]] != exp[sl]:
                return "slice %s disagrees with iteration" % (sl,)
    except IndexError:
        return "indexing raises inside range(len)"
    return None


def history_case(run, seq):
    """query - mutate a nested part in place - query again (stale-cache histories)"""
    A = ant_class()
    st = {"id": 0, "tag": 0, "p_above": 0.0}
    mk = lambda: build(("D", _next(st, "tag"), True, [], [gen_ant(run, st) for _ in range(run.rng.randint(1, 3))]))
    s1, s2, s3 = mk(), mk(), mk()
    lst = [build(gen_ant(run, st)) for _ in range(2)]
    inner = s2 + s3
    outer = s1 + inner
    withlist = s1 + lst
    nested = mk() + (mk() + inner)
    objs = {"outer": outer, "inner": inner, "withlist": withlist, "nested": nested}
    for step in seq:
        if step == "query":
            for o in objs.values():
                len(o); list(o); (len(o) and o[0])
        elif step == "iadd_inner_ant":
            inner += build(gen_ant(run, st))
        elif step == "iadd_inner_det":
            inner += mk()
        elif step == "append_list":
            lst.append(build(gen_ant(run, st)))
        elif step == "rebuild_string":
            n0 = st["id"]
            s2.build_antennas(lambda position, _n=[n0]: _mk_ant(A, _n, position))
            st["id"] += len(s2.antenna_positions)
        elif step == "iadd_outer":
            outer += mk()
        for name, o in objs.items():
            why = consistent(o)
            if why:
                return "%s after %s: %s" % (name, step, why)
    return None


def _next(st, k):
    st[k] += 1
    return st[k]


def _mk_ant(A, counter, position):
    counter[0] += 1
    a = A(counter[0], False, False, False)
    a.position = position
    return a


HISTORY_STEPS = ["query", "iadd_inner_ant", "iadd_inner_det", "append_list", "rebuild_string", "iadd_outer"]


_strict_cls = None


def strict_class():
    """a user subclass whose own trigger is STRICTER than any-hit (needs two hit antennas by default)"""
    global _strict_cls
    if _strict_cls is None:
        pyrex = _pyrex()

        class Strict(pyrex.Detector):
            def set_positions(self, subsets):
                self.subsets = list(subsets)
                self.antenna_positions = [s.position for s in subsets]

            def triggered(self, antenna_requirement=2, require_mc_truth=False):
                return sum(bool(a.is_hit_mc_truth if require_mc_truth else a.is_hit) for a in self) >= antenna_requirement
        _strict_cls = Strict
    return _strict_cls


def default_trigger_case(run):
    """a detector that keeps the DEFAULT trigger is triggered exactly when some antenna in it is hit - whatever stricter
    triggers its sub-detectors define for themselves"""
    pyrex = _pyrex()
    st = {"id": 0, "tag": 0, "p_above": 0.0}
    subs, hits = [], []
    for _ in range(run.rng.randint(1, 3)):
        ants = []
        for _a in range(run.rng.randint(1, 3)):
            hit = run.rng.random() < 0.3
            mc = hit and run.rng.random() < 0.5
            ants.append(ant_class()(_next(st, "id"), hit, mc, False))
            hits.append((hit, mc))
        subs.append(strict_class()(ants))

    class Outer(pyrex.Detector):          # default `triggered`
        def set_positions(self, subsets):
            self.subsets = list(subsets)
    outer = Outer(subs)
    inp = {"sub_detector_hits": [[(bool(a.is_hit), bool(a.is_hit_mc_truth)) for a in s] for s in subs]}
    for mc in (False, True):
        want = any(m if mc else h for h, m in hits)
        try:
            got = bool(outer.triggered(require_mc_truth=mc))
        except TypeError as e:
            return inp, "default trigger raised %s" % e
        if got != want:
            return dict(inp, require_mc_truth=mc), ("default trigger of a detector of strict sub-detectors is %s although %s antenna is hit"
                                                    % (got, "some" if want else "no"))
    return inp, None


def rebuild_case(run):
    """build_antennas is re-run after the planned positions of a base-level detector changed (shortened, lengthened,
    replaced): the detector then holds exactly the antennas of the LAST build, one per current position, in order"""
    pyrex = _pyrex()

    class Str(pyrex.Detector):
        def set_positions(self, n, x):
            self.antenna_positions = [(x, 0.0, -10.0 - 5 * i) for i in range(n)]

    class Station(pyrex.Detector):
        def set_positions(self, ns):
            self.subsets = [Str(n, float(j)) for j, n in enumerate(ns)]
    ns = [run.rng.randint(1, 4) for _ in range(run.rng.randint(1, 3))]
    shape = run.rng.choice(["string", "station", "combined"])
    if shape == "string":
        det = Str(ns[0], 0.0); strings = [det]
    elif shape == "station":
        det = Station(ns); strings = list(det.subsets)
    else:
        strings = [Str(n, float(j)) for j, n in enumerate(ns)]
        det = strings[0] + strings[1] if len(strings) > 1 else strings[0] + Str(1, 9.0)
        strings = [s_ for s_ in det.subsets if isinstance(s_, Str)]
    det.build_antennas(antenna_class=pyrex.Antenna, noisy=False)
    first = [id(a) for a in det]
    steps = []
    for _ in range(run.rng.randint(1, 2)):
        st_ = run.rng.choice(strings)
        n_old = len(st_.antenna_positions)
        how = run.rng.choice(["shorten", "shorten", "lengthen", "replace"])
        if how == "shorten" and n_old > 1:
            st_.antenna_positions = st_.antenna_positions[:run.rng.randint(1, n_old - 1)]
        elif how == "lengthen":
            st_.antenna_positions = list(st_.antenna_positions) + [(7.0, 7.0, -200.0 - n_old)]
        else:
            st_.antenna_positions = [(p_[0], 3.0, p_[2] - 1.0) for p_ in st_.antenna_positions]
        steps.append((how, n_old, len(st_.antenna_positions)))
        det.build_antennas(antenna_class=pyrex.Antenna, noisy=False)
    want = [tuple(float(v) for v in p_) for s_ in strings for p_ in s_.antenna_positions]
    got = [tuple(float(v) for v in a.position) for a in det]
    inp = {"shape": shape, "strings": ns, "steps": steps}
    if len(det) != len(want) or got != want:
        return inp, "after re-building, the detector holds %d antennas at %s; its strings plan %d positions %s" % (
            len(det), got[:6], len(want), want[:6])
    if any(det[i] is not list(det)[i] for i in range(len(det))):
        return inp, "indexing and iteration disagree after a re-build"
    return inp, None


def routing_case(run):
    """flat combination of custom detectors with differing signatures: each receives exactly the
    keywords it accepts (independent recomputation, no Lean model involved)"""
    st = {"id": 0, "tag": 0, "p_above": 0.0}
    k = run.rng.randint(2, 4)
    sigs = []
    while len(set(map(lambda x: (tuple(x[0]), x[1]), sigs))) < 2:
        sigs = [gen_sig(run) for _ in range(k)]
    subs = []
    for acc, star in sigs:
        st["tag"] += 1
        subs.append(("D", st["tag"], star, acc, [("A", _next(st, "id"), False, False, False)]))
    obj = build(("C", subs))
    kws = run.rng.sample(KW_POOL, run.rng.randint(0, 3))
    mc = run.rng.random() < 0.5
    del CALL_LOG[:]
    try:
        obj.triggered(require_mc_truth=mc, **{kk: 1 for kk in kws})
    except TypeError as e:
        return {"sigs": sigs, "kws": kws}, "TypeError %s" % e
    got = dict(CALL_LOG)
    for (tag, (acc, star)) in zip(range(1, k + 1), sigs):
        exp = sorted(kk for kk in kws + ["require_mc_truth"] if star or kk in acc)
        if got.get(tag) != exp:
            return {"sigs": sigs, "kws": kws}, "detector %d (accepts %s%s) received %s, expected %s" % (
                tag, acc, " + **kwargs" if star else "", got.get(tag), exp)
    return {"sigs": sigs, "kws": kws}, None


def build_property_case(run):
    """property-level expectation (no Lean model): every detector that accepts a keyword receives it, whatever
    the nesting and the assembly recipe; K16 = a group with the generic signature under a heterogeneous parent"""
    st = {"tag": 0}
    pool = [["antenna_class"] + run.rng.sample(BUILD_POOL, run.rng.randint(0, 2)) for _ in range(run.rng.randint(1, 3))]
    b = ("G", [gen_bnode(run, st, run.rng.randint(0, 2), pool) for _ in range(run.rng.randint(1, 3))])
    allp = sorted({p_ for s_ in pool for p_ in s_})
    kw = ["antenna_class"] + run.rng.sample([x for x in allp if x != "antenna_class"], min(2, len(allp) - 1))
    if len(kw) > 1 and run.rng.random() < 0.4:
        # a keyword set that some sub-detectors do not recognise AT ALL: they must still be built (with no keywords)
        kw = kw[1:]
        run.count("build_keywords_disjoint_from_some_subdetector")
    recipes = []
    status, got, b = bbuild_impl(run, b, kw, recipes)
    inp = {"tree": btoks(b), "kw": kw, "recipes": recipes}
    sig = bsig_of(b)
    if sig is not None:      # one shared signature: everything is passed down, unknown keywords are an error
        if status == "typeerror":
            return inp, (None if any(k not in sig for k in kw) else "TypeError although every keyword is accepted"), False
        if any(k not in sig for k in kw):
            return inp, "a keyword no sub-detector accepts was silently dropped", False
    if status == "typeerror":
        # members with DIFFERING signatures: each must be handed exactly the keywords it accepts, so nothing can be
        # rejected (a TypeError here means some member was handed a keyword it does not take - e.g. same-class
        # members, CombinedDetector groups or generic stations, whose instances advertise different signatures)
        return inp, ("TypeError although the members' build signatures differ (every member must receive exactly the "
                     "keywords it accepts)"), False
    leaves = {}

    def walk(x):
        if x[0] == "F":
            leaves[x[1]] = x[2]
        else:
            for y in x[1]:
                walk(y)
    walk(b)
    for t, ps in leaves.items():
        exp = sorted(k for k in kw if k in ps)
        if got.get(t) != exp:
            return inp, "detector %d (accepts %s) received %s, expected %s" % (t, ps, got.get(t), exp), has_generic_under_hetero(b)
    return inp, None, False


def _all_default(e):
    def t_ok(t):
        if t[0] in "AL":
            return True
        if t[0] == "D":
            return t[2] and not t[3] and all(t_ok(s) for s in t[4])
        return all(t_ok(s) for s in t[1])
    return t_ok(e[1])


def replay(run, data):
    inp = data["input"]
    if data["kind"] == "expr":
        e = parse_expr(inp["expr"].split())[0]
        why = oracle_case(run, e)
        if why:
            run.fail_input("expr", inp, observed=why, what=why)
    elif data["kind"] == "refused-iadd":
        py_eval(parse_expr(inp["expr"].split())[0])
        report_refused(run)
    elif data["kind"] == "history":
        why = None
        for _ in range(20):   # the antennas drawn differ, the step sequence is what matters
            why = why or history_case(run, inp["steps"])
        if why:
            run.fail_input("history", inp, observed=why, what="query/mutate/query history: " + why)
    else:
        # assoc / trigger / clear / routing replays re-run the search with the recorded seed
        search(run, True)


def parse_tree(ts):
    k = ts[0]
    if k == "A":
        return ("A", int(ts[1]), bool(int(ts[2])), bool(int(ts[3])), bool(int(ts[4]))), ts[5:]
    if k == "L":
        n = int(ts[1]); ts = ts[2:]; xs = []
        for _ in range(n):
            xs.append(("A", int(ts[0]), bool(int(ts[1])), bool(int(ts[2])), bool(int(ts[3])))); ts = ts[4:]
        return ("L", xs), ts
    if k == "D":
        tag, star, na = int(ts[1]), bool(int(ts[2])), int(ts[3])
        acc = ts[4:4 + na]; ts = ts[4 + na:]
        n = int(ts[0]); ts = ts[1:]; subs = []
        for _ in range(n):
            s, ts = parse_tree(ts); subs.append(s)
        return ("D", tag, star, list(acc), subs), ts
    n = int(ts[1]); ts = ts[2:]; subs = []
    for _ in range(n):
        s, ts = parse_tree(ts); subs.append(s)
    return ("C", subs), ts


def parse_expr(ts):
    k = ts[0]
    if k == "T":
        t, r = parse_tree(ts[1:])
        return ("T", t), r
    if k in "PI":
        a, r = parse_expr(ts[1:]); b, r = parse_expr(r)
        return (k, a, b), r
    n = int(ts[1]); r = ts[2:]; xs = []
    for _ in range(n):
        x, r = parse_expr(r); xs.append(x)
    return ("S", xs), r
