"""C20 - only interfaces present in the declared dependency range.
The translator harness/extract/refs.py regenerates the reference table and the environment table;
Props/C20.lean re-proves `all refs resolve` by kernel `decide`.  The import smoke test is the runtime tie."""
import importlib
import json
import os
import subprocess
import sys

import framework as fw

LEVEL = "proof"
EXTRACTORS = ["refs"]
TECHNIQUE = "kernel-checked decide over tables regenerated from the source AST and the installed libraries"
RULE = ("every Name.attr... chain / from-import / getattr into numpy, scipy, h5py or the standard library in "
        "pyrex/**/*.py (static, so the custom sub-packages with emptied data files are covered); non-trivial = "
        "unguarded reference; distinct = distinct (module, attribute) pairs; plus an import smoke test of every module")
LEVEL_TEXT = ("the property quantifies over a finite table (all references in the source x the installed "
              "environment); both tables are regenerated on every run and the theorem is re-checked by the kernel")
LEVEL_NOTE = ("syntax is checked against the declared minimum Python only as far as ast.parse(feature_version=...) models "
              "grammar differences (e.g. the f-string '=' specifier is not seen); imports through importlib.import_module / "
              "__import__ with a literal name are treated as imports; attribute access on instances is resolved only for the results of numpy array constructors "
              "(np.asarray(x).attr is checked against numpy.ndarray); other instance attributes are not typed, except that every "
              "`with` item must enter an object KNOWN to have the context-manager protocol (documented context-manager function, "
              "installed library class or package class with __enter__/__exit__) - an item the translator cannot type is a broken "
              "obligation followed by an instrumented API walk (harness/with_probe.py); numpy type names written as string literals "
              "(dtype='...', .astype('...'), np.dtype('...')) are checked against the installed numpy.dtype, other library names inside "
              "strings are not seen. "
              "trusted: completeness of the AST walker (dynamic attribute access via computed strings is not seen), "
              "the hand-written list of names newer than the declared minimum versions and the hand-written list of documented "
              "context-manager functions (open, tarfile.open, ...); only the INSTALLED "
              "numpy/scipy/h5py/Python can be inspected (they lie inside the declared range)")

MODULES = ["pyrex", "pyrex.signals", "pyrex.antenna", "pyrex.askaryan", "pyrex.detector", "pyrex.earth_model",
           "pyrex.generation", "pyrex.ice_model", "pyrex.internal_functions", "pyrex.io", "pyrex.kernel",
           "pyrex.particle", "pyrex.ray_tracing", "pyrex.custom.layered_ice", "pyrex.custom.layered_ice.ice_model",
           "pyrex.custom.layered_ice.ray_tracing", "pyrex.custom.pyspice",
           "pyrex.custom.ara", "pyrex.custom.arianna", "pyrex.custom.irex"]
# data files of these are emptied in this sandbox: only data-content errors are tolerated
DATA_STRIPPED = {"pyrex.custom.ara", "pyrex.custom.arianna", "pyrex.custom.irex", "pyrex"}
API_ERRORS = ("AttributeError", "ImportError", "ModuleNotFoundError", "NameError")


def smoke(run):
    """import every module in a fresh interpreter"""
    code = (
        "import importlib, json, sys, warnings\n"
        "warnings.simplefilter('ignore')\n"
        "sys.path.insert(0, %r)\n"
        "res = {}\n"
        "for m in %r:\n"
        "    try:\n"
        "        importlib.import_module(m); res[m] = 'ok'\n"
        "    except BaseException as e:\n"
        "        res[m] = type(e).__name__ + ': ' + str(e)[:200]\n"
        "print(json.dumps(res))\n" % (fw.REPO, MODULES))
    p = subprocess.run([sys.executable, "-W", "ignore", "-c", code], capture_output=True, text=True, timeout=600)
    try:
        return json.loads(p.stdout.strip().split("\n")[-1])
    except Exception:
        return {"<interpreter>": "crash: " + (p.stderr or p.stdout)[-300:]}


def correspondence(run):
    res = smoke(run)
    ok = True
    for m, r in res.items():
        run.case(("import", m), nontrivial=True, sample={"import": m, "result": r})
        if r == "ok":
            run.traces += 1
            run.count("import_ok")
            continue
        kind = r.split(":")[0]
        if kind in API_ERRORS or m not in DATA_STRIPPED:
            ok = False
            run.note_broken("correspondence: importing %s fails: %s" % (m, r))
            run.fail_input("import", {"module": m}, observed=r, what="import %s raises %s" % (m, r[:120]))
        else:
            run.count("import_fails_on_emptied_data_file")
            run.notes.append("import of %s stops on an emptied data file (%s) - static resolution covers it" % (m, r[:80]))
    return ok


_FRESH_EVAL = r"""
import sys, json, types, importlib
spec = json.load(sys.stdin)
for m in spec["imports"]:
    try:
        importlib.import_module(m)
    except Exception:
        pass
out = {}
for full in spec["chains"]:
    cur = sys.modules.get(full[0])
    if cur is None:
        out[".".join(full)] = "module %s is not imported by the package" % full[0]
        continue
    for i, a in enumerate(full[1:]):
        try:
            cur = getattr(cur, a)
        except Exception as e:
            out[".".join(full)] = "%s: %s" % (type(e).__name__, e)
            break
        if not isinstance(cur, types.ModuleType):
            break      # attributes of non-module objects are not resolved further
import inspect
for full, kw in spec.get("kwcalls", []):
    cur = sys.modules.get(full[0])
    try:
        for a in full[1:]:
            cur = getattr(cur, a)
        sg = inspect.signature(cur)
    except Exception:
        continue                      # unresolvable (reported as a reference) or not introspectable (not decided)
    try:
        sg.bind_partial(**{kw: None})   # Python's own argument binding
    except TypeError as e:
        out[".".join(full) + "(" + kw + "=)"] = "TypeError: %s; installed signature %s" % (e, sg)
json.dump(out, sys.stdout)
"""


def _fresh_eval(imports, chains, kwcalls=()):
    import json as _json
    import subprocess
    p = subprocess.run([sys.executable, "-W", "ignore", "-c", _FRESH_EVAL],
                       input=_json.dumps({"imports": imports, "chains": [list(c) for c in chains],
                                          "kwcalls": [[list(f), k] for f, k in kwcalls]}),
                       capture_output=True, text=True, timeout=600)
    if p.returncode != 0:
        raise RuntimeError("fresh-interpreter evaluation failed: " + p.stderr[-300:])
    return _json.loads(p.stdout)


def unresolved(run):
    """re-evaluate every unguarded reference of the regenerated table on the real environment"""
    sys.path.insert(0, os.path.join(fw.VERIF, "harness"))
    from extract import refs as ex
    import ast
    bad = []
    pending = []
    pending_kw = []
    pkg = os.path.join(fw.REPO, "pyrex")
    n = 0
    seen = set()
    for root, dirs, fs in os.walk(pkg):
        for f in sorted(fs):
            if not f.endswith(".py"):
                continue
            path = os.path.join(root, f)
            rel = os.path.relpath(path, fw.REPO)
            v = ex.FileRefs(rel)
            try:
                src_ = open(path).read()
                msg = ex.syntax_check(src_, ex.declared_python(fw.REPO))
                if msg:
                    bad.append({"file": rel, "line": 0, "expr": "<syntax>",
                                "why": "does not parse with the grammar of the declared minimum Python %s: %s"
                                       % (ex.declared_python(fw.REPO), msg)})
                v.visit(ast.parse(src_))
            except Exception as e:
                bad.append({"file": rel, "line": 0, "expr": "<unparsable: %s>" % e})
                continue
            declared = set(ex.declared_requirements(fw.REPO))
            for m, ln, g in [(m, ln, g) for m, ln, g in v.imports] + [(m, ln, g) for m, nm, ln, g in v.from_imports]:
                top = m.split(".")[0]
                if not g and top not in ex.OPTIONAL and top not in ex.STDLIB and top.lower() not in declared:
                    bad.append({"file": rel, "line": ln, "expr": "import " + m,
                                "why": "is neither standard library nor declared in install_requires (%s)" % sorted(declared)})
            try:
                bound_here = ex.names_bound_in(ast.parse(src_))
            except Exception:
                bound_here = set()
            for nm, chain_, line_ in v.unbound:
                if nm not in bound_here:
                    bad.append({"file": rel, "line": line_, "expr": nm + "." + ".".join(chain_),
                                "why": "uses the library root name `%s`, which is not bound anywhere in this module "
                                       "(no import binds it): NameError at run time" % nm})
            for rootp, chain, kws, line, g in v.kwcalls:
                if not g and ex.is_external(rootp) and rootp.split(".")[0] not in ex.OPTIONAL:
                    for kw in kws:
                        pending_kw.append((rel, line, rootp.split(".") + list(chain), kw))
            items = [(r, ch, ln, g) for r, ch, ln, g in v.refs] + \
                    [(m, [nm], ln, g) for m, nm, ln, g in v.from_imports if nm != "*"]
            for rootp, chain, line, g in items:
                if g or not ex.is_external(rootp) or rootp.split(".")[0] in ex.OPTIONAL:
                    continue
                n += 1
                expr = rootp + "." + ".".join(chain)
                seen.add(expr)
                if rootp == "numpy.ndarray":
                    import numpy
                    if not hasattr(numpy.ndarray, chain[0]):
                        bad.append({"file": rel, "line": line, "expr": "<ndarray>." + chain[0],
                                    "why": "is not an attribute of numpy.ndarray in the installed numpy"})
                    continue
                pending.append((rel, line, expr, rootp.split(".") + list(chain)))
    # evaluate every chain by plain attribute access in a FRESH interpreter that has executed the package's own external
    # imports (a sub-module nobody imported is not an attribute of its parent there, whatever this process has loaded)
    ext = set()
    for root, dirs, fs in os.walk(pkg):
        for f in fs:
            if f.endswith(".py"):
                try:
                    v2 = ex.FileRefs(f); v2.visit(ast.parse(open(os.path.join(root, f)).read()))
                except Exception:
                    continue
                for m, ln, g in v2.imports:
                    if ex.is_external(m) and m.split(".")[0] not in ex.OPTIONAL:
                        ext.add(m)
                for m, nm, ln, g in v2.from_imports:
                    if ex.is_external(m) and m.split(".")[0] not in ex.OPTIONAL:
                        ext.add(m)
    verdicts = _fresh_eval(sorted(ext), sorted({tuple(p[3]) for p in pending}))
    for rel, line, expr, full in pending:
        why = verdicts.get(".".join(full))
        if why:
            bad.append({"file": rel, "line": line, "expr": expr, "why": "fails in a fresh interpreter: " + why})
        else:
            for k in range(1, len(full)):
                if (".".join(full[:k]), full[k]) in ex.TOO_NEW:
                    bad.append({"file": rel, "line": line, "expr": expr, "why": "newer than the declared minimum version"})
                    break
    # names bound only under an optional-dependency guard but used by code that runs without the dependency
    trees = {}
    for root, dirs, fs in os.walk(pkg):
        for f in fs:
            if f.endswith(".py"):
                rel_ = os.path.relpath(os.path.join(root, f), fw.REPO)
                try:
                    trees[rel_] = ast.parse(open(os.path.join(root, f)).read())
                except Exception:
                    pass
    only = {r: ex.optional_only_names(t) for r, t in trees.items()}
    mod_of = {r[:-3].replace(os.sep, ".").replace(".__init__", ""): r for r in trees}
    for r, t in trees.items():
        alias_internal = {}
        for n_ in ast.walk(t):
            if isinstance(n_, ast.Import):
                for a in n_.names:
                    if a.name in mod_of and a.asname:
                        alias_internal[a.asname] = mod_of[a.name]
            elif isinstance(n_, ast.ImportFrom) and n_.module:
                for a in n_.names:
                    if n_.module + "." + a.name in mod_of:
                        alias_internal[a.asname or a.name] = mod_of[n_.module + "." + a.name]
        for name, fn, line in ex.optional_leaks(r, t, only[r], only, alias_internal):
            bad.append({"file": r, "line": line, "expr": name,
                        "why": "is bound only inside an `if ...__available__:` block (it does not exist without the optional "
                               "dependency) but is used by `%s`, which runs without it: NameError/AttributeError at call time" % fn})
    bad += with_protocol(run, ex, trees, ext)
    n_dt = 0
    for r, t in sorted(trees.items()):
        v3 = ex.FileRefs(r)
        try:
            v3.visit(t)
        except Exception:
            continue
        for line, lit in ex.dtype_literals(t, v3.alias):
            n_dt += 1
            if not ex.dtype_understood(lit):
                import numpy
                try:
                    numpy.dtype(lit)
                    why = "?"
                except Exception as e:      # noqa: BLE001
                    why = "%s: %s" % (type(e).__name__, e)
                bad.append({"file": r, "line": line, "expr": "dtype %r" % lit,
                            "why": "names a numpy type by a string the installed numpy does not understand (numpy.dtype(%r) -> %s)"
                                   % (lit, why)})
    run.extra["dtype_string_literals_checked"] = n_dt
    kwv = _fresh_eval(sorted(ext), [], kwcalls=sorted({(tuple(f), k) for _, _, f, k in pending_kw}))
    for rel, line, full, kw in pending_kw:
        why = kwv.get(".".join(full) + "(" + kw + "=)")
        if why:
            bad.append({"file": rel, "line": line, "expr": ".".join(full) + "(" + kw + "=...)",
                        "why": "passes a keyword the installed callable does not accept: " + why})
    run.extra["keyword_arguments_checked"] = len(pending_kw)
    run.extra["unguarded_references"] = n
    run.extra["distinct_reference_expressions"] = len(seen)
    return bad


def with_protocol(run, ex, trees, ext):
    """objects entered by `with` statements: library classes without the protocol are failing inputs by themselves; items the
    translator cannot type are followed by the instrumented API walk of harness/with_probe.py"""
    import ast
    import tempfile
    bad, unknown, rows = [], [], []
    own_cm = ex.own_context_classes(trees)
    for rel, t in sorted(trees.items()):
        v = ex.FileRefs(rel)
        try:
            v.visit(t)
        except Exception:
            continue
        for line, text, how, cand in ex.with_items(rel, t, v.alias, ex.names_bound_in(t), own_cm):
            rows.append((rel, line, text, how, cand))
    cands = {tuple(c) for _, _, _, how, c in rows if how == "library"}
    verdict = ex.fresh_modules(sorted(ext), [], (), cands)[2] if cands else {}
    for rel, line, text, how, cand in rows:
        if how == "library":
            okc, why = verdict.get(".".join(cand), [False, "not evaluated"])
            if not okc and "has no" in why:
                bad.append({"file": rel, "line": line, "expr": "with " + text,
                            "why": "enters an object without the context-manager protocol in the installed library (%s): "
                                   "TypeError at run time" % why})
            elif not okc:
                unknown.append((rel, line, text))
        elif how == "unknown":
            unknown.append((rel, line, text))
    run.extra["with_items_checked"] = len(rows)
    run.extra["with_items_not_typed_by_the_translator"] = len(unknown)
    if not unknown:
        return bad
    with tempfile.TemporaryDirectory(prefix="c20_with_") as d:
        p = subprocess.run([sys.executable, "-W", "ignore", os.path.join(fw.VERIF, "harness", "with_probe.py"), fw.REPO, d],
                           capture_output=True, text=True, timeout=900)
    rec, calls = {}, 0
    for ln in p.stdout.splitlines():
        if ln.startswith("@C20PROBE "):
            out = json.loads(ln[len("@C20PROBE "):])
            rec, calls = out["records"], out["calls"]
    run.extra["with_probe_calls"] = calls
    if not calls:
        run.notes.append("with-item probe did not run to completion: " + (p.stderr or p.stdout)[-300:])
    for rel, line, text in unknown:
        seen = rec.get("%s:%d" % (rel, line), {})
        failing = {t: r for t, r in seen.items() if not r["ok"]}
        if failing:
            t, r = sorted(failing.items())[0]
            bad.append({"file": rel, "line": line, "expr": "with " + text, "call": r["call"], "type": t,
                        "why": "enters an object of type %s, which has no __enter__/__exit__ in the installed library "
                               "(the name resolves, the context-manager PROTOCOL of its result is not part of the declared "
                               "range): TypeError during %s" % (t, r["call"])})
        else:
            run.note_broken("with-item %s:%d `with %s` enters an object the translator cannot type; the instrumented API "
                            "walk (%d calls) %s" % (rel, line, text, calls,
                                                    "saw only types with the protocol there: %s" % sorted(seen) if seen
                                                    else "did not reach it"))
    return bad


def search(run, deep):
    bad = unresolved(run)
    for b in bad:
        run.case(("ref", b["expr"], b["file"], b["line"]))
        run.fail_input("reference", b, observed="does not resolve in the installed environment" if "why" not in b else b["why"],
                       what="%s:%d references %s which %s" % (b["file"], b["line"], b["expr"],
                                                             b.get("why", "does not exist in the installed libraries")))
    run.case(("refs-scan", run.extra.get("unguarded_references")), nontrivial=True,
             sample={"unguarded_references_checked": run.extra.get("unguarded_references")})
    run.evaluations += run.extra.get("unguarded_references", 0)
    # distinct count: distinct reference expressions
    for i in range(run.extra.get("distinct_reference_expressions", 0)):
        run.distinct.add("ref-%d" % i)


def replay(run, data):
    inp = data["input"]
    if data["kind"] == "import":
        res = smoke(run)
        r = res.get(inp["module"], "?")
        if r != "ok" and (r.split(":")[0] in API_ERRORS or inp["module"] not in DATA_STRIPPED):
            run.fail_input("import", inp, observed=r, what="import %s raises %s" % (inp["module"], r[:120]))
    else:
        for b in unresolved(run):
            if b["expr"] == inp["expr"] and b["file"] == inp["file"]:
                run.fail_input("reference", b, what="%s:%d references %s" % (b["file"], b["line"], b["expr"]))
