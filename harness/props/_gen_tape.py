"""Tape feeder for numpy.random (shared by C13 and C14).

While active, the module-level functions pyrex calls (`numpy.random.rand`, `random_sample`, `uniform`,
`poisson`) are replaced by functions that hand out values chosen by the harness and record them, so the
same tape can be given to the Lean model.  No hook in /repo is needed."""
import numpy as np


class Tape:
    def __init__(self, rng, poisson_mode="nominal", inject=None):
        """rng: random.Random; poisson_mode: 'nominal' (Poisson(lam) variates) or 'stress' (small integers
        irrespective of lam); inject: optional list of uniforms handed out first"""
        self.rng = rng
        self.mode = poisson_mode
        self.inject = list(inject or [])
        self.us = []       # uniforms handed out, in order
        self.ks = []       # poisson integers handed out, in order
        self.lams = []     # the means that were requested
        self.calls = []    # names of the functions called, in order
        self._saved = None

    # ---- the replaced functions
    def _u(self):
        if self.inject:
            u = float(self.inject.pop(0))
        else:
            u = self.rng.random()
        self.us.append(u)
        return u

    def _many(self, size):
        """an array request consumes its uniforms one after the other (C order), like numpy's generator"""
        shape = (size,) if isinstance(size, (int, np.integer)) else tuple(size)
        out = np.empty(shape)
        for idx in np.ndindex(shape):
            out[idx] = self._u()
        return out

    def rand(self, *shape):
        self.calls.append("rand")
        return self._many(shape) if shape else self._u()

    def random_sample(self, size=None):
        self.calls.append("random_sample")
        return self._u() if size is None else self._many(size)

    def uniform(self, low=0.0, high=1.0, size=None):
        """numpy semantics: low + (high-low)*u, elementwise over broadcast low/high"""
        self.calls.append("uniform")
        lo, hi = np.broadcast_arrays(np.asarray(low, float), np.asarray(high, float))
        if size is not None:
            raise RuntimeError("tape feeder: np.random.uniform with a size is not modelled")
        if lo.ndim == 0:
            return float(lo) + (float(hi) - float(lo)) * self._u()
        out = np.empty(lo.shape)
        for idx in np.ndindex(lo.shape):
            out[idx] = lo[idx] + (hi[idx] - lo[idx]) * self._u()
        return out

    def poisson(self, lam=1.0, size=None):
        if size is not None:
            raise RuntimeError("tape feeder: np.random.poisson with a size is not modelled")
        self.calls.append("poisson")
        lam = float(lam)
        if self.mode == "stress":
            k = self.rng.choice([0, 0, 1, 1, 2, 3, 5])
        else:
            # Knuth's method, driven by the harness PRNG
            import math
            L, k, p = math.exp(-lam), 0, 1.0
            while True:
                p *= self.rng.random()
                if p <= L:
                    break
                k += 1
        self.lams.append(lam)
        self.ks.append(int(k))
        return int(k)

    # ---- context manager
    NAMES = ("rand", "random_sample", "uniform", "poisson")

    def __enter__(self):
        self._saved = {n: getattr(np.random, n) for n in self.NAMES}
        for n in self.NAMES:
            setattr(np.random, n, getattr(self, n))
        for n in ("random", "normal", "rayleigh", "randn", "choice", "randint"):
            self._saved[n] = getattr(np.random, n)
            setattr(np.random, n, self._forbidden(n))
        return self

    def _forbidden(self, name):
        def f(*a, **k):
            raise RuntimeError("tape feeder: unexpected call of np.random.%s" % name)
        return f

    def __exit__(self, *a):
        for n, f in self._saved.items():
            setattr(np.random, n, f)
        return False
