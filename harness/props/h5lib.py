"""Shared library of the C11 / C12 harness (HDF5 writer / reader / FileGenerator).

A *file* is described by a JSON-serialisable `spec`

    {"w": "110100",            six write bits: particles triggers antenna_triggers rays noise waveforms
     "rt": "T" | "F" | "L<6 bits>",   require_trigger (True / False / list, membership bits, same order)
     "rt_str": bool,           pass a one-element list as the bare string ('rays')
     "nant": 1..3, "noisy": [0/1]*nant,    stub detector (antennas whose _noise_master is not None)
     "fid": int (optional),    file number, encoded in vertex_z so that files of one list differ
     "ops": [ {"op": "A", "np": nParticles, "trig": 0/1, "form": "bool"|"dict"|"dictlist",
               "waves": [per-antenna #waveforms], "rays": [per-antenna #ray paths],
               "thrown": events_thrown, "fault": <name in FAULTS>}
            | {"op": "R"} ]}

Everything that is written is a deterministic function of the spec: the content of row k written by
the c-th add call (and antenna i) encodes (c, k, i), so that the rows the reader returns can be
identified with the row tags `c.k` of the Lean model (lean/PyrexVerif/D/H5.lean, protocol in
H5Proto.lean).  `write_file` writes the real file through pyrex.io.File with stub antennas / ray
paths / waveforms and real pyrex Particle/Event objects, and keeps `calls[c][table] = [row content]`
in the canonical form the reader returns it in.
"""
import contextlib
import os
import traceback

import framework as fw

TABLES = ["particles", "triggers", "mc_triggers", "rays", "noise", "waveforms"]
OPTN = ["particles", "triggers", "antenna_triggers", "rays", "noise", "waveforms"]
LOC = {"particles": "/monte_carlo_data/particles", "triggers": "/data/triggers",
       "mc_triggers": "/monte_carlo_data/triggers", "rays": "/monte_carlo_data/rays",
       "noise": "/monte_carlo_data/noise", "waveforms": "/data/waveforms"}
LOC_INV = {v: k for k, v in LOC.items()}
COUNTER = {"particles": "particles_meta", "triggers": "triggers", "mc_triggers": "mc_triggers",
           "rays": "rays_meta", "noise": "noise", "waveforms": "waveforms"}
FAULTS = ["none", "noRays", "noTrig", "badTrigDict", "evLenRaises", "badPartMeta", "antTrigRaises",
          "shortPerWave", "polMismatch", "badRayMeta", "noiseRaises", "waveRaises"]
PKEYS = ["particle_id", "vertex_x", "vertex_y", "vertex_z", "direction_x", "direction_y", "direction_z",
         "energy", "interaction_kind", "interaction_inelasticity", "interaction_em_frac",
         "interaction_had_frac", "survival_weight", "interaction_weight"]
PIDS = [12, -12, 14, -14, 16, -16]
DIRS = [(0.6, 0.0, 0.8), (0.0, 0.0, 1.0), (0.0, -0.8, 0.6), (1.0, 0.0, 0.0), (0.28, 0.0, -0.96)]
ERRNAME = {"KeyError": "key", "IndexError": "index", "ValueError": "value"}


# Implementation quirks that are outside the Lean model (which does not model row *values*) and that the
# comparison deliberately steps around; counted here, reported in the evidence (see canon_event):
QUIRKS = {}
MC_SKIP = "mc-row(content not compared: antenna columns displaced)"


def quirk(name):
    QUIRKS[name] = QUIRKS.get(name, 0) + 1


def displaced(mckeys):
    """column layout of /monte_carlo_data/triggers in which some antenna_i column is not column i (a named
    trigger key was created before the antenna columns: antenna_triggers trigger-gated and the first
    recorded add untriggered with a dict trigger).  Before the repair ed0aae8 `_write_trigger` stored
    antenna i's flags in column i instead of the column named antenna_i; such files are now compared like
    every other one and only counted (evidence: the generator keeps hitting the configuration)."""
    return any(k.startswith("antenna_") and j != int(k[8:]) for j, k in enumerate(mckeys))


class Injected(RuntimeError):
    """raised by the stub objects at the fault-injection points"""


# ---------------------------------------------------------------------------------------------
# option semantics (the harness's own reading of HDF5Writer.__init__, independent of the Lean model)
def wbit(spec, name):
    return spec["w"][OPTN.index(name)] == "1"


def trig_only(spec):
    rt = spec["rt"]
    if rt == "F":
        return {k: False for k in OPTN}
    if rt == "T":
        return {k: k not in ("particles", "triggers", "antenna_triggers") for k in OPTN}
    return {k: rt[1 + i] == "1" for i, k in enumerate(OPTN)}


def always_particles(spec):
    return wbit(spec, "particles") and not trig_only(spec)["particles"]


def gate(spec, name, trig):
    return wbit(spec, name) and (not trig_only(spec)[name] or bool(trig))


def recorded(spec, op, table):
    """is `table` written by an accepted add of `op` (harness bookkeeping for the search oracle)"""
    trig = op["trig"]
    if table == "mc_triggers":
        return gate(spec, "triggers", trig) and (gate(spec, "antenna_triggers", trig) or op_extra(op))
    return gate(spec, table, trig)


def require_trigger_value(spec):
    rt = spec["rt"]
    if rt == "T":
        return True
    if rt == "F":
        return False
    names = [k for i, k in enumerate(OPTN) if rt[1 + i] == "1"]
    if spec.get("rt_str") and len(names) == 1:
        return names[0]
    if spec.get("rt_tuple"):
        return tuple(names)
    return names


def writer_kwargs(spec):
    kw = {"write_" + k: wbit(spec, k) for k in OPTN}
    kw["require_trigger"] = require_trigger_value(spec)
    return kw


def opts_valid(w):
    return not (w[2] == "1" and w[1] != "1")


# ---------------------------------------------------------------------------------------------
# protocol
def op_extra(op):
    return int(op["form"] in ("dict", "dictlist") or op["fault"] in ("shortPerWave", "badTrigDict")) \
        if op["fault"] != "noTrig" else 0


def op_trig_bit(op):
    return 0 if op["fault"] in ("noTrig", "badTrigDict") else int(op["trig"])


def op_tokens(op):
    if op["op"] == "R":
        return "R"
    return "A %d %d %d %d %d %d %s" % (op["np"], op_trig_bit(op), max(op["waves"]), max(op["rays"]),
                                       op_extra(op), op["thrown"], op["fault"])


def file_line(spec):
    return "%s %s %d %s" % (spec["w"], spec["rt"], len(spec["ops"]),
                            " ".join(op_tokens(o) for o in spec["ops"]))


def parts(reply):
    return [p.strip() for p in reply.split("|")]


def split_events(s):
    s = s.strip()
    return [] if s == "" else s.split(";")


# ---------------------------------------------------------------------------------------------
# stubs
class Wave:
    def __init__(self, times, values, trigval):
        self.times = times
        self.values = values
        self.trigval = trigval


class BadWave:
    def __init__(self, values, trigval):
        self.values = values
        self.trigval = trigval

    @property
    def times(self):
        raise Injected("injected: wave.times")


class NoiseMaster:
    def __init__(self, freqs, amps, phases):
        self.freqs, self.amps, self.phases = freqs, amps, phases


class Path:
    def __init__(self, c, k, i, bad=False):
        self.c, self.k, self.i, self.bad = c, k, i, bad

    @property
    def _metadata(self):
        if self.bad:
            raise Injected("injected: ray path metadata")
        t = ray_tof(self.c, self.k, self.i)
        return {"tof": t, "path_length": 2.5 + self.k,
                "emitted_x": t + 0.25, "emitted_y": t + 0.5, "emitted_z": t + 0.75,
                "received_x": -t - 0.25, "received_y": -t - 0.5, "received_z": -t - 0.75,
                "kind": ray_kind(self.c, self.k, self.i)}


class StubAnt:
    """what HDF5Writer touches of an antenna; deliberately NO attribute called `antenna`"""

    def __init__(self, i):
        self.i = i
        self.all_waveforms = []
        self._nm = None
        self._nm_raise = False
        self._trig_raise = False

    @property
    def _metadata(self):
        i = self.i
        return {"position_x": 1.0 * i, "position_y": 2.0, "position_z": -100.0 - i,
                "z_axis_x": 0.0, "z_axis_y": 0.0, "z_axis_z": 1.0,
                "x_axis_x": 1.0, "x_axis_y": 0.0, "x_axis_z": 0.0,
                "gain": 1.5 + i, "label": "ant%d" % i}

    @property
    def _noise_master(self):
        if self._nm_raise:
            raise Injected("injected: noise master")
        return self._nm

    def trigger(self, wave):
        if self._trig_raise:
            raise Injected("injected: antenna trigger")
        return wave.trigval


class StubSystem:
    """an AntennaSystem-like wrapper: the writer reaches the noise master through `.antenna` (any depth)"""

    def __init__(self, inner):
        self.antenna = inner

    @property
    def _metadata(self):
        return self.antenna._metadata

    @property
    def all_waveforms(self):
        return self.antenna.all_waveforms

    @all_waveforms.setter
    def all_waveforms(self, v):
        self.antenna.all_waveforms = v

    def trigger(self, wave):
        return self.antenna.trigger(wave)


def innermost(ant):
    while hasattr(ant, "antenna"):
        ant = ant.antenna
    return ant


def make_antenna(spec, i):
    a = StubAnt(i)
    for _ in range((spec.get("nest") or [0] * spec["nant"])[i]):
        a = StubSystem(a)
    return a


class DetObj:
    """a detector that is not a list: iterable with a length; `rebuild()` replaces every antenna object
    (what re-running Detector.build_antennas does)"""

    def __init__(self, ants):
        self.ants = list(ants)

    def __iter__(self):
        return iter(self.ants)

    def __len__(self):
        return len(self.ants)

    def __getitem__(self, i):
        return self.ants[i]

    def __setitem__(self, i, a):
        self.ants[i] = a


def make_detector(spec):
    ants = [make_antenna(spec, i) for i in range(spec["nant"])]
    return DetObj(ants) if spec.get("detobj") else ants


def swap_antennas(spec, det, c):
    """identity replacement of antenna objects before add call number c (spec['swaps'] = {call: [indices]});
    the detector object handed to set_detector stays the same, its antennas are NEW objects"""
    for i in (spec.get("swaps") or {}).get(str(c), []):
        det[i] = make_antenna(spec, i)


def ray_tof(c, k, i):
    return 1.0 + 1000 * c + 10 * k + i


def ray_kind(c, k, i):
    return "c%dk%di%d" % (c, k, i)


def ant_trig(c, k, i):
    return (3 * c + 5 * k + 7 * i) % 3 != 1


def extra_flag(c):
    return c % 3 != 2


def perwave_flag(c, k):
    return (c + k) % 2 == 0


def wave_arrays(c, k, i):
    n = 2 + (c + k + i) % 3
    t = [float(c), float(k), float(i), 0.125][:n]
    v = [100.0 * c + 10 * k + i + 0.5, -1.0 * k, 0.25 * i, 8.0][:n]
    return t, v


def noise_arrays(c, i):
    n = 1 + (c + i) % 3
    return ([float(c) + 1, float(i) + 0.5, 7.0][:n], [0.5 * c, 0.25, 3.0 * i][:n], [0.125, 1.0 * i, 2.0 * c][:n])


def pol(c, k, i):
    return [(0.0, 0.6, 0.8), (1.0, 0.0, 0.0), (0.0, 0.0, 1.0)][(c + k + i) % 3]


_classes = {}


def event_classes():
    if not _classes:
        from pyrex.particle import Event

        class LenRaisesEvent(Event):
            def __len__(self):
                raise Injected("injected: len(event)")

        class BadMetaEvent(Event):
            @property
            def _metadata(self):
                m = [p._metadata for p in self]
                if m:
                    m[-1]["zz_bad"] = [[1.0]]
                return m
        _classes.update(Event=Event, LenRaisesEvent=LenRaisesEvent, BadMetaEvent=BadMetaEvent)
    return _classes


def make_particles(c, n, fid=0):
    from pyrex.particle import Particle
    ps = []
    for k in range(n):
        # falsy-but-valid values on purpose: weights exactly 0.0, vertex components 0.0 and -0.0
        p = Particle(PIDS[(c + 2 * k) % 6], vertex=(float(c), -0.0 if (k == 0 and c % 2) else float(k), -1000.5 - fid),
                     direction=DIRS[(c + k) % len(DIRS)], energy=1e8 + 1000 * c + k,
                     interaction_type=["cc", "nc"][(c + k) % 2])
        p.interaction.inelasticity = (1 + (c + 3 * k) % 7) / 8
        p.interaction.em_frac = ((c + k) % 5) / 4
        p.interaction.had_frac = ((2 * c + k) % 9) / 8
        p.survival_weight = 0.0 if (c + k) % 5 == 0 else (1 + c % 4) / 8 + k / 64
        p.interaction_weight = 0.0 if (c + 2 * k) % 7 == 3 else (1 + (c + k) % 16) / 16
        ps.append(p)
    return ps


def particle_rows(ps):
    rows = []
    for p in ps:
        m = p._metadata
        rows.append(tuple(float(m[k]) for k in PKEYS))
    return rows


def sx(x):
    """a float with its sign bit (so that -0.0 and 0.0 differ) """
    import math
    x = float(x)
    return (x, math.copysign(1.0, x))


def particle_sig(ev):
    """signature of the particles of a pyrex Event (as in probes/p12.py); exact, sign of zero included"""
    import numpy as np
    return [(int(p.id.value), tuple(sx(x) for x in p.vertex),
             tuple(float(x) for x in np.round(p.direction, 12)), sx(p.energy),
             int(p.interaction.kind.value), sx(p.interaction.inelasticity), sx(p.interaction.em_frac),
             sx(p.interaction.had_frac), sx(p.survival_weight), sx(p.interaction_weight)) for p in ev]


def sig_of_rows(rows):
    """the particle_sig a FileGenerator event must have when it was rebuilt from these particle rows"""
    import numpy as np
    out = []
    for r in rows:
        d = dict(zip(PKEYS, r))
        out.append((int(d["particle_id"]), (sx(d["vertex_x"]), sx(d["vertex_y"]), sx(d["vertex_z"])),
                    tuple(float(x) for x in np.round([d["direction_x"], d["direction_y"], d["direction_z"]], 12)),
                    sx(d["energy"]), int(d["interaction_kind"]), sx(d["interaction_inelasticity"]),
                    sx(d["interaction_em_frac"]), sx(d["interaction_had_frac"]), sx(d["survival_weight"]),
                    sx(d["interaction_weight"])))
    return out


def first_with(counts):
    m = max(counts)
    return counts.index(m), m


def build_call(spec, c, op, ants):
    """prepare the stub detector for add call number c; returns (event, kwargs of add, record)"""
    import numpy as np
    cls = event_classes()
    nant = spec["nant"]
    fault = op["fault"]
    trig = bool(op["trig"])
    waves, rays = op["waves"], op["rays"]
    nw, nr = max(waves), max(rays)
    wi, _ = first_with(waves)
    ri, _ = first_with(rays)
    # antennas
    for i, a in enumerate(ants):
        a = innermost(a)
        a._nm_raise = False
        a._trig_raise = False
        ws = []
        for k in range(waves[i]):
            t, v = wave_arrays(c, k, i)
            if fault == "waveRaises" and i == wi and k == waves[i] - 1:
                ws.append(BadWave(np.array(v), ant_trig(c, k, i)))
            else:
                ws.append(Wave(np.array(t), np.array(v), ant_trig(c, k, i)))
        a.all_waveforms = ws
        if spec["noisy"][i]:
            f, am, ph = noise_arrays(c, i)
            a._nm = NoiseMaster(np.array(f), np.array(am), np.array(ph))
        else:
            a._nm = None
    if fault == "antTrigRaises":
        innermost(ants[wi])._trig_raise = True
    if fault == "noiseRaises":
        innermost(ants[-1])._nm_raise = True
    # event
    ps = make_particles(c, op["np"], spec.get("fid", 0))
    if fault == "evLenRaises":
        event = cls["LenRaisesEvent"](ps)
    elif fault == "badPartMeta":
        event = cls["BadMetaEvent"](ps)
    else:
        event = cls["Event"](ps)
    # trigger object
    if fault == "noTrig":
        tr = None
    elif fault == "badTrigDict":
        tr = {"other": True}
    elif fault == "shortPerWave":
        tr = {"global": trig, "perwave": []}
    elif op["form"] == "bool":
        tr = trig
    elif op["form"] == "dict":
        tr = {"global": trig, "extra": extra_flag(c)}
    else:
        # the list may be longer than the number of waveforms: the writer only uses the first max_waves values
        tr = {"global": trig, "perwave": [perwave_flag(c, k) for k in range(nw + (c % 3 if nw else 0))]}
    # rays
    if fault == "noRays":
        paths = pols = None
    else:
        paths = [[Path(c, k, i, bad=(fault == "badRayMeta" and i == ri and k == rays[i] - 1))
                  for k in range(rays[i])] for i in range(nant)]
        pols = [[pol(c, k, i) for k in range(rays[i])] for i in range(nant)]
        if fault == "polMismatch":
            pols = [[]] * nant
    kwargs = dict(triggered=tr, ray_paths=paths, polarizations=pols, events_thrown=op["thrown"])
    # record (canonical content of the rows this call hands to the writer)
    rec = {"particles": particle_rows(ps), "triggers": [trig]}
    incl = gate(spec, "antenna_triggers", trig)
    mc = []
    for k in range(nw):
        on = []
        if incl:
            on += ["antenna_%d" % i for i in range(nant) if k < waves[i] and ant_trig(c, k, i)]
        if isinstance(tr, dict):
            if tr.get("extra"):
                on.append("extra")
            if "perwave" in tr and k < len(tr["perwave"]) and tr["perwave"][k]:
                on.append("perwave")
        mc.append(tuple(sorted(on)))
    rec["mc_triggers"] = mc
    # the named flag columns in the order `_write_trigger` builds them (model: lean/PyrexVerif/D/H5Mc.lean)
    cols = []
    if incl:
        cols += [("antenna_%d" % i, [bool(ant_trig(c, k, i)) for k in range(waves[i])]) for i in range(nant)]
    if isinstance(tr, dict):
        for key, val in tr.items():
            if key != "global":
                cols.append((key, [bool(val)] * nw if isinstance(val, bool) else [bool(v) for v in val][:nw]))
    rec["mc_cols"] = (nw, cols)
    rec["rays"] = [(tuple(ray_tof(c, k, i) if k < rays[i] else 0.0 for i in range(nant)),
                    tuple(ray_kind(c, k, i) if k < rays[i] else "" for i in range(nant)))
                   for k in range(nr)]
    rec["noise"] = [tuple(tuple(tuple(x) for x in noise_arrays(c, i)) if spec["noisy"][i] else ((), (), ())
                          for i in range(nant))]
    rec["waveforms"] = [tuple(tuple(tuple(x) for x in wave_arrays(c, k, i)) if k < waves[i] else ((), ())
                              for i in range(nant)) for k in range(nw)]
    return event, kwargs, rec


def fill_row(table, nant):
    """content of a row that only exists because the dataset was resized past it"""
    if table == "particles":
        return tuple(0.0 for _ in PKEYS)
    if table == "triggers":
        return False
    if table == "mc_triggers":
        return ()
    if table == "rays":
        return (tuple(0.0 for _ in range(nant)), tuple("" for _ in range(nant)))
    if table == "noise":
        return tuple(((), (), ()) for _ in range(nant))
    return tuple(((), ()) for _ in range(nant))


class Built:
    """result of writing one file"""

    def __init__(self, spec, fn):
        self.spec, self.fn = spec, fn
        self.acc = ""            # per op: 1 accepted, 0 raised, r reopen
        self.calls = []          # per add call: record
        self.call_ops = []       # per add call: the op
        self.excs = []           # per add call: None or exception class name
        self.counters = None     # writer._counters just before the final close
        self.ok_calls = []       # call numbers that did not raise
        self.mc_displaced = False   # see displaced()

    def row(self, table, tag):
        if tag == "g":
            return fill_row(table, self.spec["nant"])
        c, k = tag.split(".")
        c, k = int(c), int(k)
        try:
            return self.calls[c][table][k]
        except IndexError:
            return ("MISSING-ROW", table, tag)

    def event_of_tags(self, s):
        """model event `t0/t1/../t5` -> canonical content"""
        cells = s.split("/")
        if len(cells) != 6:
            raise ValueError("malformed model event %r" % s)
        return {t: [self.row(t, tag) for tag in cell.split(",") if tag != ""]
                for t, cell in zip(TABLES, cells)}

    def events_of_tags(self, s):
        return [self.event_of_tags(e) for e in split_events(s)]

    def expected_stream(self):
        """search oracle: what the file must read back as, from the harness's own bookkeeping"""
        out = []
        for c in self.ok_calls:
            op = self.call_ops[c]
            ev = {t: (list(self.calls[c][t]) if recorded(self.spec, op, t) else []) for t in TABLES}
            out.append(ev)
        return out


def write_file(spec, fn, on_reopen=None):
    """on_reopen(b): called while the file is closed between two writer sessions"""
    from pyrex.io import File
    if os.path.exists(fn):
        os.remove(fn)
    kw = writer_kwargs(spec)
    ants = make_detector(spec)
    b = Built(spec, fn)
    w = File(fn, "w", **kw)
    w.open()
    try:
        w.set_detector(ants)
        c = 0
        for op in spec["ops"]:
            if op["op"] == "R":
                w.close()
                if on_reopen is not None:
                    on_reopen(b)
                w = File(fn, op.get("mode", "a"), **kw)
                w.open()
                w.set_detector(ants)
                b.acc += "r"
                continue
            swap_antennas(spec, ants, c)
            event, kwargs, rec = build_call(spec, c, op, ants)
            try:
                w.add(event, **kwargs)
                b.acc += "1"
                b.excs.append(None)
                b.ok_calls.append(c)
            except Exception as e:      # noqa: BLE001 - every rejection is recorded and compared
                b.acc += "0"
                b.excs.append(type(e).__name__)
            b.calls.append(rec)
            b.call_ops.append(op)
            c += 1
        b.counters = dict(w._counters)
    finally:
        if w.is_open:
            w.close()
    import h5py
    with h5py.File(fn, "r") as f:
        if LOC["mc_triggers"] in f:
            b.mc_displaced = displaced([str(k) for k in f[LOC["mc_triggers"]].attrs["keys"]])
    return b


# ---------------------------------------------------------------------------------------------
# reading
def _tail(e):
    return "%s: %s @ %s" % (type(e).__name__, str(e)[:120],
                            " <- ".join("%s:%d" % (os.path.basename(f.filename), f.lineno)
                                        for f in traceback.extract_tb(e.__traceback__)[-3:]))


def _guard(fn, table):
    """accessor call; 'not saved in this file' / 'No event-specific data' = no rows"""
    try:
        return fn(), None
    except ValueError as e:
        msg = str(e)
        if "not saved in this file" in msg or "No event-specific data" in msg:
            return None, None
        return None, ("EXC", table, _tail(e))
    except Exception as e:      # noqa: BLE001
        return None, ("EXC", table, _tail(e))


FORMS = False      # set by props/C11.py: also exercise the argument forms of the accessors on every event


def _same(a, b):
    import numpy as np
    try:
        a, b = np.asarray(a), np.asarray(b)
        if a.shape != b.shape:
            return False
        if a.dtype == object or b.dtype == object:
            return all(_same(x, y) for x, y in zip(a.ravel().tolist(), b.ravel().tolist())) if a.ndim else bool(a == b)
        return bool(np.array_equal(a, b))
    except Exception:      # noqa: BLE001
        return False


def accessor_forms(ev, out, mckeys):
    """every argument form of the event accessors against the argument-free form -> problem or None"""
    import numpy as np

    def attempt(fn):
        try:
            return fn(), None
        except Exception as e:      # noqa: BLE001
            return None, _tail(e)
    # particles
    if out["particles"] and isinstance(out["particles"][0], tuple) and out["particles"][0][:1] != ("EXC",):
        info = ev.get_particle_info()
        for attr in PKEYS + ["particle_name"]:
            got, err = attempt(lambda: ev.get_particle_info(attr))
            if err or list(got) != [d[attr] for d in info]:
                return ("particles", "get_particle_info(%r) = %r differs from the dicts (%s)" % (attr, got, err))
        for name, cols in (("vertex", ["vertex_x", "vertex_y", "vertex_z"]), ("position", ["vertex_x", "vertex_y", "vertex_z"]),
                           ("direction", ["direction_x", "direction_y", "direction_z"])):
            got, err = attempt(lambda: ev.get_particle_info(name))
            want = [[d[c] for c in cols] for d in info]
            if err or not _same(got, want):
                return ("particles", "get_particle_info(%r) = %r, want %r (%s)" % (name, got, want, err))
        ii, err = attempt(lambda: ev.get_particle_info("interaction_info"))
        if err or any(list(v) != [d[k] for d in info] for k, v in ii.items()) or \
                sorted(ii) != sorted(k for k in info[0] if "interaction" in k):
            return ("particles", "interaction_info %r inconsistent with the dicts (%s)" % (ii, err))
        name, pid = info[0]["particle_name"], info[0]["particle_id"]
        isnu = "neutrino" in name
        want = (isnu, name.split("_")[0] if isnu else "", (pid < 0) if isnu else None)
        got, err = attempt(lambda: (bool(ev.is_neutrino), ev.flavor, None if ev.is_nubar is None else bool(ev.is_nubar)))
        if err or got != want:
            return ("particles", "(is_neutrino, flavor, is_nubar) = %r, first particle says %r (%s)" % (got, want, err))
    # rays
    if out["rays"] and len(out["rays"][0]) == 2:
        for name, pre in (("polarization", "polarization"), ("emitted_direction", "emitted"), ("received_direction", "received")):
            got, err = attempt(lambda: ev.get_rays_info(name))
            want, err2 = attempt(lambda: np.stack([ev.get_rays_info(pre + "_" + ax) for ax in "xyz"], axis=-1))
            if err or err2 or not _same(got, want):
                return ("rays", "get_rays_info(%r) differs from its three columns (%s %s)" % (name, err, err2))
        dicts, err = attempt(lambda: ev.get_rays_info())
        tof = ev.get_rays_info("tof")
        if err or not _same([[d.get("tof", 0.0) for d in row] for row in dicts], tof):
            return ("rays", "get_rays_info() dicts differ from get_rays_info('tof') (%s)" % err)
    # waveforms
    if out["waveforms"] and not (isinstance(out["waveforms"][0], tuple) and out["waveforms"][0][:1] == ("EXC",)):
        full = ev.get_waveforms()
        nrow, nant = full.shape[0], full.shape[1]
        for i in range(nant):
            got, err = attempt(lambda: ev.get_waveforms(antenna_id=i))
            if err or not _same(got, full[:, i]):
                return ("waveforms", "get_waveforms(antenna_id=%d) differs from column %d (%s)" % (i, i, err))
        for k, spelling in [(k, k) for k in range(nrow + 1)] + [(0, "direct"), (1, "reflected"), (0, "Direct")]:
            got, err = attempt(lambda: ev.get_waveforms(waveform_type=spelling))
            want = full[k] if k < nrow else np.array([])
            if err or not _same(got, want):
                return ("waveforms", "get_waveforms(waveform_type=%r) differs from row %d of %d (%s)" % (spelling, k, nrow, err))
            if k < nrow:
                got, err = attempt(lambda: ev.get_waveforms(antenna_id=nant - 1, waveform_type=spelling))
                if err or not _same(got, full[k, nant - 1]):
                    return ("waveforms", "get_waveforms(%d, %r) differs from the full array (%s)" % (nant - 1, spelling, err))
    # component triggers per ray
    if out["mc_triggers"] and all(isinstance(r, tuple) and r[:1] != ("EXC",) for r in out["mc_triggers"]):
        rows = out["mc_triggers"]
        for j, spelling in [(j, j) for j in range(len(rows) + 1)] + [(0, "direct"), (1, "reflected")]:
            got, err = attempt(lambda: ev.get_triggered_components(ray=spelling))
            want = sorted(rows[j]) if j < len(rows) else []
            if err or sorted(got) != want:
                return ("mc_triggers", "get_triggered_components(ray=%r) = %r, row %d holds %r (%s)" % (spelling, got, j, want, err))
    return None


def canon_event(ev, mckeys):
    """materialise the current event of an EventIterator into canonical per-table row lists"""
    out = _canon_event(ev, mckeys)
    if FORMS:
        bad = accessor_forms(ev, out, mckeys)
        if bad:
            out[bad[0]] = [("EXC", bad[0], bad[1])]
    return out


def _canon_event(ev, mckeys):
    out = {}
    # particles
    info, err = _guard(lambda: ev.get_particle_info(), "particles")
    if err:
        out["particles"] = [err]
    elif info is None or len(info) == 0:
        out["particles"] = []
    else:
        out["particles"] = [tuple(float(d[k]) for k in PKEYS) for d in info]
    # triggers
    t, err = _guard(lambda: ev.triggered, "triggers")
    out["triggers"] = [err] if err else ([] if t is None else [bool(t)])
    # mc_triggers
    d, err = _guard(lambda: ev.get_data("mc_triggers"), "mc_triggers")
    if err:
        out["mc_triggers"] = [err]
    elif d is None or len(d) == 0:
        out["mc_triggers"] = []
        comp, err = _guard(lambda: ev.get_triggered_components(), "mc_triggers")
        if err:
            out["mc_triggers"] = [err]
        elif comp:
            out["mc_triggers"] = [("EXC", "mc_triggers", "components %r for an event without rows" % (comp,))]
    else:
        if d.ndim != 2 or d.shape[1] != len(mckeys):
            out["mc_triggers"] = [("EXC", "mc_triggers", "shape %r vs keys %r" % (d.shape, mckeys))]
        else:
            rows = [tuple(sorted(mckeys[j] for j in range(len(mckeys)) if d[r, j])) for r in range(d.shape[0])]
            out["mc_triggers"] = rows
            if displaced(mckeys):
                quirk("mc_columns_with_named_key_before_antenna_columns")
            comp, err = _guard(lambda: ev.get_triggered_components(), "mc_triggers")
            want = sorted({n for r in rows for n in r})
            if err:
                out["mc_triggers"] = [err]
            elif sorted(comp or []) != want:
                out["mc_triggers"] = [("EXC", "mc_triggers", "components %r != any(rows) %r" % (comp, want))]
    # rays
    tof, err = _guard(lambda: ev.get_rays_info("tof"), "rays")
    if err:
        out["rays"] = [err]
    elif tof is None or len(tof) == 0:
        out["rays"] = []
    else:
        kind, err = _guard(lambda: ev.get_rays_info("kind"), "rays")
        if err or kind is None or len(kind) != len(tof):
            out["rays"] = [err or ("EXC", "rays", "str/float row mismatch")]
        else:
            out["rays"] = [(tuple(float(x) for x in tof[r]), tuple(str(x) for x in kind[r]))
                           for r in range(len(tof))]
    # noise
    nb, err = _guard(lambda: ev.noise_bases, "noise")
    if err:
        out["noise"] = [err]
    elif nb is None or len(nb) == 0:
        out["noise"] = []
    else:
        out["noise"] = [tuple(tuple(tuple(float(x) for x in a[j]) for j in range(3)) for a in nb)]
    # waveforms
    wf, err = _guard(lambda: ev.get_waveforms(), "waveforms")
    if err:
        out["waveforms"] = [err]
    elif wf is None or len(wf) == 0:
        out["waveforms"] = []
    else:
        out["waveforms"] = canon_waveform_rows(wf)
    return out


def canon_waveform_rows(wf):
    return [tuple(tuple(tuple(float(x) for x in a[j]) for j in range(2)) for a in row) for row in wf]


def errname(e):
    return ERRNAME.get(type(e).__name__, "other:" + _tail(e))


class Reader:
    """File(fn, 'r', slice_range=sr) kept open for several accesses"""

    def __init__(self, fn, sr=None):
        from pyrex.io import File
        self.f = File(fn, "r", slice_range=sr)
        self.f.open()
        loc = LOC["mc_triggers"]
        self.mckeys = [str(k) for k in self.f._file[loc].attrs["keys"]] if loc in self.f._file else []

    def close(self):
        self.f.close()

    def __enter__(self):
        return self

    def __exit__(self, *a):
        self.close()

    def _drain(self, make):
        evs = []
        try:
            it = make()
        except Exception as e:      # noqa: BLE001
            return errname(e), []
        try:
            for ev in it:
                evs.append(canon_event(ev, self.mckeys))
        except Exception as e:      # noqa: BLE001
            return errname(e), evs
        return "stop", evs

    def iterate(self):
        return self._drain(lambda: iter(self.f))

    def slice(self, a, b, c):
        return self._drain(lambda: self.f[a:b:c])

    def getint(self, key):
        try:
            ev = self.f[key]
        except Exception as e:      # noqa: BLE001
            return errname(e), None
        return "ok", canon_event(ev, self.mckeys)

    def __len__(self):
        return len(self.f)


def tok(x):
    return "N" if x is None else str(int(x))


# ---------------------------------------------------------------------------------------------
# raw comparison (h5py directly)
def raw_dump(b):
    """the head of the model's `dump` reply rebuilt from the real file with h5py alone:
    'acc=.. | n=.. len=.. thrown=.. | cols=.. | len:counter:exists x6 | index rows'; problems list"""
    import h5py
    problems = []
    with h5py.File(b.fn, "r") as f:
        ix = f["/event_indices"]
        keys = [str(k) for k in ix.attrs["keys"]]
        if ix.shape[1] != len(keys):
            problems.append("event_indices has %d columns for %d keys" % (ix.shape[1], len(keys)))
        if ix.ndim != 3 or ix.shape[2] != 2:
            problems.append("event_indices shape %r" % (ix.shape,))
        cols = []
        for k in keys:
            if k not in LOC_INV:
                problems.append("unknown index column %r" % k)
            cols.append(LOC_INV.get(k, k))
        if len(set(keys)) != len(keys):
            problems.append("duplicate index columns %r" % keys)
        thrown = "N"
        if LOC["particles"] in f and "total_thrown" in f[LOC["particles"]].attrs:
            thrown = str(int(f[LOC["particles"]].attrs["total_thrown"]))
        tb = []
        for t in TABLES:
            loc = LOC[t]
            ex = loc in f
            ln = 0
            if ex:
                if t in ("particles", "rays"):
                    lf, ls = f[loc]["float"].shape[0], f[loc]["str"].shape[0]
                    if lf != ls:
                        problems.append("%s float/str lengths %d/%d" % (t, lf, ls))
                    ln = max(lf, ls)
                else:
                    ln = f[loc].shape[0]
            cnt = b.counters[COUNTER[t]] if b.counters is not None else -1
            tb.append("%d:%d:%d" % (ln, cnt, ex))
        data = ix[...] if ix.shape[0] and ix.shape[1] else None
        rows = []
        for r in range(ix.shape[0]):
            cells = []
            for t in TABLES:
                if t in cols:
                    j = cols.index(t)
                    cells.append("%d,%d" % (int(data[r, j, 0]), int(data[r, j, 1])))
                else:
                    cells.append("0,0")
            rows.append(" ".join(cells))
        n = b.counters["indices"] if b.counters is not None else -1
        head = [p.strip() for p in ("acc=%s | n=%d len=%d thrown=%s | cols=%s | %s | %s"
                                    % (b.acc, n, ix.shape[0], thrown, ",".join(cols), " ".join(tb),
                                       ";".join(rows))).split("|")]
    return head, problems


def raw_invariants(fn):
    """C11 search oracle on the raw index table: every (start,len) addresses existing rows and the
    cells of a column are ordered (start_i+len_i <= start_j for i<j)"""
    import h5py
    bad = []
    with h5py.File(fn, "r") as f:
        ix = f["/event_indices"]
        keys = [str(k) for k in ix.attrs["keys"]]
        if ix.shape[0] == 0 or ix.shape[1] == 0:
            return bad
        data = ix[...]
        for j, k in enumerate(keys):
            if k not in f:
                bad.append("index column %s without dataset" % k)
                continue
            obj = f[k]
            ln = obj["float"].shape[0] if isinstance(obj, h5py.Group) else obj.shape[0]
            prev_end = 0
            for r in range(data.shape[0]):
                s, l = int(data[r, j, 0]), int(data[r, j, 1])
                if s < 0 or l < 0 or s + l > ln:
                    bad.append("row %d column %s: (%d,%d) exceeds dataset length %d" % (r, k, s, l, ln))
                if s < prev_end:
                    bad.append("row %d column %s: start %d before the end %d of an earlier event" % (r, k, s, prev_end))
                prev_end = max(prev_end, s + l)
    return bad


# ---------------------------------------------------------------------------------------------
# generators
RT_FIXED = ["T", "F", "L000000", "L000100", "L000011"]


def gen_rt(rng, always):
    r = rng.random()
    rt_str = False
    if r < 0.62:
        rt = rng.choice(RT_FIXED)
        if rt == "L000100" and rng.random() < 0.4:
            rt_str = True
    else:
        bits = [rng.random() < 0.4 for _ in range(6)]
        if always:
            bits[0] = False
        rt = "L" + "".join("1" if x else "0" for x in bits)
        rt_str = rng.random() < 0.3
    return rt, rt_str


def gen_wbits(rng, always):
    while True:
        w = "".join(rng.choice("01") for _ in range(6))
        if always:
            w = "1" + w[1:]
        if opts_valid(w):
            return w


def all_wbits():
    return [w for w in ("".join(str((m >> (5 - i)) & 1) for i in range(6)) for m in range(64)) if opts_valid(w)]


def gen_counts(rng, nant):
    r = rng.random()
    if r < 0.2:
        return [0] * nant
    if r < 0.3:
        return [rng.randint(0, 1) for _ in range(nant)]
    return [rng.randint(0, 3) for _ in range(nant)]


def gen_add(rng, nant, fault="none", zero_particles=0.0):
    return {"op": "A", "np": 0 if rng.random() < zero_particles else rng.randint(1, 4),
            "trig": int(rng.random() < 0.5), "form": rng.choice(["bool", "bool", "dict", "dictlist"]),
            "waves": gen_counts(rng, nant), "rays": gen_counts(rng, nant),
            "thrown": rng.choice([0, 1, 1, 2, 3, 5, 7]), "fault": fault}


def relevant_faults(spec):
    """faults that can reject an add under these options (others are still used, less often)"""
    out = ["noTrig", "badTrigDict"]
    if wbit(spec, "particles"):
        out += ["evLenRaises", "badPartMeta"]
    if wbit(spec, "triggers"):
        out += ["shortPerWave"]
    if wbit(spec, "antenna_triggers"):
        out += ["antTrigRaises"]
    if wbit(spec, "rays"):
        out += ["noRays", "polMismatch", "badRayMeta"]
    if wbit(spec, "noise"):
        out += ["noiseRaises"]
    if wbit(spec, "waveforms"):
        out += ["waveRaises"]
    return out


def gen_spec(rng, always=True, w=None, max_adds=10, nfaults=None, p_reopen=0.3, n_ok=None,
             zero_particles=0.0, faults=None):
    """random file spec; n_ok = number of fault-free adds (None: random)"""
    if w is None:
        w = gen_wbits(rng, always)
    rt, rt_str = gen_rt(rng, always)
    nant = rng.randint(1, 3)
    spec = {"w": w, "rt": rt, "rt_str": rt_str, "nant": nant,
            "noisy": [int(rng.random() < 0.6) for _ in range(nant)], "ops": []}
    # container form of require_trigger and antennas wrapped in 0-2 levels of antenna systems
    spec["rt_tuple"] = bool(rt.startswith("L") and not rt_str and rng.random() < 0.4)
    spec["nest"] = [rng.choice([0, 0, 0, 1, 2]) for _ in range(nant)]
    # the detector changed in place after set_detector: antenna objects replaced by new ones before some adds
    spec["detobj"] = rng.random() < 0.3
    spec["swaps"] = {}
    if rng.random() < 0.4:
        for c in range(1, max_adds + 4):
            if rng.random() < 0.35:
                spec["swaps"][str(c)] = sorted(rng.sample(range(nant), rng.randint(1, nant)))
    if nfaults is None:
        nfaults = rng.choice([0, 1, 1, 1, 2, 2, 3])
    if n_ok is None:
        n_ok = rng.randint(0, max_adds - nfaults)
    ops = [gen_add(rng, nant, zero_particles=zero_particles) for _ in range(n_ok)]
    rel = relevant_faults(spec)
    for _ in range(nfaults):
        pool = faults or (rel if rng.random() < 0.8 else FAULTS[1:])
        fo = gen_add(rng, nant, fault=rng.choice(pool))
        if fo["fault"] in ("antTrigRaises", "waveRaises", "shortPerWave") and rng.random() < 0.8 and max(fo["waves"]) == 0:
            fo["waves"][rng.randrange(nant)] = rng.randint(1, 3)
        if fo["fault"] in ("polMismatch", "badRayMeta") and rng.random() < 0.8 and max(fo["rays"]) == 0:
            fo["rays"][rng.randrange(nant)] = rng.randint(1, 3)
        r = rng.random()
        pos = len(ops) if r < 0.35 else (0 if r < 0.6 else rng.randint(0, len(ops)))
        ops.insert(pos, fo)
    if rng.random() < p_reopen:
        for _ in range(rng.randint(1, 2)):
            ops.insert(rng.randint(0, len(ops)), {"op": "R", "mode": rng.choice(["a", "a", "r+"])})
    spec["ops"] = ops
    return spec


def strip_reopens(spec):
    s = dict(spec)
    s["ops"] = [o for o in spec["ops"] if o["op"] != "R"]
    return s


def with_reopens(rng, spec, nsessions):
    """the same add history split into `nsessions` writer sessions"""
    s = strip_reopens(spec)
    ops = list(s["ops"])
    for _ in range(nsessions - 1):
        ops.insert(rng.randint(0, len(ops)), {"op": "R", "mode": rng.choice(["a", "r+"])})
    s["ops"] = ops
    return s


def describe(spec):
    return "%s %s nant=%d %s" % (spec["w"], spec["rt"] + ("s" if spec.get("rt_str") else ""), spec["nant"],
                                 " ".join(op_tokens(o) + ("[%s|%s|%s]" % (o["form"], "".join(map(str, o["waves"])),
                                                                        "".join(map(str, o["rays"])))
                                                          if o["op"] == "A" else "") for o in spec["ops"]))


def diff_events(exp, got):
    """first difference between two canonical event lists (None when equal)"""
    if len(exp) != len(got):
        return "event count %d (expected) vs %d (read)" % (len(exp), len(got))
    for i, (e, g) in enumerate(zip(exp, got)):
        for t in TABLES:
            if e[t] != g[t]:
                return "event %d table %s: expected %r read %r" % (i, t, _short(e[t]), _short(g[t]))
    return None


def _short(x):
    s = repr(x)
    return s if len(s) < 400 else s[:400] + "..."


@contextlib.contextmanager
def tempdir():
    import shutil
    import tempfile
    d = tempfile.mkdtemp(prefix="h5verif_")
    try:
        yield d
    finally:
        shutil.rmtree(d, ignore_errors=True)


# ---------------------------------------------------------------------------------------------
# batched comparison with the Lean model
class Batch:
    """collects request lines with the implementation's answers; one driver call compares them all"""

    def __init__(self, pid, run):
        self.pid, self.run = pid, run
        self.items = []

    def add(self, kind, line, built, real, nontrivial=True):
        self.items.append((kind, line, built, real, nontrivial))

    def __len__(self):
        return len(self.items)

    # ---- convenience: the standard requests of one file
    def add_dump(self, b, int_events=None, nontrivial=True):
        head, problems = raw_dump(b)
        self.add("dump", "dump " + file_line(b.spec), b, (head, problems, int_events), nontrivial)

    def flush(self, max_report=6):
        """-> number of disagreements (each reported through run.note_broken)"""
        run = self.run
        replies = fw.run_driver(self.pid, [it[1] for it in self.items])
        bad = 0
        for (kind, line, b, real, nontrivial), rep in zip(self.items, replies):
            run.case((kind, line), nontrivial=nontrivial,
                     sample={"request": line[:300], "model": rep[:200]})
            why = None
            try:
                if rep.strip() == "bad-op":
                    why = "model answered bad-op"
                else:
                    why = getattr(self, "_cmp_" + kind)(b, real, parts(rep))
            except Exception as e:      # noqa: BLE001
                why = "harness could not interpret the reply: " + _tail(e)
            if why is None:
                run.traces += 1
            else:
                bad += 1
                if bad <= max_report:
                    run.note_broken("correspondence: request `%s` model `%s` implementation `%s`"
                                    % (line[:700], rep[:500], why[:900]))
        self.items = []
        return bad

    @staticmethod
    def _cmp_dump(b, real, rp):
        head, problems, int_events = real
        if problems:
            return "raw file inconsistent: " + "; ".join(problems[:3])
        names = ["acc", "counts", "cols", "tables len:counter:exists", "index"]
        for nm, m, r in zip(names, rp[:5], head):
            if m != r:
                return "%s: %s" % (nm, r)
        if int_events is not None:
            why = diff_events(b.events_of_tags(rp[5]), int_events)
            if why:
                return "events through the index (f[i]): " + why
        return None

    @staticmethod
    def _cmp_iter(b, real, rp):
        err, evs = real
        if rp[0] != err:
            return "err=%s (%d events read)" % (err, len(evs))
        why = diff_events(b.events_of_tags(rp[1]), evs)
        return None if why is None else "err=%s; %s" % (err, why)

    _cmp_slice = _cmp_iter

    @staticmethod
    def _cmp_int(b, real, rp):
        err, ev = real
        if rp[0] != err:
            return "err=%s" % err
        if err != "ok":
            return None
        why = diff_events([b.event_of_tags(rp[1])], [ev])
        return None if why is None else "ok; " + why

    @staticmethod
    def _cmp_fg(builts, real, rp):
        err, evs = real
        if rp[0] != err:
            return "err=%s after %d events" % (err, len(evs))
        model = split_events(rp[1])
        if len(model) != len(evs):
            return "err=%s; %d events (model %d)" % (err, len(evs), len(model))
        # which file an event comes from is not in the reply: resolve tags against each file in turn
        fi = 0
        for j, (m, (sig, count)) in enumerate(zip(model, evs)):
            tags, _, cnt = m.rpartition(":")
            if int(cnt) != count:
                return "event %d: count %d (model %s)" % (j, count, cnt)
            ok = False
            for cand in range(fi, len(builts)):
                rows = [builts[cand].row("particles", t) for t in tags.split(",") if t]
                if all(not (isinstance(r, tuple) and r and r[0] == "MISSING-ROW") for r in rows) \
                        and sig_of_rows(rows) == sig:
                    ok, fi = True, cand
                    break
            if not ok:
                return "event %d: particles %r do not match rows %s of any remaining file" % (j, sig[:2], tags)
        return None


def real_fg(files, sr):
    """FileGenerator(files, slice_range=sr): create_event until it raises -> (err, [(sig, count)])"""
    from pyrex.generation import FileGenerator
    try:
        g = FileGenerator(list(files), slice_range=sr)
    except StopIteration:
        return "init-stop", []
    except Exception as e:      # noqa: BLE001
        return "init-" + errname(e), []
    out = []
    try:
        try:
            for _ in range(100000):
                ev = g.create_event()
                out.append((particle_sig(ev), int(g.count)))
            return "other:endless", out
        except StopIteration:
            return "stop", out
        except Exception as e:      # noqa: BLE001
            return errname(e), out
    finally:
        try:
            g._file.close()
        except Exception:      # noqa: BLE001
            pass


# ---------------------------------------------------------------------------------------------
# jobs: the implementation side is slow (an EventIterator costs ~10 ms to construct), so the files of
# a run are distributed over worker processes.  The job list is generated in the parent from run.rng
# and the results are merged in job order, so a run is a deterministic function of VERIF_SEED whatever
# the number of workers.
class Collector:
    """stand-in for framework.Run inside a worker"""

    def __init__(self):
        self.cases, self.dist, self.broken, self.fails, self.extra = [], {}, [], [], {}
        self.traces = 0
        self.quirks = {}

    def case(self, desc, nontrivial=True, sample=None):
        self.cases.append((desc, nontrivial, sample if len(self.cases) < 2 else None))

    def count(self, key, n=1):
        self.dist[key] = self.dist.get(key, 0) + n

    def note_broken(self, what):
        if what not in self.broken:
            self.broken.append(what)

    def fail_input(self, kind, data, observed=None, expected=None, finding_key=None, what=None):
        self.fails.append((kind, data, observed, expected, finding_key, what))

    def merge_into(self, run):
        for desc, nt, sample in self.cases:
            run.case(desc, nontrivial=nt, sample=sample)
        for k, v in self.dist.items():
            run.count(k, v)
        for k, v in self.quirks.items():
            run.count("quirk_" + k, v)
        for b in self.broken:
            run.note_broken(b)
        for kind, data, obs, exp, fk, what in self.fails:
            run.fail_input(kind, data, observed=obs, expected=exp, finding_key=fk, what=what)
        run.traces += self.traces
        for k, v in self.extra.items():
            run.extra[k] = run.extra.get(k, 0) + v


def workers():
    try:
        return max(1, int(os.environ.get("VERIF_WORKERS", "") or min(8, os.cpu_count() or 1)))
    except ValueError:
        return 1


def _do_job(arg):
    fn, job = arg
    col = Collector()
    QUIRKS.clear()
    import time as _t
    _t0 = _t.time()
    try:
        with tempdir() as d:
            fn(job, col, d)
        if os.environ.get("VERIF_JOBTIMES") and _t.time() - _t0 > 5:
            import sys as _s
            _s.stderr.write("JOBTIME %.1fs %s\n" % (_t.time() - _t0, str({k: (v if not isinstance(v, (dict, list)) else "...") for k, v in job.items()} if isinstance(job, dict) else "chunk")[:200]))
    except Exception:      # noqa: BLE001
        col.note_broken("job crashed: %s: %s" % (str(job)[:300], traceback.format_exc()[-900:]))
    col.quirks = dict(QUIRKS)
    return col


def run_jobs(run, fn, jobs):
    """fn(job, collector, tmpdir) for every job (fn: module-level function), merged into `run` in order"""
    n = min(workers(), len(jobs))
    args = [(fn, j) for j in jobs]
    results = None
    if n > 1:
        try:
            import multiprocessing as mp
            with mp.get_context("fork").Pool(n) as pool:
                results = pool.map(_do_job, args, chunksize=1)
        except Exception:      # noqa: BLE001 - no usable pool: run serially
            run.notes.append("worker pool unavailable, ran serially: " + traceback.format_exc()[-200:])
            results = None
    if results is None:
        results = [_do_job(a) for a in args]
    for col in results:
        col.merge_into(run)
    run.extra["workers"] = n


def chunks(xs, size):
    return [xs[i:i + size] for i in range(0, len(xs), size)]


# ---------------------------------------------------------------------------------------------
# component-trigger table: column bookkeeping (model H5Mc)
def mc_request(b):
    """`mc` request for a fault-free file: one write per accepted add that records mc_triggers"""
    ws = []
    for c in b.ok_calls:
        op = b.call_ops[c]
        if recorded(b.spec, op, "mc_triggers"):
            ws.append(b.calls[c]["mc_cols"])
    toks = ["mc", str(len(ws))]
    for n, cols in ws:
        toks += [str(n), str(len(cols))]
        for name, vals in cols:
            toks += [name, str(len(vals))] + [str(int(v)) for v in vals]
    return " ".join(toks)


def mc_raw(fn):
    """keys and rows of /monte_carlo_data/triggers in the reply format of the `mc` request"""
    import h5py
    with h5py.File(fn, "r") as f:
        if LOC["mc_triggers"] not in f:
            return "keys= | "
        d = f[LOC["mc_triggers"]]
        keys = [k.decode() if isinstance(k, bytes) else str(k) for k in d.attrs["keys"]]
        data = d[...]
        rows = ["".join("1" if data[r, k] else "0" for k in range(len(keys))) for r in range(data.shape[0])]
        if data.ndim != 2 or data.shape[1] != len(keys):
            return "shape %r keys %r" % (data.shape, keys)
        return "keys=%s | %s" % (",".join(keys), ",".join(rows))


# ---------------------------------------------------------------------------------------------
# several event handles / iterators of open readers alive at the same time
def gen_script(rng, n, nreaders, length):
    """random session on `nreaders` open readers of one file with n >= 1 events.
    Actions: ("int", rid, key) / ("slice", rid, a, b, c) / ("iter", rid) create handle number = count of
    creations so far; ("next", hid); ("exam", hid); ("reopen", rid) = close() + open() of the reader.
    Handles are examined in a different order than created, interleaved with further accesses."""
    script, handles = [], []      # handles: dict(kind, rid, k = successful nexts, left = events still to come, stale)
    def create():
        rid = rng.randrange(nreaders)
        r = rng.random()
        if r < 0.45:
            key = rng.randrange(-n, n)
            script.append(("int", rid, key))
            handles.append({"kind": "int", "rid": rid, "k": 1, "left": 0, "stale": False})
        elif r < 0.8:
            a = rng.randrange(0, n)
            b = rng.randrange(a + 1, n + 1)
            c = rng.choice([None, 1, 1, 2, 3])
            count = len(range(a, b, c or 1))
            sa = rng.choice([a, a - n] + ([None] if a == 0 else []))
            sb = rng.choice([b] + ([b - n] if b < n else [None]))
            script.append(("slice", rid, sa, sb, c))
            handles.append({"kind": "it", "rid": rid, "k": 0, "left": count, "stale": False})
        else:
            script.append(("iter", rid))
            handles.append({"kind": "it", "rid": rid, "k": 0, "left": n, "stale": False})
    for _ in range(rng.randint(2, 3)):
        create()
    while len(script) < length:
        r = rng.random()
        live = [i for i, h in enumerate(handles) if h["k"] >= 1 and h["left"] >= 0]
        adv = [i for i, h in enumerate(handles) if h["kind"] == "it" and not h["stale"] and h["left"] >= 0]
        if r < 0.3 or not handles:
            create()
        elif r < 0.6 and adv:
            i = rng.choice(adv)
            script.append(("next", i))
            h = handles[i]
            if h["left"] > 0:
                h["k"] += 1
                h["left"] -= 1
            else:
                h["left"] = -1          # StopIteration: exhausted, not examined any more
        elif r < 0.95 and live:
            script.append(("exam", rng.choice(live)))
        elif r >= 0.95:
            rid = rng.randrange(nreaders)
            script.append(("reopen", rid))
            for h in handles:
                if h["rid"] == rid:
                    h["stale"] = True
    # finally every handle that shows an event is examined, oldest first and then newest first
    live = [i for i, h in enumerate(handles) if h["k"] >= 1 and h["left"] >= 0]
    script += [("exam", i) for i in live] + [("exam", i) for i in reversed(live)]
    return script


def run_session(fn, srs, script):
    """execute a script on real readers (one per entry of srs, all open at once).
    -> (observations: one per action, alias problems found between live handles)"""
    readers = [Reader(fn, sr) for sr in srs]
    handles, obs, alias = [], [], []
    try:
        for act in script:
            kind = act[0]
            try:
                if kind == "int":
                    handles.append(readers[act[1]].f[act[2]])
                    obs.append("ok")
                elif kind == "slice":
                    handles.append(readers[act[1]].f[act[2]:act[3]:act[4]])
                    obs.append("ok")
                elif kind == "iter":
                    handles.append(iter(readers[act[1]].f))
                    obs.append("ok")
                elif kind == "next":
                    try:
                        next(handles[act[1]])
                        obs.append("ok")
                    except StopIteration:
                        obs.append("stop")
                elif kind == "exam":
                    obs.append(canon_event(handles[act[1]], readers[0].mckeys))
                elif kind == "reopen":
                    readers[act[1]].f.close()
                    readers[act[1]].f.open()
                    obs.append("ok")
            except Exception as e:      # noqa: BLE001
                obs.append(("EXC", kind, _tail(e)))
                if kind in ("int", "slice", "iter"):
                    handles.append(None)
            # object-identity probe: distinct iterators must not share their loaded-chunk storage
            if kind in ("int", "slice", "iter", "next") and not alias:
                its = [h for h in handles if h is not None]
                for i in range(len(its)):
                    for j in range(i + 1, len(its)):
                        x, y = its[i], its[j]
                        if x is y:
                            continue
                        dx, dy = getattr(x, "_data", None), getattr(y, "_data", None)
                        if dx is not None and dx is dy:
                            alias.append("handles %d and %d share one _data dict" % (i, j))
                        elif isinstance(dx, dict) and isinstance(dy, dict):
                            for key in dx:
                                if key in dy and dx[key] is dy[key] and len(dx[key]) > 0:
                                    alias.append("handles %d and %d share the list _data[%r]" % (i, j, key))
                                    break
    finally:
        for r in readers:
            try:
                r.close()
            except Exception:      # noqa: BLE001
                pass
    return obs, alias


def script_paths(script):
    """per handle: ('int', rid, key) | ('slice', rid, a, b, c) | ('iter', rid), and per exam action the number
    of successful... (computed by the caller from the expected event lists)"""
    return [a for a in script if a[0] in ("int", "slice", "iter")]


def session_expected(script, lists):
    """expected observation per action given, per handle, the list of events its iterator yields
    (`lists[h]`; for an int handle a one-element list, or an error name)"""
    pos, out = {}, []
    h = 0
    for act in script:
        kind = act[0]
        if kind in ("int", "slice", "iter"):
            pos[h] = 1 if kind == "int" else 0
            out.append("ok" if not isinstance(lists[h], str) else ("ERR", lists[h]))
            h += 1
        elif kind == "next":
            i = act[1]
            if pos[i] < len(lists[i]):
                pos[i] += 1
                out.append("ok")
            else:
                out.append("stop")
        elif kind == "exam":
            i = act[1]
            out.append(lists[i][pos[i] - 1])
        else:
            out.append("ok")
    return out


def diff_session(script, exp, obs):
    for step, (act, e, o) in enumerate(zip(script, exp, obs)):
        if act[0] == "exam":
            why = diff_events([e], [o]) if isinstance(o, dict) else "examining raised %r" % (o,)
            if why:
                return "step %d %r: handle %d does not show its own event: %s" % (step, act, act[1], why)
        elif e != o:
            return "step %d %r: expected %r, got %r" % (step, act, e, o)
    return None


# ---------------------------------------------------------------------------------------------
# analysis look-up tables indexed out of event order (add_analysis_indices)
def gen_cells(rng, n, nrows):
    """index cells of n events into a table of nrows rows: shared rows, cells pointing back to earlier
    rows, overlapping ranges, an early event reaching further than every later one, zero-length cells"""
    kind = rng.choice(["random", "random", "backward", "shared", "long_first", "long_middle", "nested"])
    cells = []
    for g in range(n):
        if kind == "backward":
            s = max(0, nrows - 1 - g % nrows)
            ln = rng.randint(0, nrows - s)
        elif kind == "shared":
            s = rng.choice([0, nrows // 2])
            ln = rng.randint(1, nrows - s)
        elif kind == "long_first":
            s, ln = (0, nrows) if g == 0 else (rng.randint(0, nrows - 1), 1)
        elif kind == "long_middle":
            s, ln = (0, nrows) if g == n // 2 else (rng.randint(0, nrows - 1), rng.randint(0, 1))
        elif kind == "nested":
            s = min(g, nrows - 1)
            ln = max(0, nrows - 2 * s)
        else:
            s = rng.randint(0, nrows - 1)
            ln = rng.randint(0, nrows - s)
        cells.append((s, ln))
    return kind, cells


def add_lookup(fn, spec, cells, nrows):
    """append the look-up dataset `lookup` (row r holds the value 10*r) and its index cells to a written file"""
    import numpy as np
    from pyrex.io import File
    w = File(fn, "a", **writer_kwargs(spec))
    w.open()
    try:
        ds = w.create_analysis_dataset("lookup", data=np.arange(float(nrows)).reshape(nrows, 1) * 10)
        ds.attrs["keys"] = ["val"]
        for g, (s, ln) in enumerate(cells):
            w.add_analysis_indices("lookup", g, s, ln)
    finally:
        w.close()


def lookup_rows(ev):
    d = ev.get_data("lookup")
    return tuple(int(round(float(x) / 10)) for x in (d.ravel() if len(d) else []))


def lookup_drain(make):
    """-> (err, [rows of each event])"""
    out = []
    try:
        for ev in make():
            out.append(lookup_rows(ev))
    except Exception as e:      # noqa: BLE001
        return errname(e) + ":" + _tail(e)[:120], out
    return "stop", out


def lookup_reply(err, evs):
    return "%s | %s" % (err, ";".join(",".join(str(r) for r in ev) for ev in evs))


# ---------------------------------------------------------------------------------------------
# the iteration protocol of ONE open reader: nested / interleaved passes, partially consumed iterators
def oracle_passes(fn, exp, sr):
    """every iter(f) / f[a:b:c] is an independent pass over the same stream and `iter(it) is it` continues:
    -> None or (what, observed, expected).  `exp` = canonical events of the file (sequential pass)."""
    import itertools
    n = len(exp)
    if n == 0:
        return None
    cap = n + 3

    def same(got, want, what):
        why = diff_events(want, got)
        return None if not why else (what + " (slice_range=%s)" % (sr,), why, "%d events of the sequential pass" % len(want))
    with Reader(fn, sr) as r:
        f, mck = r.f, r.mckeys
        # (1) nested loops: n*n pairs; the outer handle is examined AFTER the inner loop ran
        outer, pairs = [], 0
        for i, a in enumerate(f):
            if i >= cap:
                return ("outer loop of a nested iteration does not terminate", i, n)
            inner = []
            for j, b in enumerate(f):
                if j >= cap:
                    return ("inner loop of a nested iteration does not terminate", j, n)
                inner.append(canon_event(b, mck))
                pairs += 1
            bad = same(inner, exp, "inner pass %d of a nested iteration differs from the sequential pass" % i)
            if bad:
                return bad
            outer.append(canon_event(a, mck))
        bad = same(outer, exp, "outer loop of `for a in f: for b in f:` does not see every event once")
        if bad:
            return bad
        if pairs != n * n:
            return ("nested iteration visits the wrong number of pairs (slice_range=%s)" % (sr,), pairs, n * n)
        # (2) next(iter(f)) inside a running loop must neither rewind nor end the outer loop
        seen = []
        for i, a in enumerate(f):
            if i >= cap:
                return ("loop with next(iter(f)) inside does not terminate", i, n)
            first = canon_event(next(iter(f)), mck)
            bad = same([first], exp[:1], "next(iter(f)) inside a running loop is not the first event")
            if bad:
                return bad
            seen.append(canon_event(a, mck))
        bad = same(seen, exp, "a loop with next(iter(f)) inside does not see every event once")
        if bad:
            return bad
        # (3) two iterators of the same reader advanced alternately, interleaved with f[i] and a slice
        it1, it2 = iter(f), iter(f)
        got1, got2 = [], []
        for k in range(n):
            e1 = next(it1)
            _ = canon_event(f[(k * 2) % n], mck)
            e2 = next(it2)
            got2.append(canon_event(e2, mck))
            if n > 1:
                _ = [canon_event(ev, mck) for ev in f[0:n:2]]
            got1.append(canon_event(e1, mck))      # examined after the other accesses
        bad = same(got1, exp, "first of two alternately advanced iterators") or \
            same(got2, exp, "second of two alternately advanced iterators")
        if bad:
            return bad
        for it in (it1, it2):
            try:
                next(it)
                return ("an exhausted iterator yields another event (slice_range=%s)" % (sr,), "event", "StopIteration")
            except StopIteration:
                pass
        # (4) a partially consumed iterator handed to something that calls iter() on it again
        for k in sorted({1, n // 2, n}):
            for label, make in (("iter(f)", lambda: iter(f)), ("f[0:n]", lambda: f[0:n]), ("f[::2]", lambda: f[::2])):
                want = exp if label != "f[::2]" else exp[::2]
                it = make()
                head = [canon_event(ev, mck) for ev in itertools.islice(it, k)]
                tail = [canon_event(ev, mck) for ev in itertools.islice(iter(it), cap)]
                bad = same(head + tail, want, "islice(%s, %d) followed by list(it): events duplicated or lost" % (label, k))
                if bad:
                    return bad
                it = make()
                head = [canon_event(next(it), mck)]
                tail = []
                for j, ev in enumerate(it):
                    if j >= cap:
                        return ("`next(it)` then `for ev in it` does not terminate (%s)" % label, j, len(want))
                    tail.append(canon_event(ev, mck))
                bad = same(head + tail, want, "next(%s) followed by `for ev in it`: events duplicated or lost" % label)
                if bad:
                    return bad
    return None
