"""Shared by C02 and C18: the ONE classifier for exceptions raised while a ray tracer is constructed, solved or one of
its paths is read.

Finding K17: where `sin(max_angle)*n0/n(z1)` rounds above 1, or the index is saturated (`max_angle = pi/2`), the
gradient-index tracers (BasicRayTracer, SpecializedRayTracer, and LayeredRayTracer through them) raise
`ValueError: The function value at x=... is NaN; solver cannot continue` (scipy >= 1.15 brentq) or
`OverflowError: cannot convert float infinity to integer`.  Exactly these are the known class; every other exception
is a violation with the input that produced it."""

K17_MARKS = ("is NaN; solver cannot continue", "cannot convert float infinity to integer")


def error_text(e):
    return e if isinstance(e, str) else "%s: %s" % (type(e).__name__, str(e)[:200])


def is_k17(err):
    text = error_text(err) if err else ""
    return text.startswith(("ValueError", "OverflowError")) and any(m in text for m in K17_MARKS)


def tracer_exception(run, err, kind, data, where, report=None):
    """True: the exception is the K17 class (KNOWN-FINDING printed, counted).  False: anything else - reported as a
    violation (through `report(kind, data, observed=, what=)` when given, else `run.fail_input`)."""
    text = error_text(err)
    if is_k17(text) and run.finding_for("K17"):
        run.known_finding("K17")
        run.count("K17_tracer_exception")
        return True
    what = "%s: the tracer raises %s" % (where, text)
    if report is not None:
        report(kind, data, observed=text, what=what)
    else:
        run.fail_input(kind, data, observed=text, what=what)
    return False
