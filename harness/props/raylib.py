"""Shared by C02 and C18: the ONE classifier for exceptions raised while a ray tracer is constructed, solved or one of
its paths is read.

Finding K17: where `sin(max_angle)*n0/n(z1)` rounds above 1, or the index is saturated (`max_angle = pi/2`), the
gradient-index tracers (BasicRayTracer, SpecializedRayTracer, and LayeredRayTracer through them) raise
`ValueError: The function value at x=... is NaN; solver cannot continue` (scipy >= 1.15 brentq) or
`OverflowError: cannot convert float infinity to integer`.  Exactly these are the known class; every other exception
is a violation with the input that produced it."""

K17_MARKS = ("is NaN; solver cannot continue", "cannot convert float infinity to integer")


def error_text(e):
    return e if isinstance(e, str) else "%s: %s" % (type(e).__name__, str(e)[:200])


def is_k17(err):
    text = error_text(err) if err else ""
    return text.startswith(("ValueError", "OverflowError")) and any(m in text for m in K17_MARKS)


def tracer_exception(run, err, kind, data, where, report=None):
    """True: the exception is the K17 class (KNOWN-FINDING printed, counted).  False: anything else - reported as a
    violation (through `report(kind, data, observed=, what=)` when given, else `run.fail_input`)."""
    text = error_text(err)
    if is_k17(text) and run.finding_for("K17"):
        run.known_finding("K17")
        run.count("K17_tracer_exception")
        return True
    what = "%s: the tracer raises %s" % (where, text)
    if report is not None:
        report(kind, data, observed=text, what=what)
    else:
        run.fail_input(kind, data, observed=text, what=what)
    return False


# --------------------------------------------------------------------------------------------
# arrays handed out by a path belong to the caller
HANDED_OUT = ("coordinates", "emitted_direction", "received_direction")
READ_AFTER = ("path_length", "tof", "emitted_direction", "received_direction", "fresnel", "coordinates", "_points")


def _flat(v):
    import numpy as np
    if isinstance(v, tuple):
        return np.concatenate([np.ravel(np.asarray(x, dtype=complex)) for x in v])
    return np.ravel(np.asarray(v, dtype=complex))


def path_values(p, skip, freqs):
    import numpy as np
    out = {}
    with np.errstate(all="ignore"):
        for k in READ_AFTER:
            if k == skip or not hasattr(type(p), k):
                continue
            try:
                out[k] = _flat(getattr(p, k))
            except Exception as e:
                out[k] = "raises " + type(e).__name__
        try:
            out["attenuation"] = _flat(p.attenuation(freqs))
        except Exception as e:
            out["attenuation"] = "raises " + type(e).__name__
    return out


def scribble(x):
    """what plotting code does with returned arrays: flip the depth axis, shift to the first point, blank a column"""
    import numpy as np
    parts = list(x) if isinstance(x, tuple) else [x]
    for j, a in enumerate(parts):
        if isinstance(a, np.ndarray):
            if j % 3 == 0:
                a -= a.flat[0] + 1.0
            elif j % 3 == 1:
                a[...] = 0
            else:
                a *= -1
        elif isinstance(a, list):
            a[:] = [-(v) - 7.0 for v in a]


def returned_arrays_oracle(run, make_tracer, data, freqs, which=None):
    """`coordinates`, `emitted_direction`, `received_direction` handed out by a path are the caller's: after modifying
    them in place, every quantity of the path that had not been read before equals that of an untouched twin path
    (1e-12).  (`from_point` / `to_point` are shared with the tracer - finding K19 of C06 - and `solutions` is the tracer's
    own cached list on the unchanged tree: neither is claimed.)"""
    import numpy as np
    try:
        with np.errstate(all="ignore"):
            n = len(make_tracer().solutions)
    except Exception as e:
        return tracer_exception(run, e, "crash", data, "returned-arrays oracle")
    idx = range(n) if which is None else [i for i in which if i < n]
    for i in idx:
        for name in HANDED_OUT:
            try:
                with np.errstate(all="ignore"):
                    p, q = make_tracer().solutions[i], make_tracer().solutions[i]
                    scribble(getattr(p, name))
            except Exception as e:
                return tracer_exception(run, e, "crash", data, "returned-arrays oracle")
            a, b = path_values(p, name, freqs), path_values(q, name, freqs)
            for k in a:
                same = (a[k] == b[k]) if isinstance(a[k], str) or isinstance(b[k], str) else (
                    a[k].shape == b[k].shape and np.allclose(a[k], b[k], rtol=1e-12, atol=0, equal_nan=True))
                if not same:
                    run.fail_input("returned-arrays", dict(data, solution=i, modified=name, affected=k),
                                   observed=str(a[k])[:300], expected=str(b[k])[:300],
                                   what="modifying the array(s) returned by path.%s in place changes path.%s (solution %d)"
                                        % (name, k, i))
                    return False
    return True
