#!/venv/bin/python
"""Run the registered checks against the seeded changes kept under /verif/seeded/<id>/.

seeded.py add <src dir> <property> <name>   copy patch.diff/demo.py/notes.txt into seeded/<name>/ and write meta.json
seeded.py run [name ...] [--tier quick]     for each: apply to /repo, run demo (must fail), run the property's check
                                            (must print VIOLATION), undo; writes seeded/RESULTS.json
Nothing is ever committed to /repo; the patch is always undone (git checkout -- .)."""
import json
import os
import shutil
import subprocess
import sys

VERIF = os.path.dirname(os.path.dirname(os.path.abspath(__file__)))
SEEDED = os.path.join(VERIF, "seeded")
REPO = os.environ.get("PYREX_REPO", "/repo")


def sh(cmd, cwd=None, env=None, timeout=3600):
    e = dict(os.environ)
    if env:
        e.update(env)
    p = subprocess.run(cmd, cwd=cwd, shell=isinstance(cmd, str), capture_output=True, text=True, env=e, timeout=timeout)
    return p.returncode, p.stdout + p.stderr


def clean():
    rc, out = sh("git status --porcelain", cwd=REPO)
    return out.strip() == ""


def add(src, prop, name):
    d = os.path.join(SEEDED, name)
    os.makedirs(d, exist_ok=True)
    for f in ("patch.diff", "demo.py", "notes.txt"):
        if os.path.exists(os.path.join(src, f)):
            shutil.copy(os.path.join(src, f), os.path.join(d, f))
    meta = {"property": prop, "name": name, "needs": "", "confirmed": {}}
    json.dump(meta, open(os.path.join(d, "meta.json"), "w"), indent=1)
    print("added", d)


def run_one(name, tier):
    d = os.path.join(SEEDED, name)
    meta = json.load(open(os.path.join(d, "meta.json")))
    prop = meta["property"]
    res = {"name": name, "property": prop}
    if not clean():
        raise SystemExit("/repo has uncommitted changes; refusing to apply a seeded patch")
    rc, out = sh("/venv/bin/python -W ignore %s" % os.path.join(d, "demo.py"), cwd=REPO, env={"PYTHONPATH": REPO})
    res["demo_on_clean_tree_rc"] = rc
    rc, out = sh(["git", "apply", os.path.join(d, "patch.diff")], cwd=REPO)
    if rc != 0:
        # /repo has moved on since the change was written (later fix: commits): merge it onto the current HEAD
        rc, out2 = sh(["git", "apply", "-3", os.path.join(d, "patch.diff")], cwd=REPO)
        if rc != 0 or "U " in sh("git status --porcelain", cwd=REPO)[1]:
            sh("git reset -q --hard", cwd=REPO)
            res["error"] = "patch does not apply: " + (out + out2)[-300:]
            return res
        res["applied"] = "3-way merge onto the current HEAD"
    try:
        rc, out = sh("/venv/bin/python -W ignore %s" % os.path.join(d, "demo.py"), cwd=REPO, env={"PYTHONPATH": REPO})
        res["demo_with_change_rc"] = rc
        for p in [prop] + meta.get("also_check", []):
            rc, out = sh("/venv/bin/python -W ignore harness/check.py %s --tier %s" % (p, tier), cwd=VERIF)
            lines = [l for l in out.split("\n") if l.startswith("VIOLATION") or l.startswith("KNOWN-FINDING") or l.startswith("OK ")]
            res["check_%s" % p] = {"rc": rc, "lines": lines[:6],
                                   "concrete_replay": any(l.startswith("VIOLATION") and "no-failing-input-found" not in l for l in lines)}
    finally:
        sh("git reset -q --hard", cwd=REPO)
        sh("git clean -fdq pyrex tests", cwd=REPO)
    # evidence files must describe the unchanged tree: re-run the checks now that the patch is undone
    # (SEEDED_SKIP_CLEAN=1: regression runs in scratch copies of /verif, whose evidence files are thrown away)
    for p in ([] if os.environ.get("SEEDED_SKIP_CLEAN") == "1" else [prop] + meta.get("also_check", [])):
        rc, out = sh("/venv/bin/python -W ignore harness/check.py %s --tier quick" % p, cwd=VERIF)
        res["clean_tree_after_undo_rc_%s" % p] = rc
    res["caught"] = any(v.get("rc") == 1 for k, v in res.items() if k.startswith("check_") and isinstance(v, dict))
    return res


def main():
    if sys.argv[1] == "add":
        add(*sys.argv[2:5])
        return
    tier = "quick"
    names = [a for a in sys.argv[2:] if not a.startswith("--")]
    if "--tier" in sys.argv:
        tier = sys.argv[sys.argv.index("--tier") + 1]
        names = [n for n in names if n != tier]
    if not names:
        names = sorted(n for n in os.listdir(SEEDED) if os.path.isdir(os.path.join(SEEDED, n)))
    path = os.path.join(SEEDED, "RESULTS.json")
    allres = json.load(open(path)) if os.path.exists(path) else {}
    for n in names:
        r = run_one(n, tier)
        allres[n] = r
        print(json.dumps(r, indent=1))
        json.dump(allres, open(path, "w"), indent=1, sort_keys=True)


if __name__ == "__main__":
    main()
