#!/bin/bash
# selftest.sh Cxx [Cyy ...]   quick with VERIF_SEED=0..5 (+ optional thorough with T=1) on the current tree
cd "$(dirname "$0")/.."
for p in "$@"; do
  for s in 0 1 2 3 4 5; do
    out=$(VERIF_SEED=$s /usr/bin/time -f "%es" /venv/bin/python -W ignore harness/check.py $p --tier quick 2>&1)
    echo "$p seed=$s: $(echo "$out" | grep -E '^(OK|VIOLATION)' | cut -c1-160 | tr '\n' '|') known=$(echo "$out" | grep -c '^KNOWN-FINDING') $(echo "$out" | tail -1)"
  done
  if [ -n "$T" ]; then
    out=$(/usr/bin/time -f "%es" /venv/bin/python -W ignore harness/check.py $p --tier thorough 2>&1)
    echo "$p thorough: $(echo "$out" | grep -E '^(OK|VIOLATION)' | cut -c1-160 | tr '\n' '|') known=$(echo "$out" | grep -c '^KNOWN-FINDING') $(echo "$out" | tail -1)"
  fi
done
