#!/usr/bin/env python3
"""splice_design.py: replace the '### Cxx — …' subsections of DESIGN.md section 6 by design_sections/Cxx.md
(the as-built descriptions written by the owner of each property).  Idempotent."""
import os
import re

VERIF = os.path.dirname(os.path.dirname(os.path.abspath(__file__)))


def main():
    p = os.path.join(VERIF, "DESIGN.md")
    s = open(p).read()
    for i in range(1, 21):
        pid = "C%02d" % i
        f = os.path.join(VERIF, "design_sections", pid + ".md")
        if not os.path.exists(f):
            print("missing", pid)
            continue
        new = open(f).read().rstrip() + "\n\n"
        m = re.search(r"(?m)^### %s [^\n]*\n" % pid, s)
        if not m:
            print("no heading for", pid)
            continue
        rest = s[m.end():]
        n = re.search(r"(?m)^(### C\d\d |---------+\n\n## 7\. )", rest)
        end = m.end() + n.start()
        s = s[:m.start()] + new + s[end:]
    open(p, "w").write(s)


if __name__ == "__main__":
    main()
