#!/usr/bin/env python3
"""validate MANIFEST.json and evidence/*.json against the schemas (run with python3-vt, which has jsonschema)"""
import glob, json, sys
import jsonschema
ok = True
jsonschema.validate(json.load(open('/verif/MANIFEST.json')), json.load(open('/root/.vp/MANIFEST.schema.json')))
es = json.load(open('/root/.vp/EVIDENCE.schema.json'))
for f in sorted(glob.glob('/verif/evidence/*.json')):
    try:
        jsonschema.validate(json.load(open(f)), es)
    except Exception as e:
        ok = False; print(f, "INVALID", str(e)[:300])
print("valid" if ok else "INVALID")
sys.exit(0 if ok else 1)
