"""C20 failing-input search for the `with`-item obligation (theorem C20_with_items_support_protocol).

Run in a FRESH interpreter:  with_probe.py <repo> <scratch dir>

Every `with E:` of the package is compiled as `with __c20_cm__(E, "<file>:<line>"):` by an import hook (source
transformation in memory, nothing is written into the repository); `__c20_cm__` records the type of the object that
reaches the statement and whether that type has `__enter__` and `__exit__`, and returns the object unchanged.  The
workload is an API walk over the package's HDF5 file objects (the only part of the package that handles library
objects with a context-manager protocol of their own): a file written through `pyrex.File(..., 'w')` with every
table, then every public method of the reader and of each event object called with its defaults and with small
argument values.  Exceptions of the walked calls are ignored: the records decide.

Prints one JSON object: {"records": {tag: {type: {"ok": bool, "n": int, "call": str}}}, "calls": int}.
"""
import ast
import builtins
import importlib.machinery
import inspect
import json
import os
import sys
import warnings

warnings.simplefilter("ignore")
repo = os.path.abspath(sys.argv[1])
scratch = sys.argv[2]
RECORDS = {}
CURRENT = ["<import>"]


def __c20_cm__(obj, tag):
    t = type(obj)
    ok = hasattr(t, "__enter__") and hasattr(t, "__exit__")
    rec = RECORDS.setdefault(tag, {})
    key = t.__module__ + "." + t.__qualname__
    if key not in rec:
        rec[key] = {"ok": ok, "n": 0, "call": CURRENT[0]}
    rec[key]["n"] += 1
    return obj


builtins.__c20_cm__ = __c20_cm__


class T(ast.NodeTransformer):
    def __init__(self, rel):
        self.rel = rel

    def _with(self, node):
        self.generic_visit(node)
        for it in node.items:
            tag = "%s:%d" % (self.rel, node.lineno)
            it.context_expr = ast.copy_location(
                ast.Call(func=ast.Name(id="__c20_cm__", ctx=ast.Load()),
                         args=[it.context_expr, ast.Constant(value=tag)], keywords=[]), it.context_expr)
        return node

    visit_With = _with
    visit_AsyncWith = _with


class Loader(importlib.machinery.SourceFileLoader):
    def get_code(self, fullname):
        path = self.get_filename(fullname)
        tree = ast.parse(self.get_data(path), path)
        tree = T(os.path.relpath(path, repo)).visit(tree)
        ast.fix_missing_locations(tree)
        return compile(tree, path, "exec", dont_inherit=True)


_base = importlib.machinery.FileFinder.path_hook((Loader, importlib.machinery.SOURCE_SUFFIXES))
_pkg = os.path.join(repo, "pyrex")


def _hook(path):
    p = os.path.abspath(path)
    if p == _pkg or p.startswith(_pkg + os.sep):
        return _base(path)
    raise ImportError


class RepoFinder:
    """the package itself (`import pyrex`) must come from <repo>/pyrex through the instrumenting loader"""
    @staticmethod
    def find_spec(name, path=None, target=None):
        if name != "pyrex":
            return None
        init = os.path.join(_pkg, "__init__.py")
        return importlib.util.spec_from_file_location("pyrex", init, loader=Loader("pyrex", init),
                                                      submodule_search_locations=[_pkg])


import importlib.util  # noqa: E402
sys.dont_write_bytecode = True
sys.meta_path.insert(0, RepoFinder)
sys.path_hooks.insert(0, _hook)
sys.path_importer_cache.clear()
sys.path.insert(0, repo)
sys.path.insert(0, os.path.dirname(os.path.abspath(__file__)))
sys.path.insert(0, os.path.join(os.path.dirname(os.path.abspath(__file__)), "props"))

CALLS = [0]
VALUES = [0, 1, "direct", "reflected", None, True, (0, 0, 0)]


def walk_object(obj, label, depth=0):
    """call every public method with its defaults, then with each single parameter set to a few small values"""
    for name in sorted(dir(type(obj))):
        if name.startswith("_") or name in ("close", "open", "add", "create_dataset", "create_analysis_dataset",
                                            "create_analysis_metadataset", "create_analysis_group", "add_analysis_metadata",
                                            "add_analysis_indices", "set_detector", "add_file_metadata"):
            continue
        try:
            attr = getattr(obj, name)
        except Exception:
            continue
        if not callable(attr):
            continue
        try:
            params = [p for p in inspect.signature(attr).parameters.values()
                      if p.kind in (p.POSITIONAL_OR_KEYWORD, p.KEYWORD_ONLY)]
        except Exception:
            params = []
        trials = [{}]
        for p in params:
            for v in VALUES:
                trials.append({p.name: v})
        required = [p.name for p in params if p.default is p.empty]
        for kw in trials:
            for r in required:
                kw.setdefault(r, 0)
            CURRENT[0] = "%s.%s(%s)" % (label, name, ", ".join("%s=%r" % kv for kv in sorted(kw.items())))
            CALLS[0] += 1
            try:
                attr(**kw)
            except BaseException as e:      # noqa: BLE001 - the records decide, not the exceptions
                if isinstance(e, (KeyboardInterrupt, SystemExit, MemoryError)):
                    raise


def main():
    import pyrex                      # noqa: F401 - through the instrumenting loader
    assert os.path.abspath(pyrex.__file__).startswith(_pkg), pyrex.__file__
    import h5lib
    from pyrex.io import File
    A = {"op": "A", "np": 1, "trig": 1, "form": "bool", "waves": [2, 2], "rays": [2, 2], "thrown": 1, "fault": "none"}
    spec = {"w": "111111", "rt": "F", "rt_str": False, "nant": 2, "noisy": [0, 0],
            "ops": [dict(A), dict(A, np=2), dict(A, trig=0)]}
    fn = os.path.join(scratch, "walk.h5")
    CURRENT[0] = "writing a file through pyrex.File(fn, 'w')"
    h5lib.write_file(spec, fn)
    for mode in ("r",):
        CURRENT[0] = "File(fn, %r)" % mode
        f = File(fn, mode)
        f.open()
        try:
            walk_object(f, "reader")
            CURRENT[0] = "iterating the reader"
            k = 0
            for ev in f:
                walk_object(ev, "event[%d]" % k)
                k += 1
                if k >= 2:
                    break
            CURRENT[0] = "len / indexing of the reader"
            try:
                len(f); f[0]; f[-1]; f[0:2]
            except Exception:
                pass
        finally:
            try:
                f.close()
            except Exception:
                pass
    CURRENT[0] = "with File(fn, 'r') as f"
    try:
        with File(fn, "r") as f2:
            len(f2)
    except Exception:
        pass
    print("@C20PROBE " + json.dumps({"records": RECORDS, "calls": CALLS[0]}))


main()
