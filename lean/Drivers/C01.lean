import PyrexVerif.Util.Proto
import PyrexVerif.F.Ice
import PyrexVerif.F.Ray
set_option linter.unusedVariables false
/-! Driver for C01 (gradient-index ray tracing).  Floats as bit patterns, `-` = Python `None`.
Every request is `<op> n0 k a lo hi above below <float args…>`:

* `terms z beta`                         → alpha n_z gamma log1 log2            (`_int_terms`)
* `ints z beta deep`                     → dist path tof                        (the three indefinite integrals)
* `zint z0 z1 beta`                      → dist path tof z_uniform              (`_z_int_uniform_correction`)
* `spec zFrom zTo theta0 phi direct`     → r len tof ex ey ez rx ry rz z_turn beta   (SpecializedRayTracePath + certificate r)
* `basic zFrom zTo theta0 phi direct dz` → r len tof ex ey ez rx ry rz z_turn beta   (BasicRayTracePath + numeric r)
* `tracer zFrom zTo`                     → z0 z1 max_angle z_uniform direct_r_max(specialized)
* `conv zFrom zTo angle`                 → true direct angle, true indirect angle
* `specr zFrom zTo angle`                → _direct_r _indirect_r   (SpecializedRayTracer)
* `basicr zFrom zTo angle dz`            → _direct_r _indirect_r direct_r_max (BasicRayTracer)
* `expected cFrom cTo rho drmax irmax`   → three 0/1 flags (`expected_solutions`; cFrom/cTo are 0.0/1.0)
-/
open PyrexF PyrexF.Ray Proto

def optOfTok (s : String) : Option (Option Float) :=
  if s == "-" then some none else (floatOfTok s).map some

def parseIce : List String → Option (Ice × List String)
  | n0 :: k :: a :: lo :: hi :: ab :: be :: r => do
    let n0 ← floatOfTok n0; let k ← floatOfTok k; let a ← floatOfTok a
    let lo ← floatOfTok lo; let hi ← floatOfTok hi
    let ab ← optOfTok ab; let be ← optOfTok be
    pure (⟨n0, k, a, lo, hi, ab, be⟩, r)
  | _ => none

def boolOfFloat (x : Float) : Option Bool :=
  if x == 1.0 then some true else if x == 0.0 then some false else none

def vec (v : Vec3) : List Float := [v.x, v.y, v.z]
def flags (bs : List Bool) : String := " ".intercalate (bs.map (fun b => if b then "1" else "0"))

def handle (ts : List String) : String :=
  match ts with
  | op :: r =>
    match parseIce r with
    | some (I, args) =>
      match floatsOfToks args with
      | some xs =>
        match op, xs with
        | "terms", [z, beta] => joinFloats (intTerms I z beta)
        | "ints", [z, beta, d] =>
          match boolOfFloat d with
          | some deep => joinFloats [distInt I z beta deep, pathInt I z beta deep, tofInt I z beta deep]
          | none => "bad-op"
        | "zint", [z0, z1, beta] =>
          let zu := zUniform I
          joinFloats [zIntUniform distInt I z0 z1 zu beta, zIntUniform pathInt I z0 z1 zu beta,
                      zIntUniform tofInt I z0 z1 zu beta, zu]
        | "spec", [zf, zt, th, phi, d] =>
          match boolOfFloat d with
          | some direct =>
            joinFloats ([rOfLaunch I zf zt th direct, specPathLength I zf zt th direct, specTof I zf zt th direct]
              ++ vec (emittedDir th phi) ++ vec (receivedDir I zf zt th phi direct)
              ++ [pathZTurn I zf th, pathBeta I zf th])
          | none => "bad-op"
        | "basic", [zf, zt, th, phi, d, dz] =>
          match boolOfFloat d with
          | some direct =>
            let ang := lowAngle I zf zt th
            let rr := if direct then basicDirectR I zf zt ang dz else basicIndirectR I zf zt ang dz
            joinFloats ([rr, basicPathLength I zf zt th dz direct, basicTof I zf zt th dz direct]
              ++ vec (emittedDir th phi) ++ vec (receivedDir I zf zt th phi direct)
              ++ [pathZTurn I zf th, pathBeta I zf th])
          | none => "bad-op"
        | "tracer", [zf, zt] =>
          joinFloats [tracerZ0 zf zt, tracerZ1 zf zt, maxAngle I zf zt, zUniform I, specDirectRMax I zf zt]
        | "conv", [zf, zt, ang] => joinFloats [trueDirectAngle I zf zt ang, trueIndirectAngle I zf zt ang]
        | "specr", [zf, zt, ang] => joinFloats [specDirectR I zf zt ang, specIndirectR I zf zt ang]
        | "basicr", [zf, zt, ang, dz] =>
          joinFloats [basicDirectR I zf zt ang dz, basicIndirectR I zf zt ang dz, basicDirectRMax I zf zt dz]
        | "expected", [cf, ct, rho, dr, ir] =>
          match boolOfFloat cf, boolOfFloat ct with
          | some a, some b => flags (expectedSolutions a b rho dr ir)
          | _, _ => "bad-op"
        | _, _ => "bad-op"
      | none => "bad-op"
    | none => "bad-op"
  | _ => "bad-op"

def main : IO Unit := Proto.main1 handle
