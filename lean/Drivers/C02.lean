import PyrexVerif.Util.Proto
import PyrexVerif.F.Ice
import PyrexVerif.F.Geom
import PyrexVerif.F.Uniform
set_option linter.unusedVariables false
/-! Driver for C02 (reciprocity and symmetries).  Floats as bit patterns, `-` = Python `None`.

* `geom px py pz qx qy qz` → `rho phi zLow zHigh`
* `rigid c s tx ty x y z` → the moved point; `rot c s x y z` → the rotated vector
* `dirs <ice:7> px py pz qx qy qz theta0 direct` → emitted (3) received (3)
* `recip <ice:7> zf zt theta0 direct` → launch angle of the reversed path
* `expected cf ct rho dmax imax` → three flags, `exists`, count
* `attseg z1 z2 len dz` → `n` then `len/n` and the `n` left nodes of `linspace(z1, z2, n, endpoint=False)` (floats)
* `usols n lo hi above below maxref px py pz qx qy qz` → per solution
  `refl up theta length tof emitted(3) received(3)` (all as floats), or `err` -/
open PyrexF PyrexF.Geo PyrexF.Uni Proto

def optOfTok (s : String) : Option (Option Float) :=
  if s == "-" then some none else (floatOfTok s).map some

def parseIce : List String → Option (Ice × List String)
  | n0 :: k :: a :: lo :: hi :: ab :: be :: r => do
    let n0 ← floatOfTok n0; let k ← floatOfTok k; let a ← floatOfTok a
    let lo ← floatOfTok lo; let hi ← floatOfTok hi
    let ab ← optOfTok ab; let be ← optOfTok be
    pure (⟨n0, k, a, lo, hi, ab, be⟩, r)
  | _ => none

def parseUIce : List String → Option (UIce × List String)
  | n :: lo :: hi :: ab :: be :: r => do
    let n ← floatOfTok n; let lo ← floatOfTok lo; let hi ← floatOfTok hi
    let ab ← optOfTok ab; let be ← optOfTok be
    pure (⟨n, lo, hi, ab, be⟩, r)
  | _ => none

def p3 (p : P3) : List Float := [p.x, p.y, p.z]
def boolTok (b : Bool) : String := if b then "1" else "0"
def boolOfTok (s : String) : Option Bool := if s == "1" then some true else if s == "0" then some false else none

def usolLine (I : UIce) (p q : P3) (s : USol) : Option (List Float) :=
  (uPoints I p q s.refl s.theta).map fun pts =>
    [Float.ofNat s.refl, (if s.up then 1.0 else 0.0), s.theta, pathLen pts, uTof I p.z pts] ++
      p3 (uEmitted p q s.refl pts) ++ p3 (uReceived p q s.refl pts)

def handle (ts : List String) : String :=
  match ts with
  | "geom" :: r =>
    match floatsOfToks r with
    | some [px, py, pz, qx, qy, qz] =>
      let p : P3 := ⟨px, py, pz⟩; let q : P3 := ⟨qx, qy, qz⟩
      joinFloats [rho p q, phi p q, zLow p q, zHigh p q]
    | _ => "bad-op"
  | "rigid" :: r =>
    match floatsOfToks r with
    | some [c, s, tx, ty, x, y, z] => joinFloats (p3 (rigid c s tx ty ⟨x, y, z⟩))
    | _ => "bad-op"
  | "rot" :: r =>
    match floatsOfToks r with
    | some [c, s, x, y, z] => joinFloats (p3 (rotZ c s ⟨x, y, z⟩))
    | _ => "bad-op"
  | "dirs" :: r =>
    match parseIce r with
    | some (I, [px, py, pz, qx, qy, qz, th, d]) =>
      match floatsOfToks [px, py, pz, qx, qy, qz, th], boolOfTok d with
      | some [px, py, pz, qx, qy, qz, th], some d =>
        let (e, rc) := pathDirections I ⟨px, py, pz⟩ ⟨qx, qy, qz⟩ th d
        joinFloats (p3 e ++ p3 rc)
      | _, _ => "bad-op"
    | _ => "bad-op"
  | "recip" :: r =>
    match parseIce r with
    | some (I, [zf, zt, th, d]) =>
      match floatsOfToks [zf, zt, th], boolOfTok d with
      | some [zf, zt, th], some d => joinFloats [reciprocalLaunch I zf zt th d]
      | _, _ => "bad-op"
    | _ => "bad-op"
  | ["expected", cf, ct, rh, dmax, imax] =>
    match boolOfTok cf, boolOfTok ct, floatsOfToks [rh, dmax, imax] with
    | some cf, some ct, some [rh, dmax, imax] =>
      let e := expectedSolutions cf ct rh dmax imax
      " ".intercalate [boolTok e.1, boolTok e.2.1, boolTok e.2.2, boolTok (existsOf e), toString (countOf e)]
    | _, _, _ => "bad-op"
  | "attseg" :: r =>
    match floatsOfToks r with
    | some [z1, z2, len, dz] =>
      let n := nSteps z1 z2 dz
      toString n ++ " " ++ joinFloats (len / Float.ofNat n :: attenNodes z1 z2 n)
    | _ => "bad-op"
  | "usols" :: r =>
    match parseUIce r with
    | some (I, mr :: pts) =>
      match natOfTok mr, floatsOfToks pts with
      | some mr, some [px, py, pz, qx, qy, qz] =>
        let p : P3 := ⟨px, py, pz⟩; let q : P3 := ⟨qx, qy, qz⟩
        match (uniformSolutions I mr p q).mapM (usolLine I p q) with
        | some ls => joinFloats ls.flatten
        | none => "err"
      | _, _ => "bad-op"
    | _ => "bad-op"
  | _ => "bad-op"

def main : IO Unit := Proto.main1 handle
