import PyrexVerif.Util.Proto
import PyrexVerif.F.Propagate
set_option linter.unusedVariables false
/-! Driver for C03 (ray propagation).  Floats as bit patterns, counts as decimal naturals, flags 0|1.

`basic sinT0 n0 K (len ns… Ls… absDz)×K`              → BasicRayTracePath.attenuation, one frequency
`spec beta k a K (plain len zs… ns… Ls…)×K`            → SpecializedRayTracePath.attenuation, one frequency
`uniform dz P (x y z)×P (len Ls…)×(P−1)`               → UniformRayTracePath.attenuation, one frequency
                                                          (`count-mismatch` if a segment's sample count differs)
`prod K x…`                                             → LayeredRayTracePath.attenuation (product of sub-paths)
`alen a|g|r z K f…`                                     → Antarctic|Greenland|Arasim attenuation_length(z, f)
`bfresnel n0 k a lo hi above below direct theta0 z0`    → BasicRayTracePath.fresnel: r_s.re r_s.im r_p.re r_p.im
`ufresnel n0 K (n2 dr dz)×K`                            → UniformRayTracePath.fresnel
`lfresnel f(4) K (refl n1 n2 recvZ f(4))×K`             → LayeredRayTracePath.fresnel
`basis e(3) r(3) phi`                                   → u_s0 u_p0 u_p1 (9 floats)
`interp T xs… ys… Q q…`                                 → np.interp(q, xs, ys)
`grid fmin fmax step`                                   → the frequency grid of attenuation_interpolation
`propagate N t… v… pol(3) tof e(3) r(3) phi rs(2) rp(2) T fs… as…` → times(N) sigS(N) sigP(N) uS(3) uP1(3)
`propscalar N t… v… tof T fs… as…`                      → times(N) values(N) -/
open PyrexF Proto

abbrev P := StateT (List String) Option

def pTok : P String := fun s => match s with
  | t :: r => some (t, r)
  | [] => none
def pFloat : P Float := do
  let t ← pTok
  match floatOfTok t with
  | some x => pure x
  | none => failure
def pNat : P Nat := do
  let t ← pTok
  match natOfTok t with
  | some x => pure x
  | none => failure
def pBool : P Bool := do
  let t ← pTok
  if t == "1" then pure true else if t == "0" then pure false else failure
def pOpt : P (Option Float) := do
  let t ← pTok
  if t == "-" then pure none else
    match floatOfTok t with
    | some x => pure (some x)
    | none => failure
def pMany {α : Type} (p : P α) : Nat → P (List α)
  | 0 => pure []
  | n + 1 => do
    let x ← p
    let r ← pMany p n
    pure (x :: r)
def pFloats (n : Nat) : P (List Float) := pMany pFloat n
def pV3 : P V3 := do
  let a ← pFloat; let b ← pFloat; let c ← pFloat
  pure (a, b, c)
def pCx : P Cx := do
  let a ← pFloat; let b ← pFloat
  pure (a, b)
def pCx2 : P (Cx × Cx) := do
  let a ← pCx; let b ← pCx
  pure (a, b)
def pEnd : P Unit := fun s => if s.isEmpty then some ((), s) else none

def outCx2 (f : Cx × Cx) : String := joinFloats [f.1.1, f.1.2, f.2.1, f.2.2]
def outV3 (v : V3) : List Float := [v.1, v.2.1, v.2.2]

def pairs {α : Type} : List α → List (α × α)
  | a :: b :: r => (a, b) :: pairs (b :: r)
  | _ => []

def pBasicLeg : P (List Float × List Float × Float) := do
  let n ← pNat
  let ns ← pFloats n; let ls ← pFloats n; let dz ← pFloat
  pure (ns, ls, dz)

def pSpecLeg : P (Bool × List Float × List Float × List Float) := do
  let plain ← pBool
  let n ← pNat
  let zs ← pFloats n; let ns ← pFloats n; let ls ← pFloats n
  pure (plain, zs, ns, ls)

def pLs : P (List Float) := do
  let n ← pNat
  pFloats n

def pRefl : P (Float × Float × Float) := do
  let a ← pFloat; let b ← pFloat; let c ← pFloat
  pure (a, b, c)

def pBound : P (Bool × Float × Float × Float × (Cx × Cx)) := do
  let r ← pBool; let n1 ← pFloat; let n2 ← pFloat; let z ← pFloat; let f ← pCx2
  pure (r, n1, n2, z, f)

def run (op : String) : P String :=
  match op with
  | "basic" => do
    let s ← pFloat; let n0 ← pFloat; let k ← pNat
    let legs ← pMany pBasicLeg k
    pEnd
    pure (tokOfFloat (basicAttenuation s n0 legs))
  | "spec" => do
    let beta ← pFloat; let k ← pFloat; let a ← pFloat; let n ← pNat
    let legs ← pMany pSpecLeg n
    pEnd
    pure (tokOfFloat (specializedAttenuation beta k a legs))
  | "uniform" => do
    let dz ← pFloat; let np ← pNat
    let pts ← pMany pV3 np
    let lss ← pMany pLs (np - 1)
    pEnd
    let segs := pairs pts
    let ok := (List.zipWith (fun (s : V3 × V3) (ls : List Float) =>
      uniformCount s.1 s.2 dz == (ls.length : Int)) segs lss).all id
    if ok && segs.length == lss.length then
      pure (tokOfFloat (uniformAttenuation
        (List.zipWith (fun (s : V3 × V3) (ls : List Float) => (uniformStep s.1 s.2 dz, ls)) segs lss)))
    else pure "count-mismatch"
  | "prod" => do
    let k ← pNat
    let xs ← pFloats k
    pEnd
    pure (tokOfFloat (layeredAttenuation xs))
  | "alen" => do
    let kind ← pTok
    let z ← pFloat; let k ← pNat
    let fs ← pFloats k
    pEnd
    match kind with
    | "a" => pure (joinFloats (fs.map (attenAntarctic z)))
    | "g" => pure (joinFloats (fs.map (attenGreenland z)))
    | "r" => pure (joinFloats (fs.map (attenArasim z)))
    | _ => failure
  | "bfresnel" => do
    let n0 ← pFloat; let k ← pFloat; let a ← pFloat; let lo ← pFloat; let hi ← pFloat
    let ab ← pOpt; let be ← pOpt
    let direct ← pBool; let th ← pFloat; let z0 ← pFloat
    pEnd
    pure (outCx2 (basicFresnel ⟨n0, k, a, lo, hi, ab, be⟩ direct th z0))
  | "ufresnel" => do
    let n0 ← pFloat; let k ← pNat
    let rs ← pMany pRefl k
    pEnd
    pure (outCx2 (uniformFresnel n0 rs))
  | "lfresnel" => do
    let f ← pCx2; let k ← pNat
    let bs ← pMany pBound k
    pEnd
    pure (outCx2 (layeredFresnel f bs))
  | "basis" => do
    let e ← pV3; let r ← pV3; let phi ← pFloat
    pEnd
    let b := polBasis e r phi
    pure (joinFloats (outV3 b.1 ++ outV3 b.2.1 ++ outV3 b.2.2))
  | "interp" => do
    let t ← pNat
    let xs ← pFloats t; let ys ← pFloats t
    let q ← pNat
    let qs ← pFloats q
    pEnd
    pure (joinFloats (qs.map fun x => interp x xs ys))
  | "grid" => do
    let a ← pFloat; let b ← pFloat; let s ← pFloat
    pEnd
    pure (joinFloats (interpGrid a b s))
  | "propagate" => do
    let n ← pNat
    let ts ← pFloats n; let vs ← pFloats n
    let pol ← pV3; let tof ← pFloat; let e ← pV3; let r ← pV3; let phi ← pFloat
    let rs ← pCx; let rp ← pCx
    let t ← pNat
    let fs ← pFloats t; let as ← pFloats t
    pEnd
    let o := propagate ts vs pol tof e r phi rs rp (fun f => interp f fs as)
    pure (joinFloats (o.times ++ o.sigS ++ o.sigP ++ outV3 o.uS ++ outV3 o.uP1))
  | "propscalar" => do
    let n ← pNat
    let ts ← pFloats n; let vs ← pFloats n
    let tof ← pFloat
    let t ← pNat
    let fs ← pFloats t; let as ← pFloats t
    pEnd
    let o := propagateScalar ts vs tof (fun f => interp f fs as)
    pure (joinFloats (o.1 ++ o.2))
  | _ => failure

def handle (ts : List String) : String :=
  match ts with
  | op :: r =>
    match (run op).run r with
    | some (s, _) => s
    | none => "bad-op"
  | [] => "bad-op"

def main : IO Unit := Proto.main1 handle
