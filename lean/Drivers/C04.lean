import PyrexVerif.Util.Proto
import PyrexVerif.D.Signals
set_option linter.unusedVariables false
/-! Driver for C04 (stateful): one operation of `Sig.step` per line, `dump` prints the whole object
graph.  Rationals travel as `num/den`.  See `harness/props/C04.py`. -/
open Sig

def ratOfTok (s : String) : Option Rat :=
  match s.splitOn "/" with
  | [a, b] => do
    let n ← a.toInt?
    let d ← b.toNat?
    if d = 0 then none else some (mkRat n d)
  | [a] => (a.toInt?).map (fun n => (n : Rat))
  | _ => none

def tokOfRat (q : Rat) : String := s!"{q.num}/{q.den}"
def arrS (a : Arr) : String := " ".intercalate (a.map tokOfRat)

def clsOfTok : String → Option Cls
  | "signal" => some .signal | "empty" => some .empty | "func" => some .func
  | "gauss" => some .gauss | "userSig" => some .userSig | "userFunc" => some .userFunc
  | _ => none
def clsS : Cls → String
  | .signal => "signal" | .empty => "empty" | .func => "func"
  | .gauss => "gauss" | .userSig => "userSig" | .userFunc => "userFunc"
def vtOfTok : String → Option VT
  | "undefined" => some .undefined | "voltage" => some .voltage
  | "field" => some .field | "power" => some .power
  | _ => none
def vtS : VT → String
  | .undefined => "undefined" | .voltage => "voltage" | .field => "field" | .power => "power"

def optRat : String → Option (Option Rat)
  | "none" => some none
  | t => (ratOfTok t).map some

def operandOfTok : String → Option Operand
  | t => if t.startsWith "o" then (t.drop 1).toString.toNat?.map Operand.obj
         else if t.startsWith "n" then (ratOfTok (t.drop 1).toString).map Operand.num
         else none

/-- caller-owned arrays are named by their ordinal (`e0`, `e1`, …) in the protocol -/
def extId (st : St) (t : String) : Option Nat :=
  if t.startsWith "e" then (t.drop 1).toString.toNat?.bind (fun j => st.exts.reverse[j]?) else none

def parseOp (st : St) : List String → Option Op
  | "ext" :: r => (r.mapM ratOfTok).map Op.ext
  | ["mk", c, t, v, vt] => do pure (Op.mk (← clsOfTok c) (← extId st t) (← extId st v) (← vtOfTok vt))
  | ["mkEmpty", t, vt] => do pure (Op.mkEmpty (← extId st t) (← vtOfTok vt))
  | ["mkFunc", c, t, f, vt] => do pure (Op.mkFunc (← clsOfTok c) (← extId st t) (← f.toNat?) (← vtOfTok vt))
  | ["copy", k] => do pure (Op.copy (← k.toNat?))
  | ["add", l, r] => do pure (Op.add (← operandOfTok l) (← operandOfTok r))
  | ["mul", k, q] => do pure (Op.mul (← k.toNat?) (← ratOfTok q))
  | ["rmul", q, k] => do pure (Op.rmul (← ratOfTok q) (← k.toNat?))
  | ["div", k, q] => do pure (Op.div (← k.toNat?) (← ratOfTok q))
  | ["imul", k, q] => do pure (Op.imul (← k.toNat?) (← ratOfTok q))
  | ["idiv", k, q] => do pure (Op.idiv (← k.toNat?) (← ratOfTok q))
  | ["withTimes", k, t] => do pure (Op.withTimes (← k.toNat?) (← extId st t))
  | ["shift", k, d] => do pure (Op.shift (← k.toNat?) (← ratOfTok d))
  | ["filter", k, c] => do pure (Op.filter (← k.toNat?) (← c.toNat?))
  | ["setBuffers", k, l, t, f] => do
      let f ← (match f with | "1" => some true | "0" => some false | _ => none)
      pure (Op.setBuffers (← k.toNat?) (← optRat l) (← optRat t) f)
  | _ => none

def replyS : Reply → String
  | .obj k => s!"obj {k}"
  | .ext i => s!"ext {i}"
  | .unit => "unit"
  | .errTimes => "errTimes"
  | .errTypes => "errTypes"
  | .typeError => "typeError"
  | .raise => "raise"
  | .bad => "bad-op"

def cellS (h : Heap) (name : String) (i : Nat) : String := s!"{name} {i} : {arrS (h.cell i)}"

def objS (h : Heap) (k : Nat) (s : Sig) : String :=
  let head := s!"obj {k} {clsS s.cls} {vtS s.vt}"
  let vals := match valuesOf h s with
    | some v => "values : " ++ arrS v
    | none => "values raise"
  match s.body with
  | .arr v => " | ".intercalate [head, cellS h "times" s.times, cellS h "vals" v, vals]
  | .fn a b c d e bi fi =>
    " | ".intercalate ([head, cellS h "times" s.times, cellS h "fns" a, cellS h "t0s" b, s!"bufs {c} :",
      cellS h "facs" d, s!"filts {e} :"] ++ bi.map (cellS h "buf") ++ fi.map (cellS h "filt") ++ [vals])

def dumpS (st : St) : String :=
  let objs := (List.range st.nobj).filterMap (fun k => (st.objs k).map (objS st.heap k))
  let exts := st.exts.reverse.map (fun i => cellS st.heap "ext" i)
  " || ".intercalate ([s!"next {st.heap.next} nobj {st.nobj}"] ++ exts ++ objs)

def handle (st : St) (ts : List String) : St × String :=
  match ts with
  | ["reset"] => (St.init, "ok")
  | ["dump"] => (st, dumpS st)
  | _ =>
    match parseOp st ts with
    | some op => let (st', r) := step st op; (st', replyS r)
    | none => (st, "bad-op")

def main : IO Unit := Proto.mainS St.init handle
