import PyrexVerif.Util.Proto
import PyrexVerif.F.Dft
set_option linter.unusedVariables false
/-! Driver for C05 (frequency filtering).  Floats as bit patterns.

A response is described by three tokens `<kind> <p1> <p2>`:
`const re im` | `delay tau _` | `lowpass fc _` | `highpass fc _` | `rc fc _` (1/(1+i f/fc)) |
`onesided re im` (value for f>0, 0 otherwise) | `gauss s _` (exp(-(f/s)^2)) | `sinc T _` (sin(πfT)/(πfT), 1 at 0) |
`invf f0 _` (|f|/(|f|+f0), 0 at 0) | `cdelay tau a` (a·exp(-2πi f tau)).
A filter is `<forceReal 0|1> <vectorised 0|1> <kind> <p1> <p2>`.

Requests:
`freqs M d`                                  → fftfreq(M, d)
`resp <filter> M d`                          → response on fftfreq(M, d), flattened re im re im …
`filter <filter> N t_0…t_{N-1} v_0…v_{N-1}`  → new values of Signal.filter_frequencies
`apply dt K <filter>×K N v_0…v_{N-1}`        → FunctionSignal._apply_filters
`dft N re_0 im_0 …` / `idft N re_0 im_0 …`   → the transforms themselves, flattened -/
open PyrexF Proto

def respOf (kind : String) (p1 p2 : Float) : Option (Float → Cx) :=
  match kind with
  | "const" => some fun _ => (p1, p2)
  | "delay" => some fun f => cis (-(2 * Rpi * f * p1))
  | "cdelay" => some fun f => cscale p2 (cis (-(2 * Rpi * f * p1)))
  | "lowpass" => some fun f => if Rabs f < p1 then (1, 0) else (0, 0)
  | "highpass" => some fun f => if Rabs f > p1 then (1, 0) else (0, 0)
  | "rc" => some fun f => cdiv (1, 0) (1, f / p1)
  | "onesided" => some fun f => if f > 0 then (p1, p2) else (0, 0)
  | "gauss" => some fun f => (Rexp (-((f / p1) * (f / p1))), 0)
  | "sinc" => some fun f => if f == 0 then (1, 0) else (Rsin (Rpi * f * p1) / (Rpi * f * p1), 0)
  | "invf" => some fun f => if f == 0 then (0, 0) else (Rabs f / (Rabs f + p1), 0)
  | _ => none

def boolOfTok (s : String) : Option Bool :=
  if s == "1" then some true else if s == "0" then some false else none

/-- parse `<fr> <vec> <kind> <p1> <p2>` -/
def parseFilter : List String → Option (((Float → Cx) × Bool × Bool) × List String)
  | fr :: vec :: kind :: p1 :: p2 :: r => do
    let fr ← boolOfTok fr; let vec ← boolOfTok vec
    let p1 ← floatOfTok p1; let p2 ← floatOfTok p2
    let H ← respOf kind p1 p2
    pure ((H, fr, vec), r)
  | _ => none

def parseFilters : Nat → List String → Option (List ((Float → Cx) × Bool × Bool) × List String)
  | 0, r => some ([], r)
  | n + 1, r => do
    let (f, r) ← parseFilter r
    let (fs, r) ← parseFilters n r
    pure (f :: fs, r)

def flatten (zs : List Cx) : List Float := zs.foldr (fun z acc => z.1 :: z.2 :: acc) []

def unflatten : List Float → Option (List Cx)
  | [] => some []
  | a :: b :: r => (unflatten r).map (fun l => (a, b) :: l)
  | _ => none

def handle (ts : List String) : String :=
  match ts with
  | ["freqs", m, d] =>
    match natOfTok m, floatOfTok d with
    | some m, some d => joinFloats (fftfreqs m d)
    | _, _ => "bad-op"
  | "resp" :: r =>
    match parseFilter r with
    | some ((H, fr, vec), [m, d]) =>
      match natOfTok m, floatOfTok d with
      | some m, some d => joinFloats (flatten (getFilterResponse (fftfreqs m d) H fr vec))
      | _, _ => "bad-op"
    | _ => "bad-op"
  | "filter" :: r =>
    match parseFilter r with
    | some ((H, fr, vec), n :: xs) =>
      match natOfTok n, floatsOfToks xs with
      | some n, some xs =>
        if xs.length == 2 * n then
          joinFloats (filterFrequencies (xs.take n) (xs.drop n) H fr vec)
        else "bad-op"
      | _, _ => "bad-op"
    | _ => "bad-op"
  | "apply" :: dt :: k :: r =>
    match floatOfTok dt, natOfTok k with
    | some dt, some k =>
      match parseFilters k r with
      | some (fs, n :: xs) =>
        match natOfTok n, floatsOfToks xs with
        | some n, some xs => if xs.length == n then joinFloats (applyFilters xs dt fs) else "bad-op"
        | _, _ => "bad-op"
      | _ => "bad-op"
    | _, _ => "bad-op"
  | "dft" :: n :: xs =>
    match natOfTok n, (floatsOfToks xs).bind unflatten with
    | some n, some zs => if zs.length == n then joinFloats (flatten (dft zs)) else "bad-op"
    | _, _ => "bad-op"
  | "idft" :: n :: xs =>
    match natOfTok n, (floatsOfToks xs).bind unflatten with
    | some n, some zs => if zs.length == n then joinFloats (flatten (idft zs)) else "bad-op"
    | _, _ => "bad-op"
  | _ => "bad-op"

def main : IO Unit := Proto.main1 handle
