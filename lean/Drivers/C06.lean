import PyrexVerif.Util.Proto
import PyrexVerif.D.Lazy
import PyrexVerif.Gen.LazyOps
import PyrexVerif.Gen.LazyDeps
set_option linter.unusedVariables false
/-! Driver for C06 (stateless): runs the key-set machine of `Lazy.keysStep` over one history of one
object.  Request: `keys <Class> <tok>…` with tokens `a:<attr>` (assignment), `m:<attr>` (in-place
mutation), `c` (clear), `r:<lazy property>` (read), `call:<method table entry>`.
Reply: the `_lazy_*` key set after every token, `|`-separated, names `,`-separated and sorted.
`info <Class>`: clearing set, lazy properties with their lazy dependencies. -/
open Lazy

def findClass (n : String) : Option (ClassInfo × List Method) :=
  (List.zip Gen.LazyDeps.classes Gen.LazyOps.table).findSome? (fun x => if x.1.name == n then some (x.1, x.2.2) else none)

def effsOfTok (ms : List Method) (t : String) : Option (List Eff) :=
  if t == "c" then some [.clear]
  else if t.startsWith "a:" then some [.assign (t.drop 2).toString]
  else if t.startsWith "m:" then some [.mutate (t.drop 2).toString]
  else if t.startsWith "r:" then some [.read (t.drop 2).toString]
  else if t.startsWith "call:" then (ms.find? (fun m => m.name == (t.drop 5).toString)).map (·.effs)
  else none

def sortStrs (l : List String) : List String := (l.toArray.qsort (· < ·)).toList

def handle (ts : List String) : String :=
  match ts with
  | "keys" :: cn :: toks =>
    match findClass cn with
    | none => "bad-op"
    | some (c, ms) =>
      let clearing := c.clearing Gen.LazyDeps.classLevelClears
      let rec go (keys : List Name) (toks : List String) (acc : List String) : Option (List String) :=
        match toks with
        | [] => some acc.reverse
        | t :: r =>
          match effsOfTok ms t with
          | none => none
          | some effs =>
            let keys' := effs.foldl (keysStep clearing) keys
            go keys' r ((",".intercalate (sortStrs keys')) :: acc)
      match go [] toks [] with
      | some out => "ok " ++ "|".intercalate out
      | none => "bad-op"
  | ["info", cn] =>
    match findClass cn with
    | none => "bad-op"
    | some (c, ms) =>
      "ok " ++ ",".intercalate (sortStrs (c.clearing Gen.LazyDeps.classLevelClears)) ++ " ; " ++
        " ".intercalate (c.lazy.map (fun p => p.name ++ ":" ++ ",".intercalate p.lazyDeps)) ++ " ; " ++
        " ".intercalate (ms.map (·.name))
  | _ => "bad-op"

def main : IO Unit := Proto.main1 handle
