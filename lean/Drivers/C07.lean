import PyrexVerif.Util.Proto
import PyrexVerif.F.Askaryan
set_option linter.unusedVariables false
/-! Driver for C07 (Askaryan pulses).  Floats as bit patterns, integers in decimal.

* `zhs|avz|arz E emFrac hadFrac psi dist n t0 <times…>` → the values of the pulse
* `raises psi` → `1` when the constructors raise `ValueError`
* `arzidx N dt tStart maxLen zToT` → `dtDiv nQ nQneg nShift nExtra nRAC skip` and `dz` (bits)
* `arzoff theta dist n zToT dtDiv dz nQ nQneg nShift nExtra nRAC | <Q…> | <RAC…>` → off-cone result for
  the given sampled profile and potential (the implementation's own arrays)
* `maxlen|emrac|hadrac|emprof|hadprof energy <args…>` → the function at every argument
* `oncone` → `oncone_range` -/
open PyrexF Proto

def splitBar (ts : List String) : List (List String) :=
  ts.foldr (fun t acc => if t == "|" then [] :: acc else
    match acc with
    | h :: r => (t :: h) :: r
    | [] => [[t]]) [[]]

def pulse (f : List Float → Float → Float → Float → Float → Float → Float → Float → List Float)
    (args : List String) : String :=
  match floatsOfToks args with
  | some (E :: em :: had :: psi :: dist :: n :: t0 :: times) => joinFloats (f times E em had psi dist n t0)
  | _ => "bad-op"

def handle (ts : List String) : String :=
  match ts with
  | "zhs" :: r => pulse zhsValues r
  | "avz" :: r => pulse avzValues r
  | "arz" :: r => pulse arzValues r
  | ["raises", p] =>
    match floatOfTok p with
    | some psi => if angleRaises psi then "1" else "0"
    | none => "bad-op"
  | ["oncone"] => tokOfFloat onconeRange
  | ["arzidx", nN, a, b, c, d] =>
    match natOfTok nN, floatsOfToks [a, b, c, d] with
    | some N, some [dt, tStart, maxLen, zToT] =>
      let ix := arzIdx N dt tStart maxLen zToT
      joinInts [ix.dtDiv, ix.nQ, ix.nQneg, ix.nShift, ix.nExtra, ix.nRAC, if ix.skip N then 1 else 0]
        ++ " " ++ tokOfFloat ix.dz
    | _, _ => "bad-op"
  | "arzoff" :: th :: di :: n :: z :: dd :: dz :: q :: qn :: sh :: ex :: nr :: "|" :: rest =>
    match floatsOfToks [th, di, n, z, dz], intsOfToks [dd, q, qn, sh, ex, nr], splitBar rest with
    | some [theta, dist, n, zToT, dz], some [dtDiv, nQ, nQneg, nShift, nExtra, nRAC], [qs, rs] =>
      match floatsOfToks qs, floatsOfToks rs with
      | some Q, some RAC =>
        if Q.length ≠ nQ.toNat ∨ RAC.length ≠ nRAC.toNat then "bad-op" else
        let ix : ArzIdx := ⟨dtDiv, dz, nQ, nQneg, nShift, nExtra, nRAC⟩
        let qa := Q.toArray
        let ra := RAC.toArray
        joinFloats (arzOffCone ix ⟨qa.size, fun i => qa.getD i 0⟩ ⟨ra.size, fun i => ra.getD i 0⟩ theta dist n zToT)
      | _, _ => "bad-op"
    | _, _, _ => "bad-op"
  | op :: e :: args =>
    match floatOfTok e, floatsOfToks args with
    | some energy, some xs =>
      match op with
      | "maxlen" => tokOfFloat (maxLength energy)
      | "emrac" => joinFloats (xs.map (fun t => emRAC t energy))
      | "hadrac" => joinFloats (xs.map (fun t => hadRAC t energy))
      | "emprof" => joinFloats (xs.map (fun z => emProfile z energy))
      | "hadprof" => joinFloats (xs.map (fun z => hadProfile z energy))
      | _ => "bad-op"
    | _, _ => "bad-op"
  | _ => "bad-op"

def main : IO Unit := Proto.main1 handle
