import PyrexVerif.Util.Proto
import PyrexVerif.F.Antenna
set_option linter.unusedVariables false
/-! Driver for C08 (antenna response).  A request is a sequence of token groups separated by `|`
(floats as bit patterns, `-` = Python `None`):

  g0  op
  g1  antenna   `A pos(3) z(3) x(3) af eff`  (raw axes, `Antenna.__init__`)
                `D pos(3) orientation(3) centre bandwidth (height|-) tape(3k)`  (`DipoleAntenna.__init__`)
                optionally followed by the history of the object, records separated by `;`:
                `; so z(3) x(3)` set_orientation (the state changes even when it raises) `; pos p(3)` `; af v`
                `; eff v` `; zax v(3)` `; xax v(3)` (plain attribute assignments)
  g2  gains     `unit` | `dipole` | `custom c0 … c6`
                 (dg θ φ = sinθ·(c0 + c1·cosφ + c6·sinφ) + c2·θ ; pg p = c3·x̂·p + c4·ẑ·p + c5·(ẑ×x̂)·p)
  g3  direction `-` | 3 floats
  op = factor   g4 `vt pol`                     → signal factor | err
  op = coords   g4 point                        → r θ φ
  op = angles                                   → θ φ
  op = respond  g4 filter, g5 `grid vt pol`, g6 values      → values | err
  op = receive1 (same as respond)               → grid values | err
  op = receive  g4 filter, g5 `none|list|short`, then (g `grid vt pol`, g values)*  → grid values | err
  op = dipole   (g1 only)                       → z(3) x(3) af eff fLow fHigh b0 b1 a0 a1 a2
  op = freqresp g1 `b0 b1 a0 a1 a2`, g2 freqs   → re im …
  filter: `H re im …` (2N responses in FFT order) | `B b0 b1 a0 a1 a2 dt forceReal`
  pol: `-` | 3 floats.   vt: undefined | voltage | field | power -/
open PyrexF PyrexF.Ant Proto

def groups (ts : List String) : List (List String) :=
  let rec go (acc : List String) (out : List (List String)) : List String → List (List String)
    | [] => (acc.reverse :: out).reverse
    | t :: r => if t == "|" then go [] (acc.reverse :: out) r else go (t :: acc) out r
  go [] [] ts

def v3OfFloats : List Float → Option V3
  | [a, b, c] => some ⟨a, b, c⟩
  | _ => none

def v3sOfFloats : List Float → Option (List V3)
  | [] => some []
  | a :: b :: c :: r => (v3sOfFloats r).map (fun l => ⟨a, b, c⟩ :: l)
  | _ => none

def optV3 (ts : List String) : Option (Option V3) :=
  match ts with
  | ["-"] => some none
  | _ => do let fs ← floatsOfToks ts; let v ← v3OfFloats fs; pure (some v)

def vtOfTok : String → Option VType
  | "undefined" => some VType.undefined
  | "voltage" => some VType.voltage
  | "field" => some VType.field
  | "power" => some VType.power
  | _ => none

def splitSemi (ts : List String) : List (List String) :=
  let rec go (acc : List String) (out : List (List String)) : List String → List (List String)
    | [] => (acc.reverse :: out).reverse
    | t :: r => if t == ";" then go [] (acc.reverse :: out) r else go (t :: acc) out r
  go [] [] ts

/-- one history record applied to the antenna state -/
def applyRecord (A : Antenna) (rec : List String) : Option Antenna :=
  match rec with
  | "so" :: r => do
    let fs ← floatsOfToks r
    match fs with
    | [z1, z2, z3, x1, x2, x3] => pure (A.setOrientation ⟨z1, z2, z3⟩ ⟨x1, x2, x3⟩).1
    | _ => none
  | "pos" :: r => do let v ← (floatsOfToks r).bind v3OfFloats; pure { A with pos := v }
  | "zax" :: r => do let v ← (floatsOfToks r).bind v3OfFloats; pure { A with zAxis := v }
  | "xax" :: r => do let v ← (floatsOfToks r).bind v3OfFloats; pure { A with xAxis := v }
  | ["af", v] => do let v ← floatOfTok v; pure { A with af := v }
  | ["eff", v] => do let v ← floatOfTok v; pure { A with eff := v }
  | _ => none

/-- outer `none` = malformed request, inner `none` = the constructor raises -/
def parseAntennaBase (g : List String) : Option (Option Antenna) :=
  match g with
  | "A" :: r => do
    let fs ← floatsOfToks r
    match fs with
    | [p1, p2, p3, z1, z2, z3, x1, x2, x3, af, eff] =>
      pure (mkAntenna ⟨p1, p2, p3⟩ ⟨z1, z2, z3⟩ ⟨x1, x2, x3⟩ af eff)
    | _ => none
  | "D" :: p1 :: p2 :: p3 :: o1 :: o2 :: o3 :: cf :: bw :: eh :: tape => do
    let fs ← floatsOfToks [p1, p2, p3, o1, o2, o3, cf, bw]
    let eh ← (if eh == "-" then some none else (floatOfTok eh).map some)
    let tp ← floatsOfToks tape
    let tvs ← v3sOfFloats tp
    match fs with
    | [p1, p2, p3, o1, o2, o3, cf, bw] =>
      pure ((mkDipole ⟨p1, p2, p3⟩ ⟨o1, o2, o3⟩ cf bw eh (⟨0, 0, 0⟩ :: tvs)).map (·.1))
    | _ => none
  | _ => none

def parseAntenna (g : List String) : Option (Option Antenna) :=
  match splitSemi g with
  | base :: recs =>
    match parseAntennaBase base with
    | some (some A) =>
      match recs.foldlM applyRecord A with
      | some A' => some (some A')
      | none => none
    | other => if recs.isEmpty then other else (match other with | some none => some none | _ => none)
  | [] => none

def parseGains (g : List String) : Option ((Float → Float → Float) × (Antenna → V3 → Float)) :=
  match g with
  | ["unit"] => some (unitDirectional, unitPolarization)
  | ["dipole"] => some (dipoleDirectional, dipolePolarization)
  | "custom" :: r => do
    let fs ← floatsOfToks r
    match fs with
    | [c0, c1, c2, c3, c4, c5, c6] =>
      pure (fun th ph => Float.sin th * (c0 + c1 * Float.cos ph + c6 * Float.sin ph) + c2 * th,
            fun A p => c3 * A.xAxis.dot p + c4 * A.zAxis.dot p + c5 * (A.zAxis.cross A.xAxis).dot p)
    | _ => none
  | _ => none

def pairsOf : List Float → Option (List (Float × Float))
  | [] => some []
  | a :: b :: r => (pairsOf r).map (fun l => (a, b) :: l)
  | _ => none

/-- the filter operator for a signal of `N` samples -/
def parseFilter (g : List String) : Option (List Float → List Float) :=
  match g with
  | "H" :: r => do
    let fs ← floatsOfToks r
    let hs ← pairsOf fs
    pure (fun vals => if hs.length == 2 * vals.length then dftFilter hs vals else [])
  | ["B", b0, b1, a0, a1, a2, dt, fr] => do
    let fs ← floatsOfToks [b0, b1, a0, a1, a2, dt]
    let fr ← (if fr == "1" then some true else if fr == "0" then some false else none)
    match fs with
    | [b0, b1, a0, a1, a2, dt] =>
      pure (fun vals => dftFilter (dipoleFilterResponses [b0, b1] [a0, a1, a2] (2 * vals.length) dt fr) vals)
    | _ => none
  | _ => none

def parseSigHead (g : List String) : Option (Nat × VType × Option V3) :=
  match g with
  | grid :: vt :: pol => do
    let grid ← natOfTok grid
    let vt ← vtOfTok vt
    let pol ← optV3 pol
    pure (grid, vt, pol)
  | _ => none

def parseSigs : List (List String) → Option (List (Sig × Option V3))
  | [] => some []
  | h :: v :: r => do
    let (grid, vt, pol) ← parseSigHead h
    let vals ← floatsOfToks v
    let rest ← parseSigs r
    pure ((⟨grid, vt, vals⟩, pol) :: rest)
  | _ => none

def showSig (s : Sig) : String := toString s.grid ++ " " ++ joinFloats s.vals

def handleAnt (op : String) (A : Antenna) (dg : Float → Float → Float) (pg : Antenna → V3 → Float)
    (dir : Option V3) (rest : List (List String)) : String :=
  match op, rest with
  | "factor", [vt :: pol] =>
    match vtOfTok vt, optV3 pol with
    | some vt, some pol =>
      match signalFactor A dg pg vt dir pol with
      | some f => tokOfFloat f
      | none => "err"
    | _, _ => "bad-op"
  | "coords", [pt] =>
    match (floatsOfToks pt).bind v3OfFloats with
    | some p => let c := toAntennaCoords A p; joinFloats [c.1, c.2.1, c.2.2]
    | none => "bad-op"
  | "angles", [] =>
    match dir with
    | some d => let a := arrivalAngles A d; joinFloats [a.1, a.2]
    | none => "bad-op"
  | "respond", [f, h, v] =>
    match parseFilter f, parseSigHead h, floatsOfToks v with
    | some filt, some (grid, vt, pol), some vals =>
      match A.applyResponse filt dg pg vt vals dir pol with
      | some out => joinFloats out
      | none => "err"
    | _, _, _ => "bad-op"
  | "receive1", [f, h, v] =>
    match parseFilter f, parseSigHead h, floatsOfToks v with
    | some filt, some (grid, vt, pol), some vals =>
      match A.receiveOne filt dg pg [] ⟨grid, vt, vals⟩ dir pol with
      | some [s] => showSig s
      | some _ => "bad-op"
      | none => "err"
    | _, _, _ => "bad-op"
  | "receive", f :: [mode] :: sigs =>
    match parseFilter f, parseSigs sigs with
    | some filt, some sp =>
      let ss := sp.map (·.1)
      let ps := sp.map (·.2)
      let pols : Option (Option (List (Option V3))) := match mode with
        | "none" => some none
        | "list" => some (some ps)
        | "short" => some (some ps.dropLast)
        | _ => none
      match pols with
      | some pols =>
        -- through the AntennaSystem wrapper when the mode says so is decided by the harness; the
        -- model of the wrapper is the same call
        match (AntennaSystem.mk A).receive filt dg pg [] ss dir pols with
        | some [s] => showSig s
        | some _ => "bad-op"
        | none => "err"
      | none => "bad-op"
    | _, _ => "bad-op"
  | _, _ => "bad-op"

def handle (ts : List String) : String :=
  match groups ts with
  | [["dipole"], "D" :: p1 :: p2 :: p3 :: o1 :: o2 :: o3 :: cf :: bw :: eh :: tape] =>
    match floatsOfToks [p1, p2, p3, o1, o2, o3, cf, bw],
          (if eh == "-" then some none else (floatOfTok eh).map some),
          (floatsOfToks tape).bind v3sOfFloats with
    | some [p1, p2, p3, o1, o2, o3, cf, bw], some eh, some tvs =>
      match mkDipole ⟨p1, p2, p3⟩ ⟨o1, o2, o3⟩ cf bw eh (⟨0, 0, 0⟩ :: tvs) with
      | some (A, fl, fh) =>
        let ba := butter1Bandpass fl fh
        joinFloats ([A.zAxis.x, A.zAxis.y, A.zAxis.z, A.xAxis.x, A.xAxis.y, A.xAxis.z, A.af, A.eff,
                     fl, fh] ++ ba.1 ++ ba.2)
      | none => "err"
    | _, _, _ => "bad-op"
  | [["freqresp"], ba, fs] =>
    match floatsOfToks ba, floatsOfToks fs with
    | some [b0, b1, a0, a1, a2], some fs =>
      joinFloats ((fs.map (fun f => let h := dipoleFrequencyResponse [b0, b1] [a0, a1, a2] f; [h.1, h.2])).flatten)
    | _, _ => "bad-op"
  | [op] :: ant :: gains :: dir :: rest =>
    match parseAntenna ant, parseGains gains, optV3 dir with
    | some (some A), some (dg, pg), some dir => handleAnt op A dg pg dir rest
    | some none, some _, some _ => "err"
    | _, _, _ => "bad-op"
  | _ => "bad-op"

def main : IO Unit := Proto.main1 handle
