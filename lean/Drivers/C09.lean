import PyrexVerif.Util.Proto
import PyrexVerif.D.AntennaSM
set_option linter.unusedVariables false
/-! Driver for C09: antenna / antenna-system histories.  See `harness/props/C09.py` for the protocol.
One request line is one whole history; the reply lists, per operation, its output and the lengths of
the private caches after it. -/
open Ant

abbrev P (α : Type) := List String → Option (α × List String)

def pNat : P Nat
  | t :: r => t.toNat?.map (·, r)
  | [] => none
def pBool : P Bool
  | "1" :: r => some (true, r)
  | "0" :: r => some (false, r)
  | _ => none

def ratOfTok (s : String) : Option Rat :=
  match s.splitOn "/" with
  | [a] => a.toInt?.map (fun n => (n : Rat))
  | [a, b] =>
    match a.toInt?, b.toNat? with
    | some n, some d => if d = 0 then none else some ((n : Rat) / (d : Rat))
    | _, _ => none
  | _ => none
def pRat : P Rat
  | t :: r => (ratOfTok t).map (·, r)
  | [] => none

def pMany {α : Type} (p : P α) : Nat → P (List α)
  | 0, ts => some ([], ts)
  | n+1, ts => do
    let (x, ts) ← p ts
    let (xs, ts) ← pMany p n ts
    pure (x :: xs, ts)

def sortedB : List Rat → Bool
  | a :: b :: r => decide (a < b) && sortedB (b :: r)
  | _ => true

/-- a grid: `n t₁ … tₙ`, at least two strictly increasing points -/
def pGrid : P (List Rat) := fun ts => do
  let (n, ts) ← pNat ts
  let (g, ts) ← pMany pRat n ts
  if n < 2 || !sortedB g then none else pure (g, ts)

def pPoint : P (Rat × Rat) := fun ts => do
  let (t, ts) ← pRat ts
  let (v, ts) ← pRat ts
  pure ((t, v), ts)

def pWave : P Wave := fun ts => do
  let (n, ts) ← pNat ts
  let (w, ts) ← pMany pPoint n ts
  if n < 2 || !sortedB (timesOf w) then none else pure (w, ts)

def pOp : P Op
  | "R" :: ts => do let (w, ts) ← pWave ts; pure (.recv w, ts)
  | "A" :: ts => some (.qAll, ts)
  | "W" :: ts => some (.qWaves, ts)
  | "H" :: ts => some (.qHit, ts)
  | "F" :: ts => do let (g, ts) ← pGrid ts; pure (.qFull g, ts)
  | "D" :: ts => do let (g, ts) ← pGrid ts; pure (.qHitDuring g, ts)
  | "N" :: ts => do let (g, ts) ← pGrid ts; pure (.makeNoise g, ts)
  | "C" :: ts => do let (b, ts) ← pBool ts; pure (.clear b, ts)
  | "M" :: ts => some (.qHitMC, ts)
  | _ => none

def pSysOp : P SysOp
  | "R" :: ts => do let (w, ts) ← pWave ts; pure (.recv w, ts)
  | "S" :: ts => some (.qSignals, ts)
  | "A" :: ts => some (.qAll, ts)
  | "W" :: ts => some (.qWaves, ts)
  | "H" :: ts => some (.qHit, ts)
  | "F" :: ts => do let (g, ts) ← pGrid ts; pure (.qFull g, ts)
  | "D" :: ts => do let (g, ts) ← pGrid ts; pure (.qHitDuring g, ts)
  | "N" :: ts => do let (g, ts) ← pGrid ts; pure (.makeNoise g, ts)
  | "C" :: ts => do let (b, ts) ← pBool ts; pure (.clear b, ts)
  | "M" :: ts => some (.qHitMC, ts)
  | "I" :: ts => do
      let (op, ts) ← pOp ts
      if isQuery op then pure (.inner op, ts) else none
  | _ => none

def pTrig : P (Wave → Bool)
  | "A" :: ts => some (alwaysTrig, ts)
  | "T" :: ts => do let (thr, ts) ← pRat ts; pure (thrTrig thr, ts)
  | _ => none

def ratS (q : Rat) : String := if q.den = 1 then toString q.num else s!"{q.num}/{q.den}"
def waveS (w : Wave) : String :=
  s!"{w.length}" ++ String.join (w.map (fun p => " " ++ ratS p.1 ++ " " ++ ratS p.2))
def outS : Out → String
  | .unit => "u"
  | .flag b => if b then "f 1" else "f 0"
  | .wave w => "w " ++ waveS w
  | .waves ws => s!"ws {ws.length}" ++ String.join (ws.map (fun w => " " ++ waveS w))

def stS (st : State) : String :=
  s!"[{st.signals.length} {st.allWaves.length} {st.triggers.length} {if st.master.isSome then 1 else 0}]"
def sysS (st : SysState) : String :=
  s!"[{st.sigs.length} {st.allWaves.length} {st.triggers.length}]" ++ stS st.ant

/-- the lead-in construction needs a non-negative number of points on every grid it is applied to -/
def sysOpOk (lead : Rat) : SysOp → Bool
  | .recv s => decide (0 ≤ leadInN lead (timesOf s))
  | .qFull g => decide (0 ≤ leadInN lead g)
  | .qHitDuring g => decide (0 ≤ leadInN lead g)
  | .makeNoise g => decide (0 ≤ leadInN lead g)
  | _ => true

def handle (ts : List String) : String :=
  match ts with
  | "ant" :: r =>
    match (do
      let (old, r) ← pBool r
      let (noisy, r) ← pBool r
      let (trig, r) ← pTrig r
      let (n, r) ← pNat r
      let (ops, r) ← pMany pOp n r
      if r ≠ [] then none else pure (old, noisy, trig, ops)) with
    | some (old, noisy, trig, ops) =>
      let cfg : Cfg := ⟨noisy, trig, detNoise⟩
      let (_, outs) := ops.foldl (fun (acc : State × List String) op =>
        let r := stepWith old cfg acc.1 op
        (r.1, acc.2 ++ [outS r.2 ++ " " ++ stS r.1])) (init, [])
      "ok " ++ " | ".intercalate outs
    | none => "bad-op"
  | "sys" :: r =>
    match (do
      let (noisy, r) ← pBool r
      let (trig, r) ← pTrig r
      let (strig, r) ← pTrig r
      let (lead, r) ← pRat r
      let (fe, r) ← (match r with
        | "I" :: r => some (idFe, r)
        | "H" :: r => some (halfFe, r)
        | "B" :: r => some (baseFe, r)
        | "C" :: r => some (clipFe, r)
        | "V" :: r => some (absFe, r)
        | "E" :: r => some (echoFe, r)
        | _ => none : Option ((Wave → Wave) × List String))
      let (n, r) ← pNat r
      let (ops, r) ← pMany pSysOp n r
      if r ≠ [] || lead < 0 || !ops.all (sysOpOk lead) then none else pure (noisy, trig, strig, lead, fe, ops)) with
    | some (noisy, trig, strig, lead, fe, ops) =>
      let c : SysCfg := ⟨⟨noisy, trig, detNoise⟩, lead, fe, strig⟩
      let (_, outs) := ops.foldl (fun (acc : SysState × List String) op =>
        let r := sysStep c acc.1 op
        (r.1, acc.2 ++ [outS r.2 ++ " " ++ sysS r.1])) (sysInit, [])
      "ok " ++ " | ".intercalate outs
    | none => "bad-op"
  | "rejF" :: r =>      -- does full_waveform raise?  (lenient parsing: any number of points, any order)
    match (do
      let (ns, r) ← pNat r
      let (sigs, r) ← pMany (fun ts => do
        let (n, ts) ← pNat ts
        pMany pPoint n ts) ns r
      let (n, r) ← pNat r
      let (g, r) ← pMany pRat n r
      if r ≠ [] then none else pure (sigs, g)) with
    | some (sigs, g) => if fullWaveRejects sigs g then "reject" else "accept"
    | none => "bad-op"
  | "rejA" :: r =>      -- does all_waveforms raise?
    match (do
      let (ns, r) ← pNat r
      let (sigs, r) ← pMany (fun ts => do
        let (n, ts) ← pNat ts
        pMany pPoint n ts) ns r
      if r ≠ [] then none else pure sigs) with
    | some sigs => if allWavesRejects sigs then "reject" else "accept"
    | none => "bad-op"
  | "rejL" :: r =>      -- does _calculate_lead_in_times raise?
    match (do
      let (lead, r) ← pRat r
      let (n, r) ← pNat r
      let (g, r) ← pMany pRat n r
      if r ≠ [] then none else pure (lead, g)) with
    | some (lead, g) => if leadInRejects lead g then "reject" else "accept"
    | none => "bad-op"
  | "leadin" :: r =>
    match (do
      let (lead, r) ← pRat r
      let (g, r) ← pGrid r
      if r ≠ [] || leadInN lead g < 0 then none else pure (lead, g)) with
    | some (lead, g) => "ok " ++ " ".intercalate ((leadInTimes lead g).map ratS)
    | none => "bad-op"
  | _ => "bad-op"

def main : IO Unit := Proto.main1 handle
