import PyrexVerif.Util.Proto
import PyrexVerif.D.Kernel
set_option linter.unusedVariables false
/-! Driver for C10: one `EventKernel.event()` call per request.  See `harness/props/C10.py`. -/
open Kern

abbrev P (α : Type) := List String → Option (α × List String)

def pNat : P Nat
  | t :: r => t.toNat?.map (·, r)
  | [] => none
def pBool : P Bool
  | "1" :: r => some (true, r)
  | "0" :: r => some (false, r)
  | _ => none
def ratOfTok (s : String) : Option Rat :=
  match s.splitOn "/" with
  | [a] => a.toInt?.map (fun n => (n : Rat))
  | [a, b] =>
    match a.toInt?, b.toNat? with
    | some n, some d => if d = 0 then none else some ((n : Rat) / (d : Rat))
    | _, _ => none
  | _ => none
def pRat : P Rat
  | t :: r => (ratOfTok t).map (·, r)
  | [] => none
def pOptRat : P (Option Rat)
  | "-" :: r => some (none, r)
  | t :: r => (ratOfTok t).map (fun q => (some q, r))
  | [] => none
def pStr : P String
  | t :: r => some (t, r)
  | [] => none
def pMany {α : Type} (p : P α) : Nat → P (List α)
  | 0, ts => some ([], ts)
  | n+1, ts => do
    let (x, ts) ← p ts
    let (xs, ts) ← pMany p n ts
    pure (x :: xs, ts)
def pList {α : Type} (p : P α) : P (List α) := fun ts => do
  let (n, ts) ← pNat ts
  pMany p n ts

/-- a path entry of the tracer table: id, tof, psi, signal model ok -/
structure PathE where
  path : Path
  psi  : Rat
  ok   : Bool

def pPathE : P PathE := fun ts => do
  let (i, ts) ← pNat ts
  let (tof, ts) ← pRat ts
  let (psi, ts) ← pRat ts
  let (ok, ts) ← pBool ts
  pure (⟨⟨i, tof⟩, psi, ok⟩, ts)

def pSols : P (Option (List PathE))
  | "N" :: ts => some (none, ts)
  | "S" :: ts => do let (l, ts) ← pList pPathE ts; pure (some l, ts)
  | _ => none

structure PartE where
  p      : Particle
  thetaC : Rat
  sols   : List (Option (List PathE))      -- per antenna

def pPart (nAnt : Nat) : P PartE := fun ts => do
  let (i, ts) ← pNat ts
  let (sw, ts) ← pOptRat ts
  let (iw, ts) ← pOptRat ts
  let (fw, ts) ← pOptRat ts
  let (th, ts) ← pRat ts
  let (s, ts) ← pMany pSols nAnt ts
  pure (⟨⟨i, sw, iw, fw⟩, th, s⟩, ts)

def pWeightMin : P WeightMin
  | "S" :: ts => do let (w, ts) ← pRat ts; pure (.scalar w, ts)
  | "P" :: ts => do
      let (a, ts) ← pRat ts
      let (b, ts) ← pRat ts
      pure (.pair a b, ts)
  | _ => none

def isPulse : Recv → Bool
  | .pulse .. => true
  | _ => false

def pTrigFn : P TrigFn
  | "G" :: ts => do
      let (i, ts) ← pNat ts
      let (m, ts) ← pNat ts
      pure ((fun r => decide (m ≤ (r[i]?.getD []).length)), ts)
  | "U" :: ts => do
      let (i, ts) ← pNat ts
      pure ((fun r => (r[i]?.getD []).any isPulse), ts)
  | "K" :: ts => do
      let (b, ts) ← pBool ts
      pure ((fun _ => b), ts)
  | _ => none

def pKeyFn : P (String × TrigFn) := fun ts => do
  let (k, ts) ← pStr ts
  let (f, ts) ← pTrigFn ts
  pure ((k, f), ts)

def pTriggers : P Triggers
  | "N" :: ts => some (.none, ts)
  | "F" :: ts => do let (f, ts) ← pTrigFn ts; pure (.fn f, ts)
  | "D" :: ts => do let (l, ts) ← pList pKeyFn ts; pure (.dict l, ts)
  | _ => none

def ratS (q : Rat) : String := if q.den = 1 then toString q.num else s!"{q.num}/{q.den}"
def gridS (g : Grid) : String := s!"{g.length}" ++ String.join (g.map (fun t => " " ++ ratS t))
def recvS : Recv → String
  | .empty g => "E " ++ gridS g
  | .pulse p i g => s!"P {p} {i} " ++ gridS g
def accS (a : AntAcc) : String :=
  s!"a {a.received.length}" ++ String.join (a.received.map (fun r => " " ++ recvS r)) ++
  s!" r {a.rayPaths.length}" ++ String.join (a.rayPaths.map (fun p => s!" {p.id}")) ++
  s!" q {a.pols.length}" ++ String.join (a.pols.map (fun p => s!" {p.1}:{p.2}"))
def b2s (b : Bool) : String := if b then "1" else "0"
def trigS : Trig → String
  | .none => "none"
  | .single b => "b" ++ b2s b
  | .dict kv => "d" ++ String.join (kv.map (fun p => s!" {p.1}={b2s p.2}"))
def retS : Option (Option Bool) → String
  | none => "event"
  | some none => "keyerror"
  | some (some b) => "event," ++ b2s b

def handle (ts : List String) : String :=
  match ts with
  | "ev" :: r =>
    match (do
      let (nAnt, r) ← pNat r
      let (times, r) ← pList pRat r
      let (wm, r) ← pWeightMin r
      let (off, r) ← pRat r
      let (trg, r) ← pTriggers r
      let (wr, r) ← pBool r
      let (seen, r) ← pNat r
      let (after, r) ← pNat r
      let (eid, r) ← pNat r
      let (parts, r) ← pList (pPart nAnt) r
      if r ≠ [] then none else pure (nAnt, times, wm, off, trg, wr, seen, after, eid, parts)) with
    | some (nAnt, times, wm, off, trg, wr, seen, after, eid, parts) =>
      let findP (p : Particle) : Option PartE := parts.find? (fun e => e.p.id == p.id)
      let findPath (p : Particle) (path : Path) : Option PathE :=
        (findP p).bind (fun e => (e.sols.filterMap id).flatten.find? (fun x => x.path.id == path.id))
      let c : Comp :=
        { times := times, weightMin := wm, offconeMax := off,
          tracer := fun p i => ((findP p).bind (fun e => e.sols[i]?)).bind
            (fun s => s.map (fun l => l.map (·.path))),
          psi := fun p path => ((findPath p path).map (·.psi)).getD 0,
          thetaC := fun p => ((findP p).map (·.thetaC)).getD 0,
          sigOk := fun p path => ((findPath p path).map (·.ok)).getD true,
          propGrid := fun path g => shift g path.tof }
      let g : Gen Unit := ⟨fun _ => ((eid, parts.map (·.p)), ()), fun _ => after⟩
      let o := (event g c nAnt trg wr ⟨(), seen⟩).1
      s!"ev {o.event} | ret {retS o.ret} | trig {trigS o.trig} | " ++
      (match o.written with
       | none => "written 0"
       | some w => s!"written 1 ev={w.event} thrown={w.eventsThrown} trig={trigS w.triggered} " ++
           "rp=" ++ ";".intercalate (w.rayPaths.map (fun l => ",".intercalate (l.map (fun p => toString p.id)))) ++
           " pol=" ++ ";".intercalate (w.pols.map (fun l => ",".intercalate (l.map (fun p => s!"{p.1}:{p.2}"))))) ++
      String.join (o.accs.map (fun a => " | " ++ accS a))
    | none => "bad-op"
  | _ => "bad-op"

def main : IO Unit := Proto.main1 handle
