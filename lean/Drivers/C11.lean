import PyrexVerif.Util.Proto
import PyrexVerif.D.H5
import PyrexVerif.D.H5Proto
/-! Driver for C11 (HDF5 round trip).  Protocol: see `PyrexVerif/D/H5Proto.lean`. -/
def main : IO Unit := Proto.main1 H5Proto.handle
