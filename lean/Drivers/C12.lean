import PyrexVerif.Util.Proto
import PyrexVerif.D.H5
import PyrexVerif.D.H5Proto
/-! Driver for C12 (access paths, append sessions, FileGenerator).  Protocol: see `PyrexVerif/D/H5Proto.lean`. -/
def main : IO Unit := Proto.main1 H5Proto.handle
