import PyrexVerif.Util.Proto
import PyrexVerif.F.Gen
import PyrexVerif.D.ListGen
set_option linter.unusedVariables false
/-! Driver for C13 (generators).  Floats as bit patterns, `|` separates groups.

`sectab <mu|tau> | …`                      as in the C14 driver (state)
`vertex cyl dr dz u1 u2 u3` / `vertex box dx dy dz u1 u2 u3`   → `x y z`
`direction u1 u2`                           → the vector of `get_direction` and its normalisation
`ptype f0 f1 f2 <cosmo 0|1> uF uN`          → `<e|mu|tau> <anti>`
`exit cyl dr dz vx vy vz dx dy dz` / `exit box dx dy dz v… d…` → `ex ey ez xx xy xz` or `none`
`weights <prem|cmc> <cyl dr dz|box dx dy dz> vx vy vz ux uy uz L` → `surv iw` or `none`
`event <cyl dr dz|box dx dy dz> <shadow> f0 f1 f2 <cosmo> <gqrs|ctw> <sec> <prem|cmc> E | u… | k…`
      → `passes usedU usedK flavor anti kind | vertex dir E y em had surv iw` or `none`
`list n <loop> <ops…>`  ops: `c` create (`stop` = StopIteration, `zerodiv` = empty looping list), `s<int>` set count, `q` query → one reply token per op -/
open PyrexF Proto

structure St where
  mu : List SecTables := []
  tau : List SecTables := []

/-- split a token list at every `sep` token (linear time) -/
def splitAt (sep : String) (ts : List String) : List (List String) :=
  let rec go : List String → List String → List (List String) → List (List String)
    | [], cur, out => (cur.reverse :: out).reverse
    | t :: r, cur, out => if t == sep then go r [] (cur.reverse :: out) else go r (t :: cur) out
  go ts [] []

def splitBar (ts : List String) : List (List String) := splitAt "|" ts

def kindOf (s : String) : Option (Option Kind) :=
  if s == "cc" then some (some .cc) else if s == "nc" then some (some .nc) else if s == "-" then some none else none

def kindOf1 (s : String) : Option Kind := if s == "cc" then some .cc else if s == "nc" then some .nc else none

def modelOf (s : String) : Option IModel := if s == "gqrs" then some .gqrs else if s == "ctw" then some .ctw else none
def flavorOf (s : String) : Option Flavor :=
  if s == "e" then some .e else if s == "mu" then some .mu else if s == "tau" then some .tau else none
def boolOf (s : String) : Option Bool := if s == "1" then some true else if s == "0" then some false else none
def kindStr : Kind → String
  | .cc => "cc"
  | .nc => "nc"

def mkTables (groups : List (List Float)) : Option SecTables :=
  match groups with
  | [[ib, ie, ip], cb, ce, cp, ch, cm, cel] => some ⟨ib, ie, ip, cb, ce, cp, ch, cm, cel⟩
  | _ => none


def earthOf (s : String) : Option EarthModel :=
  if s == "prem" then some prem else if s == "cmc" then some coreMantleCrust else none

def flavorStr : Flavor → String
  | .e => "e"
  | .mu => "mu"
  | .tau => "tau"

def v3s (p : EV3) : List Float := [p.x, p.y, p.z]

/-- parse `cyl dr dz` / `box dx dy dz` off the front of a token list -/
def parseVolume : List String → Option (Volume × List String)
  | "cyl" :: dr :: dz :: r => do
    let dr ← floatOfTok dr; let dz ← floatOfTok dz
    pure (.cyl dr dz, r)
  | "box" :: dx :: dy :: dz :: r => do
    let dx ← floatOfTok dx; let dy ← floatOfTok dy; let dz ← floatOfTok dz
    pure (.box dx dy dz, r)
  | _ => none

def handleList (n : Nat) (loop : Bool) (ops : List String) : String :=
  let rec go (s : PyrexD.ListGen.St) : List String → List String → String
    | [], out => " ".intercalate out.reverse
    | op :: r, out =>
      if op == "c" then
        match PyrexD.ListGen.create s with
        | (s', none) => go s' r ((if s.n == 0 && s.loop then "zerodiv" else "stop") :: out)
        | (s', some i) => go s' r (toString i :: out)
      else if op == "q" then go s r (("q" ++ toString (PyrexD.ListGen.count s)) :: out)
      else if op.startsWith "s" then
        match (op.drop 1).toInt? with
        | some c => go (PyrexD.ListGen.setCount s c) r ("ok" :: out)
        | none => "bad-op"
      else "bad-op"
  go (PyrexD.ListGen.init n loop) ops []

def handle (st : St) (ts : List String) : St × String :=
  match ts with
  | "sectab" :: which :: "|" :: rest =>
    match (splitBar rest).mapM floatsOfToks with
    | some groups =>
      match mkTables groups with
      | some T =>
        if which == "mu" then ({ st with mu := st.mu ++ [T] }, "ok " ++ toString (st.mu.length + 1))
        else if which == "tau" then ({ st with tau := st.tau ++ [T] }, "ok " ++ toString (st.tau.length + 1))
        else (st, "bad-op")
      | none => (st, "bad-op")
    | none => (st, "bad-op")
  | "vertex" :: rest =>
    match parseVolume rest with
    | some (g, us) =>
      match floatsOfToks us with
      | some [u1, u2, u3] => (st, joinFloats (v3s (g.vertex u1 u2 u3)))
      | _ => (st, "bad-op")
    | none => (st, "bad-op")
  | ["direction", u1, u2] =>
    match floatsOfToks [u1, u2] with
    | some [u1, u2] => (st, joinFloats (v3s (genDirection u1 u2) ++ v3s (normalizeE (genDirection u1 u2))))
    | _ => (st, "bad-op")
  | ["ptype", f0, f1, f2, cosmo, uF, uN] =>
    match floatsOfToks [f0, f1, f2, uF, uN], boolOf cosmo with
    | some [f0, f1, f2, uF, uN], some cosmo =>
      let r := particleType f0 f1 f2 cosmo uF uN
      (st, flavorStr r.1 ++ " " ++ (if r.2 then "1" else "0"))
    | _, _ => (st, "bad-op")
  | "exit" :: rest =>
    match parseVolume rest with
    | some (g, r) =>
      match floatsOfToks r with
      | some [vx, vy, vz, dx, dy, dz] =>
        match g.exitPoints ⟨vx, vy, vz⟩ ⟨dx, dy, dz⟩ with
        | some (a, b) => (st, joinFloats (v3s a ++ v3s b))
        | none => (st, "none")
      | _ => (st, "bad-op")
    | none => (st, "bad-op")
  | "weights" :: em :: rest =>
    match earthOf em, parseVolume rest with
    | some earth, some (g, r) =>
      match floatsOfToks r with
      | some [vx, vy, vz, ux, uy, uz, L] =>
        match weights earth g ⟨vx, vy, vz⟩ ⟨ux, uy, uz⟩ L with
        | some (s, w) => (st, joinFloats [s, w])
        | none => (st, "none")
      | _ => (st, "bad-op")
    | _, _ => (st, "bad-op")
  | "event" :: rest =>
    match parseVolume rest with
    | some (g, shadow :: f0 :: f1 :: f2 :: cosmo :: m :: sec :: em :: e :: "|" :: tape) =>
      match boolOf shadow, floatsOfToks [f0, f1, f2, e], boolOf cosmo, modelOf m, boolOf sec, earthOf em, splitBar tape with
      | some shadow, some [f0, f1, f2, e], some cosmo, some m, some sec, some earth, [us, ks] =>
        match floatsOfToks us, natsOfToks ks with
        | some us, some ks =>
          let c : GenConfig := ⟨g, shadow, f0, f1, f2, cosmo, m, sec, earth, e, st.mu, st.tau⟩
          match createEvent c (us.length + 1) ⟨us, ks⟩ with
          | none => (st, "none")
          | some (n, p, t) =>
            (st, toString n ++ " " ++ toString (us.length - t.us.length) ++ " " ++ toString (ks.length - t.ks.length)
              ++ " " ++ flavorStr p.flavor ++ " " ++ (if p.anti then "1" else "0") ++ " " ++ kindStr p.interaction.kind
              ++ " | " ++ joinFloats (v3s p.vertex ++ v3s p.direction ++ [p.energy, p.interaction.y,
                  p.interaction.em, p.interaction.had, p.survival, p.interactionW]))
        | _, _ => (st, "bad-op")
      | _, _, _, _, _, _, _ => (st, "bad-op")
    | _ => (st, "bad-op")
  | "list" :: n :: loop :: ops =>
    match natOfTok n, boolOf loop with
    | some n, some loop => (st, handleList n loop ops)
    | _, _ => (st, "bad-op")
  | _ => (st, "bad-op")

def main : IO Unit := Proto.mainS ({} : St) handle
