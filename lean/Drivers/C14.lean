import PyrexVerif.Util.Proto
import PyrexVerif.F.Interaction
import PyrexVerif.D.EventTree
set_option linter.unusedVariables false
/-! Driver for C14 (interactions, cross sections, event trees).  Floats as bit patterns, `|` separates groups.

`sectab <mu|tau> | ib ie ip | cumBrems… | cumEpair… | cumPn… | cumHadr… | cumMu… | cumE…`
      appends the secondary tables of the next energy index (state); reply `ok <count>`
`interact <gqrs|ctw> <sec 0|1> <e|mu|tau> <anti 0|1> <cc|nc|-> E | u… | k…`
      → `kind y em had usedU usedK idx` or `none`
`sigma <gqrs|ctw> <anti> <cc|nc> E…`   → cross sections; `sigtot <gqrs|ctw> <anti> E…` → total cross sections
`length <gqrs|ctw> <anti> <cc|nc> E…`, `lentot <gqrs|ctw> <anti> E…`
`consts` → all generated tables, flattened
`tree <nroots> [<maxLevel>] ; <parent> <c1> <c2> … ; …` (ids; roots are `0..nroots-1`)
      → `all | children… | parents… | levels…` or `error <k>` (k = index of the raising call) -/
open PyrexF Proto

structure St where
  mu : List SecTables := []
  tau : List SecTables := []

/-- split a token list at every `sep` token (linear time) -/
def splitAt (sep : String) (ts : List String) : List (List String) :=
  let rec go : List String → List String → List (List String) → List (List String)
    | [], cur, out => (cur.reverse :: out).reverse
    | t :: r, cur, out => if t == sep then go r [] (cur.reverse :: out) else go r (t :: cur) out
  go ts [] []

def splitBar (ts : List String) : List (List String) := splitAt "|" ts

def kindOf (s : String) : Option (Option Kind) :=
  if s == "cc" then some (some .cc) else if s == "nc" then some (some .nc) else if s == "-" then some none else none

def kindOf1 (s : String) : Option Kind := if s == "cc" then some .cc else if s == "nc" then some .nc else none

def modelOf (s : String) : Option IModel := if s == "gqrs" then some .gqrs else if s == "ctw" then some .ctw else none
def flavorOf (s : String) : Option Flavor :=
  if s == "e" then some .e else if s == "mu" then some .mu else if s == "tau" then some .tau else none
def boolOf (s : String) : Option Bool := if s == "1" then some true else if s == "0" then some false else none
def kindStr : Kind → String
  | .cc => "cc"
  | .nc => "nc"

def allTables : List (List PyrexGen.Dec) :=
  open PyrexGen.Interaction in
  [gqrsCcProb, gqrsYExp, gqrsTotalNu, gqrsTotalNubar, gqrsNuCc, gqrsNuNc, gqrsNubarCc, gqrsNubarNc, tauDecay,
   ctwD, ctwLowProb, ctwALow, ctwACcNu, ctwACcNubar, ctwANc, ctwC2, ctwYLow, ctwYHigh,
   ctwNuCc, ctwNuNc, ctwNubarCc, ctwNubarNc, ctwTotalNuCc, ctwTotalNuNc, ctwTotalNubarCc, ctwTotalNubarNc,
   [avogadro]]

/-! ### tree requests -/
open PyrexD.Tree in
def treeReply (e : Ev) (maxLevel : Nat) : String :=
  let optL : Option (List Nat) → String
    | none => "E"
    | some l => if l.isEmpty then "-" else ",".intercalate (l.map toString)
  let ch := e.all.map (fun p => optL (getChildren e p))
  let pa := e.all.map (fun p => match getParent e p with
    | none => "E"
    | some none => "N"
    | some (some q) => toString q)
  let lv := (List.range (maxLevel + 1)).map (fun k => optL (fromLevel e k))
  optL (some (iter e)) ++ " | " ++ " ".intercalate ch ++ " | " ++ " ".intercalate pa ++ " | " ++ " ".intercalate lv
    ++ " | " ++ toString (len e)

def splitSemi (ts : List String) : List (List String) := splitAt ";" ts

open PyrexD.Tree in
def handleTree (ts : List String) : String :=
  match splitSemi ts with
  | hd :: ops =>
    -- head: `<nroots>` (levels 0 .. #particles+1 are reported) or `<nroots> <maxLevel>`
    let roots? : Option (List Nat) := match hd with
      | [n] => (natOfTok n).map List.range
      | [n, _] => (natOfTok n).map List.range
      | _ => none
    let maxLevel? : Option Nat := match hd with
      | [_, k] => natOfTok k
      | _ => none
    match roots?, ops.mapM natsOfToks with
    | some roots, some opl =>
      let rec run (e : Ev) (k : Nat) : List (List Nat) → String
        | [] => treeReply e (maxLevel?.getD (e.all.length + 1))
        | (p :: cs) :: rest =>
          match addChildren e p cs with
          | none => "error " ++ toString k
          | some e' => run e' (k + 1) rest
        | [] :: _ => "bad-op"
      run (init roots) 0 opl
    | _, _ => "bad-op"
  | _ => "bad-op"

def mkTables (groups : List (List Float)) : Option SecTables :=
  match groups with
  | [[ib, ie, ip], cb, ce, cp, ch, cm, cel] => some ⟨ib, ie, ip, cb, ce, cp, ch, cm, cel⟩
  | _ => none

def handle (st : St) (ts : List String) : St × String :=
  match ts with
  | "sectab" :: which :: "|" :: rest =>
    match (splitBar rest).mapM floatsOfToks with
    | some groups =>
      match mkTables groups with
      | some T =>
        if which == "mu" then ({ st with mu := st.mu ++ [T] }, "ok " ++ toString (st.mu.length + 1))
        else if which == "tau" then ({ st with tau := st.tau ++ [T] }, "ok " ++ toString (st.tau.length + 1))
        else (st, "bad-op")
      | none => (st, "bad-op")
    | none => (st, "bad-op")
  | "interact" :: m :: sec :: fl :: anti :: kd :: e :: "|" :: rest =>
    match modelOf m, boolOf sec, flavorOf fl, boolOf anti, kindOf kd, floatOfTok e, splitBar rest with
    | some m, some sec, some fl, some anti, some kd, some e, [us, ks] =>
      match floatsOfToks us, natsOfToks ks with
      | some us, some ks =>
        let tabs := match fl with
          | .mu => st.mu
          | .tau => st.tau
          | .e => []
        match interact m sec fl anti e kd tabs ⟨us, ks⟩ with
        | none => (st, "none")
        | some o => (st, kindStr o.kind ++ " " ++ joinFloats [o.y, o.em, o.had] ++ " "
            ++ toString (us.length - o.tape.us.length) ++ " " ++ toString (ks.length - o.tape.ks.length)
            ++ " " ++ toString (energyIndex (e * (1 - o.y))))
      | _, _ => (st, "bad-op")
    | _, _, _, _, _, _, _ => (st, "bad-op")
  | "sigma" :: m :: anti :: kd :: es =>
    match modelOf m, boolOf anti, kindOf1 kd, floatsOfToks es with
    | some m, some anti, some kd, some es => (st, joinFloats (es.map (sigma m anti kd)))
    | _, _, _, _ => (st, "bad-op")
  | "sigtot" :: m :: anti :: es =>
    match modelOf m, boolOf anti, floatsOfToks es with
    | some m, some anti, some es => (st, joinFloats (es.map (sigmaTotal m anti)))
    | _, _, _ => (st, "bad-op")
  | "length" :: m :: anti :: kd :: es =>
    match modelOf m, boolOf anti, kindOf1 kd, floatsOfToks es with
    | some m, some anti, some kd, some es => (st, joinFloats (es.map (interactionLength m anti kd)))
    | _, _, _, _ => (st, "bad-op")
  | "lentot" :: m :: anti :: es =>
    match modelOf m, boolOf anti, floatsOfToks es with
    | some m, some anti, some es => (st, joinFloats (es.map (totalInteractionLength m anti)))
    | _, _, _ => (st, "bad-op")
  | ["consts"] => (st, " | ".intercalate (allTables.map (fun l => joinFloats (l.map decR))))
  | "tree" :: rest => (st, handleTree rest)
  | _ => (st, "bad-op")

def main : IO Unit := Proto.mainS ({} : St) handle
