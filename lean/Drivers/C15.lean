import PyrexVerif.Util.Proto
import PyrexVerif.F.Earth
set_option linter.unusedVariables false
/-! Driver for C15 (Earth models).  Floats as bit patterns.
`density <prem|cmc> r…`            → density of every radius
`slant <prem|cmc> ex ey ez dx dy dz step` → `total  n  lastRho  lastWeight`
`consts <prem|cmc>`                → `radius | lower upper coeffs… | …` (flattened, `|` separated) -/
open PyrexF Proto

def modelOf (s : String) : Option EarthModel :=
  if s == "prem" then some prem else if s == "cmc" then some coreMantleCrust else none

def handle (ts : List String) : String :=
  match ts with
  | "density" :: m :: args =>
    match modelOf m, floatsOfToks args with
    | some M, some rs => joinFloats (M.densityArr rs)
    | _, _ => "bad-op"
  | ["slant", m, ex, ey, ez, dx, dy, dz, st] =>
    match modelOf m, floatsOfToks [ex, ey, ez, dx, dy, dz, st] with
    | some M, some [ex, ey, ez, dx, dy, dz, st] =>
      let (n, rho, w) := M.slantLast ⟨ex, ey, ez⟩ ⟨dx, dy, dz⟩ st
      joinFloats [M.slantDepth ⟨ex, ey, ez⟩ ⟨dx, dy, dz⟩ st, Float.ofNat n, rho, w]
    | _, _ => "bad-op"
  | ["consts", m] =>
    match modelOf m with
    | some M => tokOfFloat M.radius ++ " | " ++
        " | ".intercalate (M.shells.map (fun s => joinFloats (s.lower :: s.upper :: s.coeffs)))
    | none => "bad-op"
  | _ => "bad-op"

def main : IO Unit := Proto.main1 handle
