import PyrexVerif.Util.Proto
import PyrexVerif.F.Ice
import PyrexVerif.F.IceAtten
set_option linter.unusedVariables false
/-! Driver for C16 (ice models).  Requests (floats as bit patterns, `-` = Python `None`):
`<op> n0 k a lo hi above below <args…>` with op ∈ index | gradient | depth | contains. -/
open PyrexF Proto

def optOfTok (s : String) : Option (Option Float) :=
  if s == "-" then some none else (floatOfTok s).map some

def parseIce : List String → Option (Ice × List String)
  | n0 :: k :: a :: lo :: hi :: ab :: be :: r => do
    let n0 ← floatOfTok n0; let k ← floatOfTok k; let a ← floatOfTok a
    let lo ← floatOfTok lo; let hi ← floatOfTok hi
    let ab ← optOfTok ab; let be ← optOfTok be
    pure (⟨n0, k, a, lo, hi, ab, be⟩, r)
  | _ => none

/-- `atten <model> nz z… nf f…` → the matrix, row by row (also covers the row/column/scalar shapes) -/
def handleAtten (model : String) (r : List String) : String :=
  match r with
  | nz :: r =>
    match nz.toNat? with
    | some nz =>
      match floatsOfToks (r.take nz), (r.drop nz) with
      | some zs, nf :: r2 =>
        match nf.toNat?, floatsOfToks r2 with
        | some nf, some fs =>
          if fs.length != nf then "bad-op" else
          let att : Option (Float → Float → Float) := match model with
            | "antarctic" => some attenAntarctic
            | "greenland" => some attenGreenland
            | "arasim" => some attenArasim
            | _ => none
          match att with
          | some att => joinFloats ((attenMatrix att zs fs).flatten)
          | none => "bad-op"
        | _, _ => "bad-op"
      | _, _ => "bad-op"
    | none => "bad-op"
  | _ => "bad-op"

def parsePairs : List Float → Option (List (Float × Float))
  | [] => some []
  | a :: b :: r => (parsePairs r).map ((a, b) :: ·)
  | _ => none

def handle (ts : List String) : String :=
  match ts with
  | "atten" :: model :: r => handleAtten model r
  | "defaults" :: _ =>
      let o := fun (x : Option Float) => match x with | some v => tokOfFloat v | none => "-"
      let ice := fun (I : Ice) => joinFloats [I.n0, I.k, I.a, I.lo, I.hi] ++ " " ++ o I.above ++ " " ++ o I.below
      ice antarcticIce ++ " | " ++ ice greenlandIce
  | "temp" :: model :: r =>
      match floatsOfToks r with
      | some zs => joinFloats (zs.map (if model == "greenland" then grn_tempC else ant_tempC))
      | none => "bad-op"
  | "uindex" :: n :: lo :: hi :: ab :: be :: r =>
      match floatOfTok n, floatOfTok lo, floatOfTok hi, optOfTok ab, optOfTok be, floatsOfToks r with
      | some n, some lo, some hi, some ab, some be, some zs =>
          joinFloats (zs.map (UIce.index ⟨n, lo, hi, ab, be⟩))
      | _, _, _, _, _, _ => "bad-op"
  | "layer" :: nl :: r =>
      match nl.toNat? with
      | some nl =>
        match floatsOfToks (r.take (2*nl)), floatsOfToks (r.drop (2*nl)) with
        | some bs, some zs =>
          match parsePairs bs with
          | some ls => " ".intercalate (zs.map (fun z => match layerAt ls z with
              | some i => toString i | none => "none"))
          | none => "bad-op"
        | _, _ => "bad-op"
      | none => "bad-op"
  | op :: r =>
    match parseIce r with
    | some (I, args) =>
      match floatsOfToks args with
      | some xs =>
        match op with
        | "index" => joinFloats (I.indexArr xs)
        | "gradient" => joinFloats (xs.map I.gradient)
        | "depth" => joinFloats (xs.map I.depthWithIndex)
        | "contains" => " ".intercalate (xs.map (fun z => if I.contains z then "1" else "0"))
        | _ => "bad-op"
      | none => "bad-op"
    | none => "bad-op"
  | _ => "bad-op"

def main : IO Unit := Proto.main1 handle
