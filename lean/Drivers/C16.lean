import PyrexVerif.Util.Proto
import PyrexVerif.F.Ice
set_option linter.unusedVariables false
/-! Driver for C16 (ice models).  Requests (floats as bit patterns, `-` = Python `None`):
`<op> n0 k a lo hi above below <args…>` with op ∈ index | gradient | depth | contains. -/
open PyrexF Proto

def optOfTok (s : String) : Option (Option Float) :=
  if s == "-" then some none else (floatOfTok s).map some

def parseIce : List String → Option (Ice × List String)
  | n0 :: k :: a :: lo :: hi :: ab :: be :: r => do
    let n0 ← floatOfTok n0; let k ← floatOfTok k; let a ← floatOfTok a
    let lo ← floatOfTok lo; let hi ← floatOfTok hi
    let ab ← optOfTok ab; let be ← optOfTok be
    pure (⟨n0, k, a, lo, hi, ab, be⟩, r)
  | _ => none

def handle (ts : List String) : String :=
  match ts with
  | op :: r =>
    match parseIce r with
    | some (I, args) =>
      match floatsOfToks args with
      | some xs =>
        match op with
        | "index" => joinFloats (I.indexArr xs)
        | "gradient" => joinFloats (xs.map I.gradient)
        | "depth" => joinFloats (xs.map I.depthWithIndex)
        | "contains" => " ".intercalate (xs.map (fun z => if I.contains z then "1" else "0"))
        | _ => "bad-op"
      | none => "bad-op"
    | none => "bad-op"
  | _ => "bad-op"

def main : IO Unit := Proto.main1 handle
