import PyrexVerif.Util.Proto
import PyrexVerif.F.Noise
set_option linter.unusedVariables false
/-! Driver for C17 (thermal noise).  Token groups separated by `|` (floats as bit patterns, `-` = `None`):

  g0  `full` | `fft`
  g1  full: `tFirst tLast fmin fmax`         fft: `nTimes t0 t1 tLast fmin fmax` (`nTimes` a plain integer)
  g2  amplitude spec: `const a` | `affine c0 c1` | `tape a…` (values returned by `np.random.rayleigh`)
  g3  `rms_voltage temperature resistance` (each a float or `-`)
  g4  uniqueness factor
  g5  phase tape (values returned by `np.random.rand`)
  g6  sample times
  reply: `freqs | amps | phases | rms | values`, or `err` when the constructor raises -/
open PyrexF PyrexF.Nz Proto

def groups (ts : List String) : List (List String) :=
  let rec go (acc : List String) (out : List (List String)) : List String → List (List String)
    | [] => (acc.reverse :: out).reverse
    | t :: r => if t == "|" then go [] (acc.reverse :: out) r else go (t :: acc) out r
  go [] [] ts

def optF (s : String) : Option (Option Float) :=
  if s == "-" then some none else (floatOfTok s).map some

def parseSpec : List String → Option AmpSpec
  | ["const", a] => (floatOfTok a).map AmpSpec.const
  | ["affine", a, b] => do let a ← floatOfTok a; let b ← floatOfTok b; pure (AmpSpec.affine a b)
  | "tape" :: r => (floatsOfToks r).map AmpSpec.tape
  | _ => none

def showBasis (B : NoiseBasis) (vals : List Float) : String :=
  " | ".intercalate [joinFloats B.freqs, joinFloats B.amps, joinFloats B.phases, tokOfFloat B.rms, joinFloats vals]

def handle (ts : List String) : String :=
  match groups ts with
  | [[op], g1, g2, [rv, tp, rs], [uq], g5, g6] =>
    match parseSpec g2, optF rv, optF tp, optF rs, floatOfTok uq, floatsOfToks g5, floatsOfToks g6 with
    | some spec, some rv, some tp, some rs, some uq, some tape, some times =>
      match op, g1 with
      | "full", [a, b, c, d] =>
        match floatsOfToks [a, b, c, d] with
        | some [tF, tL, fmin, fmax] =>
          match mkFull tF tL fmin fmax spec rv tp rs uq tape with
          | some B => showBasis B (fullValues B times)
          | none => "err"
        | _ => "bad-op"
      | "fft", [n, a, b, c, d, e] =>
        match natOfTok n, floatsOfToks [a, b, c, d, e] with
        | some n, some [t0, t1, tL, fmin, fmax] =>
          match mkFFT n t0 t1 tL fmin fmax spec rv tp rs uq tape with
          | some N => showBasis N.basis (N.values times)
          | none => "err"
        | _, _ => "bad-op"
      | _, _ => "bad-op"
    | _, _, _, _, _, _, _ => "bad-op"
  | _ => "bad-op"

def main : IO Unit := Proto.main1 handle
