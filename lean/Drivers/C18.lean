import PyrexVerif.Util.Proto
import PyrexVerif.D.LayerPaths
import PyrexVerif.F.Geom
import PyrexVerif.F.Uniform
set_option linter.unusedVariables false
/-! Driver for C18 (uniform / layered tracers).  Floats as bit patterns, `-` = Python `None`.

* `usols n lo hi above below maxref px py pz qx qy qz` → per solution `refl up theta` (floats)
* `upath n lo hi above below px py pz qx qy qz refl theta0` →
  points (3 per point), length, tof, emitted (3), received (3), then `F rs.re rs.im rp.re rp.im` or `F err`;
  `err` when the path object would raise
* `trace rho angle k {za zb nHere nNext nStop trans top bottom aboveNone belowNone}×k` → per group `r angle` (`nan` for NaN)
* `step angle two trans nHere nNext nStop top bottom aboveNone belowNone turnAtBoundary` → next angle or `nan`
* `chain px py pz qx qy qz k dr×k z×k` → the points of the chained solution
* `fresnelT n1 n2 theta` / `fresnelR n1 n2 theta` → `s.re s.im p.re p.im`
* `build maxLevel start down refl` → leaves `a,b,c|a,b` ; `potential maxLevel start stop maxRefl` → `up ; down` -/
open PyrexF PyrexF.Geo PyrexF.Uni Proto PyrexD.LayerPaths

def optOfTok (s : String) : Option (Option Float) :=
  if s == "-" then some none else (floatOfTok s).map some

def parseUIce : List String → Option (UIce × List String)
  | n :: lo :: hi :: ab :: be :: r => do
    let n ← floatOfTok n; let lo ← floatOfTok lo; let hi ← floatOfTok hi
    let ab ← optOfTok ab; let be ← optOfTok be
    pure (⟨n, lo, hi, ab, be⟩, r)
  | _ => none

def p3 (p : P3) : List Float := [p.x, p.y, p.z]
def boolOfTok (s : String) : Option Bool := if s == "1" then some true else if s == "0" then some false else none
def cx2 (c : Cx × Cx) : List Float := [c.1.re, c.1.im, c.2.re, c.2.im]
def optTok (x : Option Float) : String := match x with | some v => tokOfFloat v | none => "nan"

def pathsStr (ps : List (List Nat)) : String :=
  "|".intercalate (ps.map (fun p => ",".intercalate (p.map toString)))

/-- groups of the `trace` request: 10 tokens each -/
def parseGroups : Nat → List String → Option (List UGroup)
  | 0, [] => some []
  | k + 1, za :: zb :: nh :: nn :: ns :: tr :: tp :: bt :: an :: bn :: rest => do
    let za ← floatOfTok za; let zb ← floatOfTok zb; let nh ← floatOfTok nh; let nn ← floatOfTok nn
    let ns ← floatOfTok ns
    let tr ← boolOfTok tr; let tp ← boolOfTok tp; let bt ← boolOfTok bt
    let an ← boolOfTok an; let bn ← boolOfTok bn
    let gs ← parseGroups k rest
    pure (⟨⟨false, tr, nh, nn, ns, tp, bt, an, bn, false⟩, [za, zb]⟩ :: gs)
  | _, _ => none

def handle (ts : List String) : String :=
  match ts with
  | "usols" :: r =>
    match parseUIce r with
    | some (I, mr :: pts) =>
      match natOfTok mr, floatsOfToks pts with
      | some mr, some [px, py, pz, qx, qy, qz] =>
        joinFloats ((uniformSolutions I mr ⟨px, py, pz⟩ ⟨qx, qy, qz⟩).flatMap
          (fun s => [Float.ofNat s.refl, (if s.up then 1.0 else 0.0), s.theta]))
      | _, _ => "bad-op"
    | _ => "bad-op"
  | "upath" :: r =>
    match parseUIce r with
    | some (I, [px, py, pz, qx, qy, qz, n, th]) =>
      match floatsOfToks [px, py, pz, qx, qy, qz, th], natOfTok n with
      | some [px, py, pz, qx, qy, qz, th], some n =>
        let p : P3 := ⟨px, py, pz⟩; let q : P3 := ⟨qx, qy, qz⟩
        match uPoints I p q n th with
        | none => "err"
        | some pts =>
          joinFloats (pts.flatMap p3 ++ [pathLen pts, uTof I p.z pts] ++ p3 (uEmitted p q n pts)
            ++ p3 (uReceived p q n pts)) ++ " F " ++
          (match uFresnel I p.z pts with
           | some f => joinFloats (cx2 f)
           | none => "err")
      | _, _ => "bad-op"
    | _ => "bad-op"
  | "trace" :: rh :: ang :: k :: r =>
    match floatOfTok rh, floatOfTok ang, natOfTok k with
    | some rh, some ang, some k =>
      match parseGroups k r with
      | some gs => " ".intercalate ((traceU rh 0 ang gs).map (fun x => optTok x.1 ++ " " ++ optTok x.2))
      | none => "bad-op"
    | _, _, _ => "bad-op"
  | ["step", ang, two, tr, nh, nn, ns, tp, bt, an, bn, tb] =>
    match floatsOfToks [ang, nh, nn, ns], [two, tr, tp, bt, an, bn, tb].mapM boolOfTok with
    | some [ang, nh, nn, ns], some [two, tr, tp, bt, an, bn, tb] =>
      optTok (stepAngle ⟨two, tr, nh, nn, ns, tp, bt, an, bn, tb⟩ ang)
    | _, _ => "bad-op"
  | "chain" :: px :: py :: pz :: qx :: qy :: qz :: k :: r =>
    match floatsOfToks [px, py, pz, qx, qy, qz], natOfTok k, floatsOfToks r with
    | some [px, py, pz, qx, qy, qz], some k, some xs =>
      if xs.length = 2 * k then
        joinFloats ((chainPoints ⟨px, py, pz⟩ ⟨qx, qy, qz⟩ (xs.take k) (xs.drop k)).flatMap p3)
      else "bad-op"
    | _, _, _ => "bad-op"
  | "fresnelT" :: r =>
    match floatsOfToks r with
    | some [n1, n2, th] => joinFloats (cx2 (fresnelTransmit n1 n2 th))
    | _ => "bad-op"
  | "fresnelR" :: r =>
    match floatsOfToks r with
    | some [n1, n2, th] => joinFloats (cx2 (fresnelReflect n1 n2 th))
    | _ => "bad-op"
  | ["build", m, s, d, r] =>
    match natOfTok m, natOfTok s, boolOfTok d, natOfTok r with
    | some m, some s, some d, some r => pathsStr (buildPath m [] s d r)
    | _, _, _, _ => "bad-op"
  | ["potential", m, s, e, r] =>
    match natOfTok m, natOfTok s, natOfTok e, natOfTok r with
    | some m, some s, some e, some r =>
      let (u, d) := potentialPaths m s e r
      pathsStr u ++ " ; " ++ pathsStr d
    | _, _, _, _ => "bad-op"
  | _ => "bad-op"

def main : IO Unit := Proto.main1 handle
