import PyrexVerif.Util.Proto
import PyrexVerif.D.Detector
set_option linter.unusedVariables false
/-! Driver for C19: detector composition.  See `harness/props/C19.py` for the protocol. -/
open Det

abbrev P (α : Type) := List String → Option (α × List String)

def pNat : P Nat
  | t :: r => t.toNat?.map (·, r)
  | [] => none
def pBool : P Bool
  | "1" :: r => some (true, r)
  | "0" :: r => some (false, r)
  | _ => none
def pStr : P String
  | t :: r => some (t, r)
  | [] => none

def pMany {α : Type} (p : P α) : Nat → P (List α)
  | 0, ts => some ([], ts)
  | n+1, ts => do
    let (x, ts) ← p ts
    let (xs, ts) ← pMany p n ts
    pure (x :: xs, ts)

def pAnt : P Ant := fun ts => do
  let (i, ts) ← pNat ts
  let (h, ts) ← pBool ts
  let (m, ts) ← pBool ts
  let (a, ts) ← pBool ts
  pure (⟨i, h, m, a⟩, ts)

def pTree : Nat → P Node
  | 0, _ => none
  | f+1, "A" :: ts => do let (a, ts) ← pAnt ts; pure (.ant a, ts)
  | f+1, "L" :: ts => do
      let (n, ts) ← pNat ts
      let (xs, ts) ← pMany pAnt n ts
      pure (.lst xs, ts)
  | f+1, "D" :: ts => do
      let (tag, ts) ← pNat ts
      let (st, ts) ← pBool ts
      let (na, ts) ← pNat ts
      let (acc, ts) ← pMany pStr na ts
      let (ns, ts) ← pNat ts
      let (subs, ts) ← pMany (pTree f) ns ts
      pure (.det tag subs acc st, ts)
  | f+1, "C" :: ts => do
      let (ns, ts) ← pNat ts
      let (subs, ts) ← pMany (pTree f) ns ts
      pure (.comb subs, ts)
  | _, _ => none

/-- expressions: `T tree` | `P e e` (a + b) | `I e e` (a += b) | `S n e…` (sum) -/
def pExpr : Nat → P (Option Node)
  | 0, _ => none
  | f+1, "T" :: ts => do let (n, ts) ← pTree 64 ts; pure (if valid n || !isDetector n then some n else none, ts)
  | f+1, "P" :: ts => do
      let (a, ts) ← pExpr f ts
      let (b, ts) ← pExpr f ts
      pure ((do let a ← a; let b ← b; add a b), ts)
  | f+1, "I" :: ts => do
      let (a, ts) ← pExpr f ts
      let (b, ts) ← pExpr f ts
      pure ((do let a ← a; let b ← b; iadd a b), ts)
  | f+1, "S" :: ts => do
      let (n, ts) ← pNat ts
      let (xs, ts) ← pMany (pExpr f) n ts
      pure ((do let xs ← xs.mapM id; Det.sum xs), ts)
  | _, _ => none

def pBNode : Nat → P BNode
  | 0, _ => none
  | f+1, "F" :: ts => do
      let (t, ts) ← pNat ts
      let (k, ts) ← pNat ts
      let (ps, ts) ← pMany pStr k ts
      pure (.leaf t ps, ts)
  | f+1, "G" :: ts => do
      let (k, ts) ← pNat ts
      let (subs, ts) ← pMany (pBNode f) k ts
      pure (.comb subs, ts)
  | _, _ => none

def b2s (b : Bool) : String := if b then "1" else "0"
def antS (a : Ant) : String := s!"{a.id} {b2s a.hit} {b2s a.hitMC} {b2s a.above}"

partial def treeS : Node → String
  | .ant a => "A " ++ antS a
  | .lst xs => s!"L {xs.length}" ++ String.join (xs.map (fun a => " " ++ antS a))
  | .det t s acc st => s!"D {t} {b2s st} {acc.length}" ++ String.join (acc.map (" " ++ ·)) ++
      s!" {s.length}" ++ String.join (s.map (fun n => " " ++ treeS n))
  | .comb s => s!"C {s.length}" ++ String.join (s.map (fun n => " " ++ treeS n))

def idsS (l : List Ant) : String := " ".intercalate (l.map (toString ·.id))

def logS (l : Log) : String :=
  ";".intercalate (l.map (fun (t, kw) => s!"{t}:" ++ ",".intercalate kw))

def handle (ts : List String) : String :=
  match ts with
  | "eval" :: r =>
    match pExpr 64 r with
    | some (some n, []) => s!"ok {treeS n} | {len n} | {idsS (flatten n)}"
    | some (none, []) => "raise"
    | _ => "bad-op"
  | "getitem" :: i :: r =>
    match i.toInt?, pExpr 64 r with
    | some i, some (some n, []) =>
      match getItem n i with
      | some a => s!"ok {a.id}"
      | none => "indexerror"
    | _, some (none, []) => "raise"
    | _, _ => "bad-op"
  | "trig" :: mc :: nkw :: r =>
    match pBool [mc], nkw.toNat? with
    | some (mc, _), some nkw =>
      match pMany pStr nkw r with
      | some (kw, r) =>
        match pExpr 64 r with
        | some (some n, []) =>
          match trig 100000 n (rmt :: kw) mc with
          | (.ok b, l) => s!"ok {b2s b} | {logS l}"
          | (.fuel, _) => "fuel"
          | (_, l) => s!"typeerror | {logS l}"
        | some (none, []) => "raise"
        | _ => "bad-op"
      | none => "bad-op"
    | _, _ => "bad-op"
  | "simple" :: mc :: r =>
    match pBool [mc], pExpr 64 r with
    | some (mc, _), some (some n, []) => s!"ok {b2s (triggered mc n)}"
    | _, some (none, []) => "raise"
    | _, _ => "bad-op"
  | "iaddx" :: r =>
    -- `self += other` as executed on a CombinedDetector: accepted flag and the antennas held afterwards
    match pTree 64 r with
    | some (.comb self, r) =>
      match pTree 64 r with
      | some (other, []) =>
        let (after, ok) := iaddExec self other
        s!"{if ok then "ok" else "refused"} | {idsS (flattenL after)}"
      | _ => "bad-op"
    | _ => "bad-op"
  | "clear" :: r =>
    match pExpr 64 r with
    | some (some n, []) => s!"ok {treeS (clear n)}"
    | some (none, []) => "raise"
    | _ => "bad-op"
  | "strip" :: na :: r =>
    match na.toNat? with
    | some na =>
      match pMany pStr na r with
      | some (acc, nk :: r) =>
        match nk.toNat? with
        | some nk =>
          match pMany pStr nk r with
          | some (kw, []) =>
            match stripLoop acc (kw.length + 1) kw with
            | some k => "ok " ++ ",".intercalate k
            | none => "fuel"
          | _ => "bad-op"
        | none => "bad-op"
      | _ => "bad-op"
    | none => "bad-op"
  | "bbuild" :: r =>
    match pBNode 32 r with
    | some (n, nk :: r2) =>
      match nk.toNat? with
      | some nk =>
        match pMany pStr nk r2 with
        | some (kw, []) =>
          match bbuild n kw with
          | some res => "ok " ++ ";".intercalate (res.map (fun (t, k) => s!"{t}:" ++ ",".intercalate k))
          | none => "typeerror"
        | _ => "bad-op"
      | none => "bad-op"
    | _ => "bad-op"
  | "build" :: nsub :: r =>
    -- build <nsub> (<nparams> params…)* <nkw> kw…
    match nsub.toNat? with
    | some nsub =>
      let rec subsP : Nat → List String → Option (List (List String) × List String)
        | 0, ts => some ([], ts)
        | n+1, k :: ts => do
            let k ← k.toNat?
            let (ps, ts) ← pMany pStr k ts
            let (rest, ts) ← subsP n ts
            pure (ps :: rest, ts)
        | _, _ => none
      match subsP nsub r with
      | some (subs, nk :: r2) =>
        match nk.toNat? with
        | some nk =>
          match pMany pStr nk r2 with
          | some (kw, []) =>
            match buildRoute subs kw with
            | some res => "ok " ++ ";".intercalate (res.map (",".intercalate ·))
            | none => "typeerror"
          | _ => "bad-op"
        | none => "bad-op"
      | _ => "bad-op"
    | none => "bad-op"
  | _ => "bad-op"

def main : IO Unit := Proto.main1 handle
