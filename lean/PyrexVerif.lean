import PyrexVerif.D.Detector
import PyrexVerif.F.Header
import PyrexVerif.F.Ice
import PyrexVerif.Props.C16
import PyrexVerif.Props.C19
import PyrexVerif.R.Header
import PyrexVerif.R.Ice
import PyrexVerif.Util.Proto
