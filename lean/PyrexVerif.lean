import PyrexVerif.Util.Proto
