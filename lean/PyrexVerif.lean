import PyrexVerif.D.Detector
import PyrexVerif.F.Ice
import PyrexVerif.Props.C19
import PyrexVerif.R.Ice
import PyrexVerif.Util.Proto
