/-!
# Antenna / antenna-system hit bookkeeping (property C09) — discrete model of
`pyrex/antenna.py` (`Antenna`) and `pyrex/detector.py` (`AntennaSystem`)

Times and values are exact rationals (`Rat`, core Lean).  A `Wave` is a `Signal`: its sample points
`(time, value)` in order.  `interp0` is `np.interp(x, xp, fp, left=0, right=0)` for strictly increasing
`xp` (piecewise linear, zero outside the span).  `withTimes` is `Signal.with_times`.

Modelling decisions (validated by the exact differential run in `harness/props/C09.py`):
* `EmptySignal.with_times` (zeros) and `FunctionSignal.with_times` (re-evaluation of the noise function)
  are modelled by the same `withTimes` re-gridding as `Signal.with_times`; they only ever re-grid onto
  a subset of their own sample points, where interpolation is exact (`Proofs/AntennaSM.interp0_own`).
* the antenna's noise master is a function of absolute time: `cfg.noise epoch t`.  `master = none`
  is `_noise_master is None`; a new master takes the next unused epoch (`nextEpoch`), which is how a
  fresh random realisation is modelled.
* the catch-up `while len(cache) < len(signals)` loops are written as a `map` over the signals not yet
  processed (`signals.drop cache.length`); the received list does not change inside the loop.
* definitions are totalised with `getD 0` for grids with fewer than two points; the real code raises
  `IndexError` there.  The driver rejects such requests (`bad-op`), the theorems that depend on the
  grid assume `WF`.
Core Lean only (imported by the driver).
-/
namespace Ant

abbrev Time := Rat
abbrev Val := Rat
/-- a `Signal`: sample points `(times[i], values[i])` -/
abbrev Wave := List (Time × Val)

def timesOf (w : Wave) : List Time := w.map (·.1)
def valsOf (w : Wave) : List Val := w.map (·.2)

/-- `np.interp` for `xp[0] ≤ x`: linear scan for the interval containing `x`; `right = 0` -/
def interpFrom : Wave → Time → Val
  | [], _ => 0
  | [(x0, y0)], x => if x = x0 then y0 else 0
  | (x0, y0) :: (x1, y1) :: rest, x =>
      if x < x1 then y0 + (y1 - y0) / (x1 - x0) * (x - x0)
      else interpFrom ((x1, y1) :: rest) x

/-- `np.interp(x, w.times, w.values, left=0, right=0)` -/
def interp0 (w : Wave) (x : Time) : Val :=
  match w with
  | [] => 0
  | (x0, _) :: _ => if x < x0 then 0 else interpFrom w x

/-- `Signal.with_times(new_times)` -/
def withTimes (w : Wave) (ts : List Time) : Wave := ts.map (fun t => (t, interp0 w t))

/-- `EmptySignal(times)` -/
def zeroW (ts : List Time) : Wave := ts.map (fun t => (t, 0))

/-- `a + b` for signals on the same grid (the implementation raises when the grids differ; every
addition below is on one grid by construction) -/
def addW (a b : Wave) : Wave := List.zipWith (fun p q => (p.1, p.2 + q.2)) a b

def firstT (w : Wave) : Time := (w.head?.map (·.1)).getD 0
def lastT (w : Wave) : Time := (w.getLast?.map (·.1)).getD 0

/-- `signal.times[-1] - signal.times[0]` -/
def span (w : Wave) : Rat := lastT w - firstT w

/-- `max(span(s) for s in signals)` if there are signals, else `0` -/
def maxSpan : List Wave → Rat
  | [] => 0
  | s :: r => r.foldl (fun m x => max m (span x)) (span s)

/-- Python `int(q)` : truncation toward zero -/
def pyTrunc (q : Rat) : Int := if 0 ≤ q then q.floor else -((-q).floor)

/-- `n_pts = int(L/dt); if L % dt: n_pts += 1`  (`L % dt = L - dt*floor(L/dt)` for `dt > 0`) -/
def nPts (L dt : Rat) : Int :=
  pyTrunc (L / dt) + (if L - dt * ((L / dt).floor : Int) = 0 then 0 else 1)

/-- `np.concatenate((times[0]+linspace(-n*dt,0,n,endpoint=False), times, times[-1]+linspace(0,n*dt,n+1)[1:]))` -/
def longTimes (ts : List Time) (n : Nat) (dt : Rat) : List Time :=
  let t0 := ts.head?.getD 0
  let t1 := ts.getLast?.getD 0
  (List.range n).map (fun (k : Nat) => t0 + (-(n : Rat) * dt + (k : Rat) * dt)) ++ ts ++
    (List.range n).map (fun (k : Nat) => t1 + ((k + 1 : Nat) : Rat) * dt)

/-- the `times[1] - times[0]` of `full_waveform` and `_calculate_lead_in_times` -/
def dtOf (ts : List Time) : Rat := ts[1]?.getD 0 - ts[0]?.getD 0

/-- a grid the implementation can work with: at least two points, strictly increasing -/
def WF (ts : List Time) : Prop := 2 ≤ ts.length ∧ ts.Pairwise (· < ·)
instance (ts : List Time) : Decidable (WF ts) := by unfold WF; exact inferInstance

/-- configuration of an antenna: `noisy`, the `trigger` method, the (patched) noise realisations -/
structure Cfg where
  noisy : Bool
  trig  : Wave → Bool
  noise : Nat → Time → Val

/-- value of the noise waveform of `full_waveform` at absolute time `t` -/
def noiseVal (cfg : Cfg) (m : Option Nat) (t : Time) : Val :=
  if cfg.noisy then (match m with | some e => cfg.noise e t | none => 0) else 0

/-- the skip test of `full_waveform` -/
def skipped (s : Wave) (lo hi : Time) : Bool := decide (lastT s < lo) || decide (firstT s > hi)

/-- `Antenna.full_waveform(times)` with the noise master `m` already in place -/
def fullWave (cfg : Cfg) (m : Option Nat) (sigs : List Wave) (ts : List Time) : Wave :=
  let dt := dtOf ts
  let n := (nPts (maxSpan sigs) dt).toNat
  let long := longTimes ts n dt
  let w0 : Wave := long.map (fun t => (t, noiseVal cfg m t))     -- make_noise(long) / EmptySignal(long)
  let lo := long.head?.getD 0
  let hi := long.getLast?.getD 0
  let w := sigs.foldl (fun w s => if skipped s lo hi then w else addW w (withTimes s long)) w0
  withTimes w ts

/-! ### inputs the implementation rejects (it raises; the totalised definitions above must not be read there) -/

/-- `Antenna.full_waveform(times)` raises: `IndexError` for a window of fewer than two samples (`times[1]`)
or an empty received signal (`signal.times[-1]`); `OverflowError`/`ValueError` when `times[1] == times[0]`
(division by zero); `ValueError` from `np.linspace` when the number of padding samples comes out negative
(a window or the longest signal running backwards in time). -/
def fullWaveRejects (sigs : List Wave) (ts : List Time) : Bool :=
  decide (ts.length < 2) || sigs.any (·.isEmpty) || decide (dtOf ts = 0) ||
  decide (nPts (maxSpan sigs) (dtOf ts) < 0)

/-- `all_waveforms` / `waveforms` / `is_hit` call `full_waveform(s.times)` for every received signal -/
def allWavesRejects (sigs : List Wave) : Bool := sigs.any (fun s => fullWaveRejects sigs (timesOf s))

/-! ## the antenna state machine -/
structure State where
  signals   : List Wave
  allWaves  : List Wave
  triggers  : List Bool
  master    : Option Nat        -- `_noise_master` (its epoch)
  nextEpoch : Nat               -- number of noise masters created so far
deriving Repr

def init : State := ⟨[], [], [], none, 0⟩

inductive Op
  | recv (s : Wave)
  | qAll
  | qWaves
  | qHit
  | qFull (ts : List Time)
  | qHitDuring (ts : List Time)
  | makeNoise (ts : List Time)
  | clear (reset : Bool)
  | qHitMC                        -- `is_hit_mc_truth`

inductive Out
  | unit
  | waves (ws : List Wave)
  | wave (w : Wave)
  | flag (b : Bool)
deriving Repr, DecidableEq

/-- `make_noise` creates the master on first use -/
def touch (st : State) : State :=
  match st.master with
  | some _ => st
  | none => { st with master := some st.nextEpoch, nextEpoch := st.nextEpoch + 1 }

/-- the cache refresh shared (textually) by `Antenna.all_waveforms` and `AntennaSystem.all_waveforms`
(repaired semantics, F10): drop the caches when the number of signals grew, then catch up.
`full` is the `full_waveform` in force during the loop. -/
def catchAll (full : List Time → Wave) (sigs aw : List Wave) (tr : List Bool) : List Wave × List Bool :=
  let c : List Wave × List Bool :=
    if 0 < aw.length ∧ aw.length < sigs.length then ([], []) else (aw, tr)
  (c.1 ++ (sigs.drop c.1.length).map (fun s => full (timesOf s)), c.2)

/-- the unrepaired loop (before F10): no reset -/
def catchAllOld (full : List Time → Wave) (sigs aw : List Wave) (tr : List Bool) : List Wave × List Bool :=
  (aw ++ (sigs.drop aw.length).map (fun s => full (timesOf s)), tr)

/-- `while len(self._triggers) < len(all_waves): self._triggers.append(self.trigger(...))` -/
def catchTrig (trig : Wave → Bool) (aw : List Wave) (tr : List Bool) : List Bool :=
  tr ++ (aw.drop tr.length).map trig

/-- `[wave for wave, triggered in zip(all_waves, self._triggers) if triggered]` -/
def triggeredOf (aw : List Wave) (tr : List Bool) : List Wave :=
  ((aw.zip tr).filter (·.2)).map (·.1)

/-- will the catch-up loop of `all_waveforms` call `full_waveform` at least once? -/
def needsFull (sigs aw : List Wave) : Bool := decide (aw.length < sigs.length)

def refreshAllWith (old : Bool) (cfg : Cfg) (st : State) : State :=
  let st1 := if cfg.noisy && needsFull st.signals st.allWaves then touch st else st
  let r := (if old then catchAllOld else catchAll)
    (fullWave cfg st1.master st1.signals) st1.signals st1.allWaves st1.triggers
  { st1 with allWaves := r.1, triggers := r.2 }

def refreshAll := refreshAllWith false

def refreshTrig (cfg : Cfg) (st : State) : State :=
  { st with triggers := catchTrig cfg.trig st.allWaves st.triggers }

/-- what `make_noise(times)` returns for the realisation `e` -/
def noiseWave (cfg : Cfg) (e : Nat) (ts : List Time) : Wave := ts.map (fun t => (t, cfg.noise e t))

def stepWith (old : Bool) (cfg : Cfg) (st : State) : Op → State × Out
  | .recv s => ({ st with signals := st.signals ++ [s] }, .unit)
  | .qAll => let st' := refreshAllWith old cfg st; (st', .waves st'.allWaves)
  | .qWaves =>
      let st' := refreshTrig cfg (refreshAllWith old cfg st)
      (st', .waves (triggeredOf st'.allWaves st'.triggers))
  | .qHit =>
      let st' := refreshTrig cfg (refreshAllWith old cfg st)
      (st', .flag (decide (0 < (triggeredOf st'.allWaves st'.triggers).length)))
  | .qFull ts =>
      let st' := if cfg.noisy then touch st else st
      (st', .wave (fullWave cfg st'.master st'.signals ts))
  | .qHitDuring ts =>
      let st' := if cfg.noisy then touch st else st
      (st', .flag (cfg.trig (fullWave cfg st'.master st'.signals ts)))
  | .makeNoise ts =>
      let st' := touch st
      (st', .wave (ts.map (fun t => (t, cfg.noise (st'.master.getD 0) t))))
  | .clear reset =>
      ({ signals := [], allWaves := [], triggers := [],
         master := if reset then none else st.master, nextEpoch := st.nextEpoch }, .unit)
  | .qHitMC =>
      -- `if not self.noisy: return self.is_hit`; otherwise: some triggered waveform whose noise alone
      -- (over the same times) would not have triggered
      let st' := refreshTrig cfg (refreshAllWith old cfg st)
      let ws := triggeredOf st'.allWaves st'.triggers
      if cfg.noisy then
        let st'' := if ws.isEmpty then st' else touch st'         -- `make_noise` is called iff there is a waveform
        (st'', .flag (ws.any (fun w => !cfg.trig (noiseWave cfg (st''.master.getD 0) (timesOf w)))))
      else (st', .flag (decide (0 < ws.length)))

/-- the code as it is now (with repair F10) -/
def step := stepWith false
/-- the code before F10 -/
def stepOld := stepWith true

def run (cfg : Cfg) (ops : List Op) : State := ops.foldl (fun st op => (step cfg st op).1) init
def runOld (cfg : Cfg) (ops : List Op) : State := ops.foldl (fun st op => (stepOld cfg st op).1) init

/-! ## the antenna system (`AntennaSystem`) -/

/-- `_calculate_lead_in_times(times)` ; `none` when `np.linspace` would be asked for a negative
number of points (it raises `ValueError`) -/
def leadInN (lead : Rat) (ts : List Time) : Int :=
  let t0 := ts[0]?.getD 0
  let tmin := t0 - lead
  let tmax := ts.getLast?.getD 0
  let dt := dtOf ts
  pyTrunc ((tmax - tmin) / dt) + 2 - (ts.length : Int)

def leadInTimes (lead : Rat) (ts : List Time) : List Time :=
  let t0 := ts[0]?.getD 0
  let dt := dtOf ts
  let n := leadInN lead ts
  let tmin := t0 - (n : Rat) * dt
  let step := (t0 - tmin) / (n : Rat)          -- np.linspace(t_min, t0, n_pts, endpoint=False)
  (List.range n.toNat).map (fun (k : Nat) => tmin + (k : Rat) * step) ++ ts

/-- `_calculate_lead_in_times(times)` raises: `IndexError` below two samples, division by zero for
`times[1] == times[0]`, `ValueError` from `np.linspace` for a negative number of lead-in samples -/
def leadInRejects (lead : Rat) (ts : List Time) : Bool :=
  decide (ts.length < 2) || decide (dtOf ts = 0) || decide (leadInN lead ts < 0)

structure SysCfg where
  ant    : Cfg
  leadIn : Rat
  fe     : Wave → Wave            -- `front_end`
  trig   : Wave → Bool            -- `AntennaSystem.trigger` (default: the antenna's)

structure SysState where
  ant      : State
  sigs     : List Wave            -- `_signals`
  allWaves : List Wave
  triggers : List Bool
deriving Repr

def sysInit : SysState := ⟨init, [], [], []⟩

/-- `AntennaSystem.full_waveform(times)` -/
def sysFull (c : SysCfg) (m : Option Nat) (sigs : List Wave) (ts : List Time) : Wave :=
  withTimes (c.fe (fullWave c.ant m sigs (leadInTimes c.leadIn ts))) ts

/-- `AntennaSystem.make_noise(times)` for the realisation `e` -/
def sysNoise (c : SysCfg) (e : Nat) (ts : List Time) : Wave :=
  withTimes (c.fe ((leadInTimes c.leadIn ts).map (fun t => (t, c.ant.noise e t)))) ts

/-- one pass of the loop body of the `signals` property -/
def procSig (c : SysCfg) (s : Wave) : Wave :=
  withTimes (c.fe (withTimes s (leadInTimes c.leadIn (timesOf s)))) (timesOf s)

inductive SysOp
  | recv (s : Wave)
  | qSignals
  | qAll
  | qWaves
  | qHit
  | qFull (ts : List Time)
  | qHitDuring (ts : List Time)
  | makeNoise (ts : List Time)
  | clear (reset : Bool)
  | inner (op : Op)               -- a query made directly on `system.antenna`
  | qHitMC                        -- `AntennaSystem.is_hit_mc_truth` (no `noisy` shortcut)

def sysRefreshAll (c : SysCfg) (st : SysState) : SysState :=
  let a1 := if c.ant.noisy && needsFull st.ant.signals st.allWaves then touch st.ant else st.ant
  let r := catchAll (sysFull c a1.master a1.signals) a1.signals st.allWaves st.triggers
  { st with ant := a1, allWaves := r.1, triggers := r.2 }

def sysRefreshTrig (c : SysCfg) (st : SysState) : SysState :=
  { st with triggers := catchTrig c.trig st.allWaves st.triggers }

/-- inner operations allowed on `system.antenna`: queries only -/
def isQuery : Op → Bool
  | .recv _ => false
  | .clear _ => false
  | _ => true

def sysStep (c : SysCfg) (st : SysState) : SysOp → SysState × Out
  | .recv s => ({ st with ant := (step c.ant st.ant (.recv s)).1 }, .unit)
  | .qSignals =>
      let sg := st.sigs ++ (st.ant.signals.drop st.sigs.length).map (procSig c)
      ({ st with sigs := sg }, .waves sg)
  | .qAll => let st' := sysRefreshAll c st; (st', .waves st'.allWaves)
  | .qWaves =>
      let st' := sysRefreshTrig c (sysRefreshAll c st)
      (st', .waves (triggeredOf st'.allWaves st'.triggers))
  | .qHit =>
      let st' := sysRefreshTrig c (sysRefreshAll c st)
      (st', .flag (decide (0 < (triggeredOf st'.allWaves st'.triggers).length)))
  | .qFull ts =>
      let a := if c.ant.noisy then touch st.ant else st.ant
      ({ st with ant := a }, .wave (sysFull c a.master a.signals ts))
  | .qHitDuring ts =>
      let a := if c.ant.noisy then touch st.ant else st.ant
      ({ st with ant := a }, .flag (c.trig (sysFull c a.master a.signals ts)))
  | .makeNoise ts =>
      let a := touch st.ant
      let long := leadInTimes c.leadIn ts
      ({ st with ant := a },
       .wave (withTimes (c.fe (long.map (fun t => (t, c.ant.noise (a.master.getD 0) t)))) ts))
  | .clear reset =>
      ({ ant := (step c.ant st.ant (.clear reset)).1, sigs := [], allWaves := [], triggers := [] }, .unit)
  | .qHitMC =>
      let st' := sysRefreshTrig c (sysRefreshAll c st)
      let ws := triggeredOf st'.allWaves st'.triggers
      let a := if ws.isEmpty then st'.ant else touch st'.ant
      ({ st' with ant := a },
       .flag (ws.any (fun w => !c.trig (sysNoise c (a.master.getD 0) (timesOf w)))))
  | .inner op =>
      if isQuery op then
        let r := step c.ant st.ant op
        ({ st with ant := r.1 }, r.2)
      else (st, .unit)

def sysRun (c : SysCfg) (ops : List SysOp) : SysState :=
  ops.foldl (fun st op => (sysStep c st op).1) sysInit

/-! ## concrete components used by the driver and by the non-vacuity examples -/

def absR (v : Rat) : Rat := if v < 0 then -v else v

/-- `DipoleAntenna.trigger`: `max(np.abs(signal.values)) > threshold` -/
def thrTrig (thr : Rat) (w : Wave) : Bool :=
  decide (thr < (valsOf w).foldl (fun m v => max m (absR v)) 0)

/-- `Antenna.trigger` -/
def alwaysTrig (_ : Wave) : Bool := true

/-- the deterministic noise class the harness patches in: realisation `e` at absolute time `t` -/
def detNoise (e : Nat) (t : Time) : Val :=
  ((((2 * t).floor * (2 * (e : Int) + 3) + 5 * (e : Int)) % 7 - 3 : Int) : Rat) / 2

/-- the halving front end (`signal * 0.5`) and the pass-through default -/
def halfFe (w : Wave) : Wave := w.map (fun p => (p.1, p.2 * (1 / 2)))
def idFe (w : Wave) : Wave := w
/-- pedestal subtraction with the first sample of what the front end is given: `out[k] = in[k] - in[0]`
(a front end whose output depends on where its input window starts, i.e. on the lead-in) -/
def baseFe (w : Wave) : Wave := w.map (fun p => (p.1, p.2 - (w.head?.map (·.2)).getD 0))
/-- amplifier clipping at ±1 (`np.clip`), as in the shipped ARA / ARIANNA front ends: NOT additive -/
def clipFe (w : Wave) : Wave := w.map (fun p => (p.1, max (-1) (min 1 p.2)))
/-- rectifier (envelope-like, as in the IREX front end): NOT additive -/
def absFe (w : Wave) : Wave := w.map (fun p => (p.1, absR p.2))
/-- one-sample echo: `out[k] = in[k] + in[k-1]/2`, `in[-1] = 0` -/
def echoFe (w : Wave) : Wave :=
  List.zipWith (fun p prev => (p.1, p.2 + prev * (1 / 2))) w (0 :: valsOf w)

end Ant
