/-!
# Detector composition (property C19) — discrete model of `pyrex/detector.py`

`Node` is the object graph below a detector:
* `ant`  : an antenna-like object (not iterable): id, `is_hit`, `is_hit_mc_truth`, sign-relevant height
* `lst`  : a plain Python list of antennas
* `det`  : an instance of a `Detector` subclass (identified by `tag`) with its `subsets`; `accepts`
           are the keyword names its `triggered` method accepts, `star` says it takes `**kwargs`
           (the default `Detector.triggered` does)
* `comb` : a `CombinedDetector`

Core Lean only (this file is imported by the driver).
-/
namespace Det

structure Ant where
  id    : Nat
  hit   : Bool
  hitMC : Bool
  above : Bool          -- position[2] > 0
deriving DecidableEq, Repr

inductive Node
  | ant  (a : Ant)
  | lst  (xs : List Ant)
  | det  (tag : Nat) (subs : List Node) (accepts : List String) (star : Bool)
  | comb (subs : List Node)
deriving Repr

/-! ## `flatten(self.subsets)` : `__iter__`, `__len__`, `__getitem__` -/
mutual
def flatten : Node → List Ant
  | .ant a => [a]
  | .lst xs => xs
  | .det _ s _ _ => flattenL s
  | .comb s => flattenL s
def flattenL : List Node → List Ant
  | [] => []
  | n :: r => flatten n ++ flattenL r
end

def len (n : Node) : Nat := (flatten n).length
def getItem (n : Node) (i : Int) : Option Ant :=
  let l := flatten n
  if 0 ≤ i then l[i.toNat]? else
    if (-i).toNat ≤ l.length then l[l.length - (-i).toNat]? else none

def isDetector : Node → Bool
  | .det .. => true
  | .comb _ => true
  | _ => false

/-- `_test_positions`: no antenna above the surface -/
def valid (n : Node) : Bool := (flatten n).all (fun a => !a.above)

/-! ## combination: `+`, reflected `+`, `+=`, `sum` -/

/-- `CombinedDetector(*subs)` runs `_test_positions` -/
def mkComb (subs : List Node) : Option Node :=
  if valid (.comb subs) then some (.comb subs) else none

/-- Python's `a + b` (binary-operator dispatch included): `none` = an exception
(`TypeError` when no detector is involved, `ValueError` from the position test). -/
def add (a b : Node) : Option Node :=
  match a, b with
  | .comb sa, .comb sb => mkComb (sa ++ sb)           -- CombinedDetector.__add__, other combined
  | .comb sa, _        => mkComb (sa ++ [b])          -- CombinedDetector.__add__
  | .det .., _         => mkComb [a, b]               -- Detector.__add__
  | _, .comb sb        => mkComb (a :: sb)            -- CombinedDetector.__radd__, other not combined
  | _, .det ..         => mkComb [a, b]               -- Detector.__radd__
  | .lst xs, .lst ys   => some (.lst (xs ++ ys))      -- plain Python list concatenation
  | _, _               => none

/-- `a += b` : in place for a `CombinedDetector`, otherwise falls back to `a = a + b` -/
def iadd (a b : Node) : Option Node :=
  match a, b with
  | .comb sa, .comb sb => mkComb (sa ++ sb)
  | .comb sa, _        => mkComb (sa ++ [b])
  | _, _               => add a b                     -- incl. `list += list` (extend)

/-- `CombinedDetector.__iadd__` AS EXECUTED on the object's subset list: the new subsets are appended, the
positions are tested, and (repair F23) a refusal removes them again before re-raising.  Result: the
subset list afterwards and whether the call was accepted. -/
def appendOther (self : List Node) (other : Node) : List Node :=
  match other with
  | .comb s => self ++ s
  | o => self ++ [o]

def iaddExec (self : List Node) (other : Node) : List Node × Bool :=
  if valid (.comb (appendOther self other)) then (appendOther self other, true) else (self, false)

/-- the pre-repair statement order: append, test, raise - the appended subsets stay -/
def iaddExecPre (self : List Node) (other : Node) : List Node × Bool :=
  (appendOther self other, valid (.comb (appendOther self other)))

/-- `sum(xs)` = `((0 + x₁) + x₂) + …`; `0 + x` is `x.__radd__(0)`, only detectors have it -/
def sum : List Node → Option Node
  | [] => none            -- the integer 0, not a detector
  | x :: r => if isDetector x then r.foldlM add x else none

/-! ## triggers -/
def hitOf (mc : Bool) (a : Ant) : Bool := if mc then a.hitMC else a.hit

/-- the keyword-stripping loop of `CombinedDetector.triggered`: one unexpected keyword is removed
per failed call; `fuel` bounds the number of iterations -/
def stripLoop (accepts : List String) : Nat → List String → Option (List String)
  | 0, _ => none
  | fuel+1, kw =>
    match kw.find? (fun k => !accepts.contains k) with
    | none => some kw
    | some bad => stripLoop accepts fuel (kw.filter (· ≠ bad))

/-- keywords a sub-detector's `triggered` is finally called with -/
def passed (accepts : List String) (star : Bool) (kw : List String) : List String :=
  if star then kw else kw.filter (accepts.contains ·)

/-- Result of `triggered(require_mc_truth=mc, **kw)`.
A `det` node evaluates the any-hit rule over its antennas, by MC truth only if the flag reached it.
`sameSig` : all sub-detectors' `triggered` signatures are identical (arguments passed straight down;
the harness only uses keywords every sub accepts in that case). -/
def detMC (accepts : List String) (star : Bool) (mc : Bool) : Bool :=
  mc && (star || accepts.contains "require_mc_truth")

mutual
def triggered (mc : Bool) : Node → Bool
  | .ant a => hitOf mc a
  | .lst xs => xs.any (hitOf mc)
  | .det _ s acc star => (flattenL s).any (hitOf (detMC acc star mc))
  | .comb s => triggeredL mc s
def triggeredL (mc : Bool) : List Node → Bool
  | [] => false
  | n :: r => triggered mc n || triggeredL mc r
end

/-- `clear()` : every antenna is cleared (hit flags go false) -/
def clearAnt (a : Ant) : Ant := { a with hit := false, hitMC := false }
mutual
def clear : Node → Node
  | .ant a => .ant (clearAnt a)
  | .lst xs => .lst (xs.map clearAnt)
  | .det t s acc st => .det t (clearL s) acc st
  | .comb s => .comb (clearL s)
def clearL : List Node → List Node
  | [] => []
  | n :: r => clear n :: clearL r
end


/-! ## exact call semantics of `CombinedDetector.triggered` with keyword arguments

`trig` follows the code statement by statement, including `TypeError` propagation out of nested
calls and the retry loop; it is what the driver runs.  `fuel` bounds the recursion depth (every
recursive call and every retry consumes one unit); the driver supplies far more than any generated
tree needs and reports `fuel` if it ever runs out. -/
def rmt : String := "require_mc_truth"

inductive R
  | ok (b : Bool)
  | badKw (k : String)     -- TypeError "... got an unexpected keyword argument 'k'"
  | err                    -- any other TypeError
  | fuel
deriving Repr, DecidableEq

abbrev Log := List (Nat × List String)

/-- signature of `triggered` as `inspect.signature` sees it; all combined detectors share one, and a
`Detector` subclass that keeps the default `(*args, require_mc_truth=False, **kwargs)` has the same -/
def sigOf : Node → Option (Option (List String × Bool))
  | .det _ _ acc st => if st && acc.isEmpty then some none else some (some (acc, st))
  | .comb _ => some none
  | _ => none

def sameSig (subs : List Node) : Bool :=
  match subs.filterMap sigOf with
  | [] => false
  | s :: r => r.all (· == s)

/-- the per-comb context that stays fixed while its subsets are visited -/
structure Ctx where
  kwargs : List String
  mc     : Bool
  same   : Bool

mutual
/-- `node.triggered(**kw)` where `mc` is the value bound to `require_mc_truth` if `kw` contains it -/
def trig : Nat → Node → List String → Bool → R × Log
  | 0, _, _, _ => (.fuel, [])
  | _+1, .ant a, _, mc => (.ok (hitOf mc a), [])
  | _+1, .lst xs, _, mc => (.ok (xs.any (hitOf mc)), [])
  | _+1, .det tag s acc st, kw, mc =>
      match (if st then none else kw.find? (fun k => !acc.contains k)) with
      | some k => (.badKw k, [])
      | none => (.ok ((flattenL s).any (hitOf (mc && kw.contains rmt))), [(tag, kw)])
  | f+1, .comb subs, kw, mc =>
      go f ⟨kw.filter (· ≠ rmt) ++ [rmt], mc && kw.contains rmt, sameSig subs⟩ subs []
/-- the `for sub in self.subsets` loop with short-circuit on the first `True` -/
def go : Nat → Ctx → List Node → Log → R × Log
  | 0, _, _, log => (.fuel, log)
  | _+1, _, [], log => (.ok false, log)
  | f+1, c, sub :: rest, log =>
      match sub with
      | .ant a => if hitOf c.mc a then (.ok true, log) else go f c rest log
      | .lst xs => if xs.any (hitOf c.mc) then (.ok true, log) else go f c rest log
      | _ =>
        if c.same then
          match trig f sub c.kwargs c.mc with
          | (.ok true, l) => (.ok true, log ++ l)
          | (.ok false, l) => go f c rest (log ++ l)
          | (e, l) => (e, log ++ l)
        else
          match retry f c sub c.kwargs log with
          | (.ok true, l) => (.ok true, l)
          | (.ok false, l) => go f c rest l
          | (e, l) => (e, l)
/-- the `while True` loop: strip one offending keyword per failed call -/
def retry : Nat → Ctx → Node → List String → Log → R × Log
  | 0, _, _, _, log => (.fuel, log)
  | f+1, c, sub, k, log =>
      match trig f sub k c.mc with
      | (.ok b, l) => (.ok b, log ++ l)
      | (.badKw bad, l) =>
          let k' := k.filter (· ≠ bad)
          if k' == k then (.err, log ++ l) else retry f c sub k' (log ++ l)
      | (e, l) => (e, log ++ l)
end


/-! ## keyword routing of `Detector.build_antennas` for a detector made of sub-detectors

Each sub-detector is represented by the parameter names of its own `build_antennas`.  If all
signatures are identical the arguments are passed straight down (a keyword a sub does not accept is
then a `TypeError`, `none`); otherwise each sub is called with the keywords whose names are
parameters of its `build_antennas`. -/
def buildRoute (subs : List (List String)) (kw : List String) : Option (List (List String)) :=
  match subs with
  | [] => some []
  | p :: r =>
    if r.all (· == p) then
      if kw.all (p.contains ·) then some (subs.map (fun _ => kw)) else none
    else some (subs.map (fun q => kw.filter (q.contains ·)))


/-! ## nested keyword routing of `build_antennas`

`BNode` is the build view of a detector: a `leaf` overrides `build_antennas` with explicit parameters;
a `comb` (a `CombinedDetector`, or a `Detector` subclass made of sub-detectors) keeps the default one.
`_mirror_build_function` makes a `comb` ADVERTISE the signature its sub-detectors share (`some ps`);
when they differ it keeps the generic `(*args, **kwargs)` (`none`).  A parent whose sub-detectors
advertise different signatures passes each one only the keywords that are parameters of ITS advertised
signature — for a generic signature these are none (the names `args`/`kwargs` aside).  The mirroring
wrapper itself does not validate its arguments; a `TypeError` can only come from a leaf. -/
inductive BNode
  | leaf (tag : Nat) (params : List String)
  | comb (subs : List BNode)
deriving Repr

mutual
def bsig : BNode → Option (List String)
  | .leaf _ ps => some ps
  | .comb subs => match bsigL subs with
      | [] => none
      | s :: r => if r.all (· == s) then s else none
def bsigL : List BNode → List (Option (List String))
  | [] => []
  | n :: r => bsig n :: bsigL r
end

def sigsMatch : List (Option (List String)) → Bool
  | [] => true
  | s :: r => r.all (· == s)

def keepKw (sig : Option (List String)) (kw : List String) : List String :=
  match sig with
  | some ps => kw.filter (ps.contains ·)
  | none => []

mutual
/-- which leaf receives which keywords (in call order); `none` = `TypeError` -/
def bbuild : BNode → List String → Option (List (Nat × List String))
  | .leaf t ps, kw => if kw.all (ps.contains ·) then some [(t, kw)] else none
  | .comb subs, kw => bbuildL subs (sigsMatch (bsigL subs)) kw
def bbuildL : List BNode → Bool → List String → Option (List (Nat × List String))
  | [], _, _ => some []
  | n :: r, same, kw =>
      match bbuild n (if same then kw else keepKw (bsig n) kw) with
      | none => none
      | some a => match bbuildL r same kw with
          | none => none
          | some b => some (a ++ b)
end

mutual
def bleaves : BNode → List Nat
  | .leaf t _ => [t]
  | .comb s => bleavesL s
def bleavesL : List BNode → List Nat
  | [] => []
  | n :: r => bleaves n ++ bleavesL r
end

-- every leaf below `n` has the parameter list `ps`
mutual
def uniformB (ps : List String) : BNode → Bool
  | .leaf _ qs => qs == ps
  | .comb s => !s.isEmpty && uniformBL ps s
def uniformBL (ps : List String) : List BNode → Bool
  | [] => true
  | n :: r => uniformB ps n && uniformBL ps r
end

end Det
