/-!
# Event tree (`pyrex/particle.py`: `Event`) — discrete model, core Lean only

Particles are natural-number identities (Python object identity).  All fields are VALUES: the event owns its
`roots` (the code copies the caller's list since F24 and hands out a copy at level 0), so nothing a caller does to a
list it passed in or got back can change the event.  `all` is `Event._all` (insertion
order), `children[i]` is `Event._children[i]`: indices into `all`.
-/
namespace PyrexD.Tree

structure Ev where
  roots : List Nat
  all : List Nat
  children : List (List Nat)
deriving Repr, DecidableEq

/-- `Event.__init__(roots)` -/
def init (roots : List Nat) : Ev := ⟨roots, roots, roots.map (fun _ => [])⟩

/-- `Event.add_children(parent, children)`; `none` = `ValueError` (parent not in the tree).
`self._all.index(parent)` is the first occurrence. -/
def addChildren (e : Ev) (parent : Nat) (cs : List Nat) : Option Ev :=
  match e.all.idxOf? parent with
  | none => none
  | some pi =>
    some { roots := e.roots
           all := e.all ++ cs
           children := (e.children ++ cs.map (fun _ => [])).modify pi
                         (· ++ (List.range cs.length).map (· + e.all.length)) }

/-- `Event.get_children(parent)` -/
def getChildren (e : Ev) (parent : Nat) : Option (List Nat) :=
  match e.all.idxOf? parent with
  | none => none
  | some pi => some ((e.children.getD pi []).filterMap (fun i => e.all[i]?))

/-- first `parent_index` whose child list contains `ci` -/
def findParentIdx (ci : Nat) : List (List Nat) → Nat → Option Nat
  | [], _ => none
  | l :: rest, k => if l.contains ci then some k else findParentIdx ci rest (k + 1)

/-- `Event.get_parent(child)`: outer `none` = `ValueError`, inner `none` = Python `None` (a root) -/
def getParent (e : Ev) (child : Nat) : Option (Option Nat) :=
  match e.all.idxOf? child with
  | none => none
  | some ci =>
    match findParentIdx ci e.children 0 with
    | none => some none
    | some pi => some e.all[pi]?

/-- `Event.get_from_level(level)`; `none` = `ValueError` raised by a `get_children` call -/
def fromLevel (e : Ev) : Nat → Option (List Nat)
  | 0 => some e.roots
  | n + 1 =>
    match fromLevel e n with
    | none => none
    | some prev => prev.foldlM (fun acc p => (getChildren e p).map (acc ++ ·)) []

/-- `Event.__iter__` -/
def iter (e : Ev) : List Nat := e.all

def len (e : Ev) : Nat := e.all.length

/-- an `add_children` history applied to an initial event; `none` as soon as one call raises -/
def build (roots : List Nat) (ops : List (Nat × List Nat)) : Option Ev :=
  ops.foldlM (fun e op => addChildren e op.1 op.2) (init roots)

/-- index-level well-formedness: one child list per particle; the roots are the first particles; the
child lists together hold every non-root index exactly once (a permutation of
`[#roots, #all)`); a child index comes after its parent's index -/
structure WellFormed (e : Ev) : Prop where
  lenEq : e.children.length = e.all.length
  rootsPrefix : e.all.take e.roots.length = e.roots
  rootsLe : e.roots.length ≤ e.all.length
  flat : e.children.flatten.Perm (List.range' e.roots.length (e.all.length - e.roots.length))
  after : ∀ p (h : p < e.children.length), ∀ i ∈ e.children[p], p < i

end PyrexD.Tree
