/-!
# HDF5 writer / reader (properties C11, C12) — discrete model of `pyrex/io.py` and
`pyrex/generation.py::FileGenerator`

Core Lean only (this file is imported by the driver).

What is modelled
* `HDF5Writer.add / _add_event_data / _preset_all_indices / _write_indices / _write_particles /
  _write_trigger / _write_ray_data / _write_noise_data / _write_waveforms / open` (append mode)
* `HDF5Reader.__len__ / __iter__ / __getitem__`, `EventIterator.__init__ / __next__ / _load_data /
  _get_event_data`
* `FileGenerator.__init__ / _load_events / _next_file / create_event / count`

A dataset ("table") is a list of rows.  A row is identified by the `add` call that produced it and
its position within that call (`Row.data call k`); rows that only exist because a dataset was
resized past rows never written are `Row.gap`.  What the *values* of a row are is not part of the
model: the correspondence run encodes `(call, k)` in the values it writes and decodes them again.

Every per-table writer of the code has the same bookkeeping skeleton
```
    start = counters[t] ; counters[t] += n        -- "inc"
    create dataset if missing ; resize(counters[t]) ; (write the n rows)      -- "grow"
    _write_indices(t, start, n)                   -- "idx"
```
(`_write_trigger` / `_write_noise_data` spell `start` as `counters[t]-1` with `n = 1`; particles
additionally bump `attrs['total_thrown']` last).  A failing `add` is modelled by a *budget* of
micro-operations (preset, inc, grow, idx, thrown) that are executed before the exception; the real
raise points of the code are a subset of these cut points (`faultStop` below maps the fault
injections used by the correspondence run to cut points).
-/
namespace H5

/-- the six data kinds, in the order `_add_event_data` writes them -/
inductive Tbl | particles | triggers | mcTriggers | rays | noise | waveforms
deriving DecidableEq, Repr

def Tbl.all : List Tbl := [.particles, .triggers, .mcTriggers, .rays, .noise, .waveforms]

/-- iteration order of `self._counters` (= order of `_dataset_locations`) in `_preset_all_indices` -/
def Tbl.presetOrder : List Tbl := [.waveforms, .triggers, .particles, .rays, .mcTriggers, .noise]

/-- the six `write_*` options / `require_trigger` keys -/
inductive Opt | particles | triggers | antennaTriggers | rays | noise | waveforms
deriving DecidableEq, Repr

inductive Row
  | gap
  | data (call k : Nat)
deriving DecidableEq, Repr

structure Opts where
  write    : Opt → Bool
  trigOnly : Opt → Bool

/-- `require_trigger` as given to the constructor -/
inductive ReqTrig
  | bool (b : Bool)
  | list (mem : Opt → Bool)

/-- `HDF5Writer.__init__`: `_trig_only` from `require_trigger` -/
def trigOnlyOf : ReqTrig → Opt → Bool
  | .bool false, _ => false
  | .bool true, x => match x with
      | .particles | .triggers | .antennaTriggers => false
      | _ => true
  | .list mem, x => mem x

/-- constructor consistency check (`write_antenna_triggers` needs `write_triggers`) -/
def optsValid (w : Opt → Bool) : Bool := !(w .antennaTriggers && !w .triggers)

/-- what one `add` call carries, reduced to what the bookkeeping depends on -/
structure Ev where
  nParticles : Nat
  triggered  : Bool
  nWaves     : Nat          -- max over antennas of len(all_waveforms)
  nRays      : Nat          -- max over antennas of len(ray_paths[i])
  extraTrig  : Bool         -- dict trigger with keys besides 'global'
  thrown     : Nat          -- events_thrown
deriving DecidableEq, Repr

def gate (o : Opts) (e : Ev) (x : Opt) : Bool := o.write x && (!o.trigOnly x || e.triggered)

def inclAnt (o : Opts) (e : Ev) : Bool := gate o e .antennaTriggers

/-- is table `t` written by an accepted `add` of `e` under options `o` -/
def records (o : Opts) (e : Ev) : Tbl → Bool
  | .particles  => gate o e .particles
  | .triggers   => gate o e .triggers
  | .mcTriggers => gate o e .triggers && (inclAnt o e || e.extraTrig)
  | .rays       => gate o e .rays
  | .noise      => gate o e .noise
  | .waveforms  => gate o e .waveforms

/-- rows that one accepted call contributes to table `t` -/
def Ev.len (e : Ev) : Tbl → Nat
  | .particles  => e.nParticles
  | .triggers   => 1
  | .mcTriggers => e.nWaves
  | .rays       => e.nRays
  | .noise      => 1
  | .waveforms  => e.nWaves

abbrev Cell := Nat × Nat           -- (start, length)
abbrev IxRow := Tbl → Cell

def IxRow.default : IxRow := fun _ => (0, 0)

def upd (r : IxRow) (t : Tbl) (v : Cell) : IxRow := fun t' => if t' = t then v else r t'

structure File where
  rows     : Tbl → List Row
  exists_  : Tbl → Bool               -- dataset has been created
  cols     : List Tbl                 -- attrs['keys'] of /event_indices, in column order
  counter  : Tbl → Nat                -- self._counters[t]
  index    : List IxRow               -- /event_indices, one entry per row of the dataset
  nEvents  : Nat                      -- self._counters['indices']
  thrown   : Option Nat               -- attrs['total_thrown'] of the particle group (none = unset)
  calls    : Nat                      -- number of add calls so far (model-only: tags the rows)

def File.empty : File :=
  { rows := fun _ => [], exists_ := fun _ => false, cols := [], counter := fun _ => 0,
    index := [], nEvents := 0, thrown := none, calls := 0 }

/-- `dataset.resize(c, axis=0)`: truncate or pad with fill rows -/
def resize (l : List Row) (c : Nat) : List Row := l.take c ++ List.replicate (c - l.length) Row.gap

/-- grow the index table to at least `n` rows (`indices.resize(n, axis=0)` when it is shorter) -/
def padIx (ix : List IxRow) (n : Nat) : List IxRow := ix ++ List.replicate (n - ix.length) IxRow.default

/-- `_write_indices(full_name, start, length, global_index_value=g)` -/
def writeIdx (f : File) (g : Nat) (t : Tbl) (v : Cell) : File :=
  if f.exists_ t then
    let ix := padIx f.index (g + 1)
    { f with cols := if t ∈ f.cols then f.cols else f.cols ++ [t],
             index := ix.set g (upd (ix.getD g IxRow.default) t v) }
  else f

/-- `_preset_all_indices` -/
def preset (f : File) : File :=
  Tbl.presetOrder.foldl (fun f t => writeIdx f f.nEvents t (f.counter t, 0)) f

/-- number of micro-operations of the writer of table `t` -/
def Tbl.nOps : Tbl → Nat
  | .particles => 4
  | _ => 3

/-- `start_index = counters[t]; counters[t] += n` -/
def incCounter (f : File) (t : Tbl) (n : Nat) : File :=
  { f with counter := fun t' => if t' = t then f.counter t + n else f.counter t' }

/-- create the dataset if missing, `resize(counters[t])`, write the `n` rows at `start…` -/
def growTbl (f : File) (t : Tbl) (start n : Nat) : File :=
  { f with exists_ := fun t' => if t' = t then true else f.exists_ t',
           rows := fun t' => if t' = t then resize (f.rows t) start ++ (List.range n).map (Row.data f.calls)
                             else f.rows t' }

/-- `attrs['total_thrown'] += throw_count` (created on first use) -/
def bumpThrown (f : File) (th : Nat) : File := { f with thrown := some (f.thrown.getD 0 + th) }

/-- the writer of table `t` for `n` rows, cut after `stage` micro-operations
(1: counter incremented, 2: dataset created/resized and rows written, 3: index cell written,
4 (particles only): total_thrown bumped) -/
def writeTbl (f : File) (t : Tbl) (n : Nat) (thrown : Nat) (stage : Nat) : File :=
  if stage = 0 then f else
  if stage = 1 then incCounter f t n else
  if stage = 2 then growTbl (incCounter f t n) t (f.counter t) n else
  if stage = 3 then writeIdx (growTbl (incCounter f t n) t (f.counter t) n) f.nEvents t (f.counter t, n) else
  if t = .particles then
    bumpThrown (writeIdx (growTbl (incCounter f t n) t (f.counter t) n) f.nEvents t (f.counter t, n)) thrown
  else writeIdx (growTbl (incCounter f t n) t (f.counter t) n) f.nEvents t (f.counter t, n)

/-- how far the writer of table `t` gets with a budget of `b` micro-operations.  Between the counter
increment and the resize of a writer nothing can raise, except in `_write_trigger`, which calls
`_check_trigger(triggered)` in between — and that call can only be the *first* evaluation of
`_check_trigger` (hence raise) when the gating test in `_add_event_data` did not evaluate it, i.e.
when triggers are not trigger-gated.  Every other "counter only" cut is therefore the same as a cut
in front of the writer. -/
def stageOf (o : Opts) (t : Tbl) (b : Nat) : Nat :=
  if min b t.nOps = 1 ∧ ¬ (t = .triggers ∧ o.trigOnly .triggers = false) then 0 else min b t.nOps

/-- one table of `_add_event_data` with the remaining micro-operation budget -/
def step (o : Opts) (e : Ev) (s : File × Nat) (t : Tbl) : File × Nat :=
  if records o e t then (writeTbl s.1 t (e.len t) e.thrown (stageOf o t s.2), s.2 - t.nOps) else s

/-- enough budget for every micro-operation of one `add` -/
def fullBudget : Nat := 24

/-- `self._counters['indices'] += 1` after a successful `_add_event_data` -/
def finishOk (f2 : File) : File := { f2 with nEvents := f2.nEvents + 1, calls := f2.calls + 1 }

/-- the `except` block of `add`: shrink `/event_indices` back to `counters['indices']` rows -/
def finishRej (f2 : File) : File := { f2 with index := f2.index.take f2.nEvents, calls := f2.calls + 1 }

/-- `add`.  `fail = none`: the call succeeds.  `fail = some 0`: rejected by the argument checks in
front of the `try` block (nothing happens).  `fail = some (k+1)`: `_add_event_data` raises after the
preset and `k` further micro-operations; the `except` block shrinks `/event_indices` back to
`counters['indices']` rows. -/
def add (o : Opts) (f : File) (e : Ev) (fail : Option Nat) : File :=
  match fail with
  | some 0 => { f with calls := f.calls + 1 }
  | some (k+1) => finishRej (Tbl.all.foldl (step o e) (preset f, k)).1
  | none => finishOk (Tbl.all.foldl (step o e) (preset f, fullBudget)).1

/-- `HDF5Writer.open` in mode `'a'`/`'r+'` on an existing file: counters recovered from the file -/
def reopen (f : File) : File :=
  { f with counter := fun t => if f.exists_ t then (f.rows t).length else 0,
           nEvents := f.index.length }

inductive Op
  | ok (e : Ev)
  | rejected (e : Ev) (after : Nat)
  | reopen
deriving Repr

def applyOp (o : Opts) (f : File) : Op → File
  | .ok e => add o f e none
  | .rejected e k => add o f e (some k)
  | .reopen => reopen f

def run (o : Opts) (ops : List Op) : File := ops.foldl (applyOp o) File.empty

/-- accepted calls with their call number (position among the add calls of the history) -/
def acceptedFrom (n : Nat) : List Op → List (Nat × Ev)
  | [] => []
  | .ok e :: r => (n, e) :: acceptedFrom (n+1) r
  | .rejected _ _ :: r => acceptedFrom (n+1) r
  | .reopen :: r => acceptedFrom n r

def accepted (ops : List Op) : List (Nat × Ev) := acceptedFrom 0 ops

def AlwaysParticles (o : Opts) : Prop := o.write .particles = true ∧ o.trigOnly .particles = false

/-! ## Reader -/

/-- `len(file)` -/
def numEvents (f : File) : Nat := f.index.length

/-- rows of event `i` in table `t` through the index table (what `f[i]` reads with chunk size 1).
A table that has no column in `/event_indices` holds nothing for any event (its cells read as the
zero fill `(0,0)`; `_get_event_data` returns an empty array when nothing was loaded). -/
def getEvent (f : File) (i : Nat) (t : Tbl) : List Row :=
  match f.index[i]? with
  | none => []
  | some ix => ((f.rows t).drop (ix t).1).take (ix t).2

/-- `range(start, stop, step)` as event numbers -/
def strided (start stop step : Nat) : List Nat :=
  (List.range ((stop - start + step - 1) / step)).map (fun k => start + k * step)

/-- the furthest row any event of the chunk uses: `np.max(tmp_indices[:, 0] + tmp_indices[:, 1])` -/
def maxEnd : List Cell → Option Nat
  | [] => none
  | c :: cs => match maxEnd cs with
    | none => some (c.1 + c.2)
    | some m => some (max (c.1 + c.2) m)

/-- the block end the code used BEFORE the repair 4e94c15 (kept for the witness theorems): the cell with
the largest start; among equal starts the last one (`np.where(starts == np.max(starts))[0][-1]`) -/
def pickEnd : List Cell → Option Cell
  | [] => none
  | c :: cs => match pickEnd cs with
    | none => some c
    | some d => if c.1 > d.1 then some c else some d

def minStart : List Cell → Option Nat
  | [] => none
  | c :: cs => match minStart cs with
    | none => some c.1
    | some m => some (min c.1 m)

/-- the body of the loop of `_load_data` for one table: `none` = `np.min` of an empty selection
raises -/
def loadTable (f : File) (t : Tbl) (s e step : Nat) : Option (List (List Row)) :=
  let cells := (strided s e step).map (fun i => (f.index.getD i IxRow.default) t)
  match minStart cells, maxEnd cells with
  | some ts, some te =>
    let tmp := ((f.rows t).drop ts).take (te - ts)
    some (cells.map (fun sl => (tmp.drop (sl.1 - ts)).take sl.2))
  | _, _ => none

inductive Err | index | value | stop | key
deriving DecidableEq, Repr

structure It where
  sr      : Int                       -- _slice_range
  s       : Nat                       -- _slice_start_event
  e       : Nat                       -- _slice_end_event
  step    : Nat                       -- _slice_step
  ctr     : Int                       -- _iter_counter
  stop    : Nat                       -- _iter_stop_event
  maxEv   : Nat                       -- _max_events
  data    : Tbl → Option (List (List Row))    -- _data (none: nothing loaded for the table)

/-- `if x < 0: x += self._max_events` -/
def normIdx (x n : Int) : Int := if x < 0 then x + n else x

/-- range and step checks of `EventIterator.__init__` and the initial state -/
def mkIterCore (n : Nat) (sr start stop step : Int) : Except Err It :=
  if start < 0 ∨ start ≥ n ∨ stop ≤ 0 ∨ stop > n then .error .index else
  if step ≤ 0 then .error .value else
  .ok { sr := sr, s := start.toNat, e := start.toNat, step := step.toNat, ctr := -1,
        stop := stop.toNat, maxEv := n, data := fun _ => none }

/-- `EventIterator.__init__`; `none` arguments are Python's `None`.  Needs the particle group and
its `total_thrown` attribute (`Err.key` otherwise). -/
def mkIter (f : File) (sr : Int) (start stop step : Option Int) : Except Err It :=
  if f.exists_ .particles = false ∨ f.thrown = none then .error .key else
  mkIterCore f.index.length sr (normIdx (start.getD 0) f.index.length)
    (normIdx (stop.getD f.index.length) f.index.length) (step.getD 1)

/-- `_load_data` -/
def loadData (f : File) (it : It) : Except Err It :=
  let go (t : Tbl) : Option (Option (List (List Row))) :=
    if t ∈ f.cols then (loadTable f t it.s it.e it.step).map some else some (it.data t)
  match go .particles, go .triggers, go .mcTriggers, go .rays, go .noise, go .waveforms with
  | some a, some b, some c, some d, some e, some g =>
    .ok { it with data := fun
      | .particles => a | .triggers => b | .mcTriggers => c | .rays => d | .noise => e | .waveforms => g }
  | _, _, _, _, _, _ => .error .value

/-- `EventIterator.__next__` -/
def next (f : File) (it : It) : Except Err It :=
  let ctr := it.ctr + 1
  let evn : Int := ctr * it.step + it.s
  if evn ≥ it.stop then .error .stop else
  if evn ≥ it.e then
    let s := evn.toNat
    let e := (min ((s : Int) + it.sr) it.maxEv).toNat
    loadData f { it with ctr := 0, s := s, e := e }
  else .ok { it with ctr := ctr }

/-- what the accessors of the current event return for table `t`
(`_get_event_data`: empty when nothing is loaded for the table) -/
def current (it : It) (t : Tbl) : List Row :=
  match it.data t with
  | none => []
  | some d => d.getD it.ctr.toNat []

/-- exhaust an iterator: per yielded event the rows of every table; the final error
(`Err.stop` for a regular end) -/
def collect (f : File) : Nat → It → List (Tbl → List Row) × Err
  | 0, _ => ([], .stop)
  | fuel+1, it =>
    match next f it with
    | .error e => ([], e)
    | .ok it' => let r := collect f fuel it'; (current it' :: r.1, r.2)

/-- `HDF5Reader.open`: `_slice_range` defaults to the number of events -/
def fileSr (f : File) (sr : Option Int) : Int := sr.getD f.index.length

/-- `HDF5Reader.__iter__` followed by exhausting the iterator -/
def iterAll (f : File) (sr : Option Int) : List (Tbl → List Row) × Err :=
  if f.index.length = 0 then ([], .stop) else
  match mkIter f (fileSr f sr) none none none with
  | .error e => ([], e)
  | .ok it => collect f (f.index.length + 1) it

/-- `HDF5Reader.__getitem__(int)` -/
def getitemInt (f : File) (key : Int) : Except Err (Tbl → List Row) :=
  let stop : Int := if key = -1 then f.index.length else key + 1
  match mkIter f 1 (some key) (some stop) (some 1) with
  | .error e => .error e
  | .ok it => match next f it with
    | .error e => .error e
    | .ok it' => .ok (current it')

/-- `HDF5Reader.__getitem__(slice)` followed by exhausting the iterator -/
def getitemSlice (f : File) (sr : Option Int) (a b c : Option Int) : List (Tbl → List Row) × Err :=
  let start := normIdx (a.getD 0) f.index.length
  let stop := normIdx (b.getD f.index.length) f.index.length
  match mkIter f (min (fileSr f sr) (stop - start)) a b c with
  | .error e => ([], e)
  | .ok it => collect f (f.index.length + 1) it

/-! ## FileGenerator -/

/-- `EventIterator.total_events_thrown` as a function of (event number, max events, total thrown);
the driver instantiates it with the float formula `int((k+1)/n*T)` -/
abbrev Frac := Nat → Nat → Nat → Nat

structure FG where
  fileIdx  : Nat                     -- _file_index + 1  (0 = no file opened yet)
  evIdx    : Nat                     -- _event_index
  events   : List (List Row)         -- _events (particle rows of each loaded event)
  evCounts : List Nat                -- _event_counts
  counts   : List Nat                -- _file_counts

/-- the test at the top of `_load_events`: `self._file_index<0 or self._event_index>=len(self._file)` -/
def fgNeedNext (files : List File) (g : FG) : Bool :=
  g.fileIdx == 0 ||
    (match files[g.fileIdx - 1]? with | some f => decide (g.evIdx ≥ f.index.length) | none => true)

/-- `_next_file` (the bounds check happens in `fgRead`) -/
def fgAdvance (g : FG) : FG := ⟨g.fileIdx + 1, 0, g.events, g.evCounts, g.counts⟩

/-- the body of `_load_events` on the open file `f`: `self._file[start:stop]` on a reader opened with
`slice_range=sr`, iterated to the end -/
def fgReadFile (f : File) (sr : Nat) (frac : Frac) (g : FG) : Except Err FG :=
  let stop := min (g.evIdx + sr) f.index.length
  let r := getitemSlice f (some (sr : Int)) (some (g.evIdx : Int)) (some (stop : Int)) none
  if r.2 ≠ .stop then .error r.2 else
  .ok ⟨g.fileIdx, g.evIdx + sr, r.1.map (fun ev => ev .particles),
       (strided g.evIdx stop 1).map (fun i => frac i f.index.length (f.thrown.getD 0)), g.counts⟩

/-- `.error .stop` = `StopIteration` from `_next_file` when the file list is exhausted -/
def fgRead (files : List File) (sr : Nat) (frac : Frac) (g : FG) : Except Err FG :=
  match files[g.fileIdx - 1]? with
  | none => .error .stop
  | some f => fgReadFile f sr frac g

/-- `_load_events` (including `_next_file` when needed) -/
def fgLoad (files : List File) (sr : Nat) (frac : Frac) (g : FG) : Except Err FG :=
  fgRead files sr frac (if fgNeedNext files g then fgAdvance g else g)

def fgInit (files : List File) (sr : Nat) (frac : Frac) : Except Err FG :=
  fgLoad files sr frac { fileIdx := 0, evIdx := 0, events := [], evCounts := [],
                         counts := List.replicate (files.length + 1) 0 }

/-- `create_event` -/
def fgCreate (files : List File) (sr : Nat) (frac : Frac) (g : FG) : Except Err (List Row × FG) :=
  match (if g.events.isEmpty then fgLoad files sr frac g else .ok g) with
  | .error e => .error e
  | .ok g =>
    match g.events, g.evCounts with
    | ev :: evs, c :: cs => .ok (ev, { g with events := evs, evCounts := cs, counts := g.counts.set g.fileIdx c })
    | _, _ => .error .index

/-- the `count` setter: `self._file_counts[0] = custom_count - sum(self._file_counts[1:])`
(Python integers; the model keeps naturals, so the statement about it assumes the custom count is at
least the part already counted for the files) -/
def fgSetCount (g : FG) (c : Nat) : FG :=
  { g with counts := g.counts.set 0 (c - (g.counts.drop 1).foldl (· + ·) 0) }

/-- call `create_event` until it raises: the events, `count` after each, and the final error -/
def fgAll (files : List File) (sr : Nat) (frac : Frac) : Nat → FG → List (List Row × Nat) × Err
  | 0, _ => ([], .stop)
  | fuel+1, g =>
    match fgCreate files sr frac g with
    | .error e => ([], e)
    | .ok (ev, g') => let r := fgAll files sr frac fuel g'; ((ev, g'.counts.foldl (· + ·) 0) :: r.1, r.2)

/-! ## Fault injections of the correspondence run mapped to cut points -/

inductive Fault
  | none
  | noRays          -- ray_paths=None
  | noTrig          -- triggered=None
  | badTrigDict     -- dict trigger without 'global'
  | evLenRaises     -- len(event) raises
  | badPartMeta     -- a particle metadata value is neither string nor scalar
  | antTrigRaises   -- antenna.trigger(wave) raises
  | shortPerWave    -- per-waveform trigger list shorter than the number of waveforms
  | polMismatch     -- len(polarizations[i]) != len(ray_paths[i])
  | badRayMeta      -- metadata of the last ray path raises
  | noiseRaises     -- _get_noise_bases raises (noise master access)
  | waveRaises      -- wave.times raises while waveforms are written
deriving DecidableEq, Repr

/-- micro-operations executed before the writer of table `t` starts (1 for the preset) -/
def offsetOf (o : Opts) (e : Ev) (t : Tbl) : Nat :=
  1 + ((Tbl.all.takeWhile (· ≠ t)).filter (records o e)).foldl (fun a t' => a + t'.nOps) 0

def anyTrigOnly (o : Opts) : Bool :=
  o.trigOnly .particles || o.trigOnly .triggers || o.trigOnly .antennaTriggers ||
  o.trigOnly .rays || o.trigOnly .noise || o.trigOnly .waveforms

/-- where `_add_event_data` first calls `_check_trigger` (which raises for a bad trigger object):
the gating tests in write order, and unconditionally inside `_write_trigger` after its counter
increment.  The event's `triggered` field is irrelevant (never obtained). -/
def badTrigStop (o : Opts) (_e : Ev) : Option Nat :=
  -- tables written before the raise are exactly the non-gated written ones (gated ones raise)
  if o.write .particles && o.trigOnly .particles then some 1 else
  let afterP := 1 + (if o.write .particles then 4 else 0)
  if o.write .triggers then
    if o.trigOnly .triggers then some afterP
    else if o.write .antennaTriggers && o.trigOnly .antennaTriggers then some afterP
    else some (afterP + 1)
  else
  if o.write .rays && o.trigOnly .rays then some afterP else
  let afterR := afterP + (if o.write .rays then 3 else 0)
  if o.write .noise && o.trigOnly .noise then some afterR else
  let afterN := afterR + (if o.write .noise then 3 else 0)
  if o.write .waveforms && o.trigOnly .waveforms then some afterN else
  none

/-- cut point of a fault (`none`: the call is accepted) -/
def faultStop (o : Opts) (e : Ev) : Fault → Option Nat
  | .none => none
  | .noRays => if o.write .rays then some 0 else none
  | .noTrig =>
      if anyTrigOnly o then some 0
      else if o.write .triggers then some (offsetOf o e .triggers + 1) else none
  | .badTrigDict => badTrigStop o e
  | .evLenRaises => if records o e .particles then some (offsetOf o e .particles) else none
  | .badPartMeta => if records o e .particles && e.nParticles > 0 then some (offsetOf o e .particles + 3) else none
  | .antTrigRaises =>
      if records o e .triggers && inclAnt o e && e.nWaves > 0 then some (offsetOf o e .mcTriggers + 2) else none
  | .shortPerWave =>
      if records o e .mcTriggers && e.extraTrig && e.nWaves > 0 then some (offsetOf o e .mcTriggers + 2) else none
  | .polMismatch => if records o e .rays && e.nRays > 0 then some (offsetOf o e .rays) else none
  | .badRayMeta => if records o e .rays && e.nRays > 0 then some (offsetOf o e .rays + 2) else none
  | .noiseRaises => if records o e .noise then some (offsetOf o e .noise + 3) else none
  | .waveRaises => if records o e .waveforms && e.nWaves > 0 then some (offsetOf o e .waveforms + 2) else none

end H5
