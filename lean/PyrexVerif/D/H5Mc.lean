/-!
# Component-trigger table `/monte_carlo_data/triggers` (property C11, row CONTENT of the trigger tables)

Model of the second half of `HDF5Writer._write_trigger` (column-name bookkeeping) and of the reader's
lookup by column name (`EventIterator.get_data("mc_triggers")` / `get_triggered_components`).

The dataset is a boolean matrix with fill value `False` (`cell r k`; rows and columns that were never
written read `False`, which is what `resize` leaves behind), `keys` is `attrs['keys']` in creation
order, `counter` is `_counters['mc_triggers']`.  One `_write_trigger` call hands over the named flag
columns of the event in the order the code builds them (`antenna_0 … antenna_{N-1}` when antenna
triggers are included, then the extra keys of the trigger dict), each with one value per waveform it
has (`ant.all_waveforms` may be shorter than `max_waves`; an extra key has `max_waves` values).
Core Lean only.
-/
namespace H5Mc

abbrev Cells := Nat → Nat → Bool

structure Mc where
  keys    : List String
  cell    : Cells
  counter : Nat

def Mc.empty : Mc := ⟨[], fun _ _ => false, 0⟩

/-- `extra_data[r, k] = v` -/
def setCell (c : Cells) (r k : Nat) (v : Bool) : Cells := fun r' k' => if r' = r ∧ k' = k then v else c r' k'

/-- `for j, v in enumerate(vals): extra_data[start+j, k] = v` -/
def writeCol (c : Cells) (r k : Nat) : List Bool → Cells
  | [] => c
  | v :: vs => writeCol (setCell c r k v) (r + 1) k vs

/-- `for k, match in enumerate(extra_data.attrs['keys']): if name == match: <write column k>`
(`k0` = index of the first key of the remaining list) -/
def writeMatches (c : Cells) (start : Nat) (name : String) (vals : List Bool) : List String → Nat → Cells
  | [], _ => c
  | key :: ks, k0 => writeMatches (if key = name then writeCol c start k0 vals else c) start name vals ks (k0 + 1)

/-- `for key in extra_keys: if key not in keys: keys = keys + [key]` -/
def addKeys (keys : List String) : List String → List String
  | [] => keys
  | n :: ns => addKeys (if n ∈ keys then keys else keys ++ [n]) ns

/-- the component-trigger part of `_write_trigger` for an event with `n = max_waves` rows -/
def writeEvent (m : Mc) (n : Nat) (cols : List (String × List Bool)) : Mc :=
  let keys := addKeys m.keys (cols.map (·.1))
  { keys := keys,
    cell := cols.foldl (fun c col => writeMatches c m.counter col.1 col.2 keys 0) m.cell,
    counter := m.counter + n }

/-- the code before the repair ed0aae8: antenna number `i` is used as the column of `antenna_i`
(`nAnt` leading columns of `cols` are the antenna columns) -/
def writeEventOld (m : Mc) (n : Nat) (nAnt : Nat) (cols : List (String × List Bool)) : Mc :=
  let keys := addKeys m.keys (cols.map (·.1))
  let ant := (cols.take nAnt).zipIdx
  let c1 := ant.foldl (fun c (col, i) => if col.1 ∈ keys then writeCol c m.counter i col.2 else c) m.cell
  { keys := keys,
    cell := (cols.drop nAnt).foldl (fun c col => writeMatches c m.counter col.1 col.2 keys 0) c1,
    counter := m.counter + n }

/-- column of a key name (first match) -/
def colOf (name : String) : List String → Option Nat
  | [] => none
  | k :: ks => if k = name then some 0 else (colOf name ks).map (· + 1)

/-- the flag of row `r` under column name `name`, as the reader looks it up -/
def flag (m : Mc) (r : Nat) (name : String) : Bool :=
  match colOf name m.keys with
  | some k => m.cell r k
  | none => false

/-- `get_triggered_components()` of an event occupying rows `[s, s+n)`: names with any flag set -/
def components (m : Mc) (s n : Nat) : List String :=
  m.keys.filter (fun name => (List.range n).any (fun j => flag m (s + j) name))

def findVals (name : String) : List (String × List Bool) → Option (List Bool)
  | [] => none
  | c :: cs => if c.1 = name then some c.2 else findVals name cs

/-- a history of `_write_trigger` calls that reached the component-trigger part -/
def runMc (ws : List (Nat × List (String × List Bool))) : Mc :=
  ws.foldl (fun m w => writeEvent m w.1 w.2) Mc.empty

end H5Mc
