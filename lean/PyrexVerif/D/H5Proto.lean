import PyrexVerif.D.H5
import PyrexVerif.D.H5Mc
/-!
Line-protocol handler shared by the C11 and C12 drivers (see `harness/props/h5lib.py`).

    OPTS  := <6 write bits p t a r n w> <T | F | L<6 bits>>
    HIST  := <nops> { A <nParticles> <triggered> <nWaves> <nRays> <extra> <thrown> <fault> | R }*
    FILE  := OPTS HIST
    N     := Python None where an optional integer is expected

    mc <nwrites> { <maxWaves> <ncols> { <name> <len> <bit>* }* }*      (component-trigger table, H5Mc)
    lk <nrows> <n> { <start> <len> }*n <sr|N> <a|N> <b|N> <c|N>    (look-up table with arbitrary cells: f[a:b:c])
    lki <nrows> <n> { <start> <len> }*n <sr|N>                      (… iteration)
    dump FILE | iter FILE <sr> | int FILE <key> | slice FILE <sr> <a> <b> <c> | fg <sr> <nfiles> FILE*
-/
namespace H5Proto
open H5

abbrev P (α : Type) := List String → Option (α × List String)

def pNat : P Nat
  | t :: r => t.toNat?.map (·, r)
  | [] => none
def pBool : P Bool
  | "1" :: r => some (true, r)
  | "0" :: r => some (false, r)
  | _ => none
def pStr : P String
  | t :: r => some (t, r)
  | [] => none
def pOptInt : P (Option Int)
  | "N" :: r => some (none, r)
  | t :: r => t.toInt?.map (fun i => (some i, r))
  | [] => none

def bits6 (s : String) : Option (Opt → Bool) :=
  match s.toList with
  | [a, b, c, d, e, g] =>
    if [a, b, c, d, e, g].all (fun ch => ch = '0' || ch = '1') then
      some (fun
        | .particles => a = '1' | .triggers => b = '1' | .antennaTriggers => c = '1'
        | .rays => d = '1' | .noise => e = '1' | .waveforms => g = '1')
    else none
  | _ => none

def pOpts : P Opts
  | w :: rt :: r => do
    let w ← bits6 w
    if !optsValid w then none
    let rq ← match rt with
      | "T" => some (ReqTrig.bool true)
      | "F" => some (ReqTrig.bool false)
      | s => if s.startsWith "L" then (bits6 (String.ofList (s.toList.drop 1))).map ReqTrig.list else none
    pure ({ write := w, trigOnly := trigOnlyOf rq }, r)
  | _ => none

def pFault : P Fault
  | "none" :: r => some (.none, r)
  | "noRays" :: r => some (.noRays, r)
  | "noTrig" :: r => some (.noTrig, r)
  | "badTrigDict" :: r => some (.badTrigDict, r)
  | "evLenRaises" :: r => some (.evLenRaises, r)
  | "badPartMeta" :: r => some (.badPartMeta, r)
  | "antTrigRaises" :: r => some (.antTrigRaises, r)
  | "shortPerWave" :: r => some (.shortPerWave, r)
  | "polMismatch" :: r => some (.polMismatch, r)
  | "badRayMeta" :: r => some (.badRayMeta, r)
  | "noiseRaises" :: r => some (.noiseRaises, r)
  | "waveRaises" :: r => some (.waveRaises, r)
  | _ => none

/-- an operation of the history together with "was it accepted" (for the reply) -/
def pOp (o : Opts) : P (Op × String)
  | "R" :: r => some ((.reopen, "r"), r)
  | "A" :: r => do
    let (np, r) ← pNat r
    let (tr, r) ← pBool r
    let (nw, r) ← pNat r
    let (nr, r) ← pNat r
    let (ex, r) ← pBool r
    let (th, r) ← pNat r
    let (fl, r) ← pFault r
    let e : Ev := ⟨np, tr, nw, nr, ex, th⟩
    match faultStop o e fl with
    | none => pure ((.ok e, "1"), r)
    | some k => pure ((.rejected e k, "0"), r)
  | _ => none

def pMany {α : Type} (p : P α) : Nat → P (List α)
  | 0, ts => some ([], ts)
  | n+1, ts => do
    let (x, ts) ← p ts
    let (xs, ts) ← pMany p n ts
    pure (x :: xs, ts)

/-- a file: options and history -/
def pFile : P (Opts × List (Op × String)) := fun ts => do
  let (o, ts) ← pOpts ts
  let (n, ts) ← pNat ts
  let (ops, ts) ← pMany (pOp o) n ts
  pure ((o, ops), ts)

def fileOf (x : Opts × List (Op × String)) : File := run x.1 (x.2.map (·.1))

def rowS : Row → String
  | .gap => "g"
  | .data c k => s!"{c}.{k}"

def tblName : Tbl → String
  | .particles => "particles" | .triggers => "triggers" | .mcTriggers => "mc_triggers"
  | .rays => "rays" | .noise => "noise" | .waveforms => "waveforms"

def evS (ev : Tbl → List Row) : String :=
  "/".intercalate (Tbl.all.map (fun t => ",".intercalate ((ev t).map rowS)))

def evsS (l : List (Tbl → List Row)) : String := ";".intercalate (l.map evS)

def errS : Err → String
  | .index => "index" | .value => "value" | .stop => "stop" | .key => "key"

/-- `int((k+1)/n*T)` in IEEE doubles, as `EventIterator.total_events_thrown` computes it -/
def fracF (k n T : Nat) : Nat :=
  (((k + 1).toFloat / n.toFloat * T.toFloat).floor).toUInt64.toNat

def pCol : P (String × List Bool) := fun ts => do
  let (name, ts) ← pStr ts
  let (len, ts) ← pNat ts
  let (vals, ts) ← pMany pBool len ts
  pure ((name, vals), ts)

def pWrite : P (Nat × List (String × List Bool)) := fun ts => do
  let (n, ts) ← pNat ts
  let (nc, ts) ← pNat ts
  let (cols, ts) ← pMany pCol nc ts
  pure ((n, cols), ts)

/-- a file with `n` one-particle events and a look-up table (column slot `noise`) of `nrows` rows
indexed by arbitrary cells, as `add_analysis_indices` can produce them -/
def lookupFile (nrows : Nat) (cells : List (Nat × Nat)) : File :=
  { rows := fun | .particles => (List.range cells.length).map (fun i => Row.data i 0)
                | .noise => (List.range nrows).map (Row.data 0) | _ => [],
    exists_ := fun | .particles => true | .noise => true | _ => false,
    cols := [.particles, .noise],
    counter := fun | .particles => cells.length | .noise => nrows | _ => 0,
    index := cells.zipIdx.map (fun (v, i) => fun | .particles => (i, 1) | .noise => v | _ => (0, 0)),
    nEvents := cells.length, thrown := some cells.length, calls := cells.length }

def pCell : P (Nat × Nat) := fun ts => do
  let (a, ts) ← pNat ts
  let (b, ts) ← pNat ts
  pure ((a, b), ts)

def lkS (res : List (Tbl → List Row) × Err) : String :=
  s!"{errS res.2} | " ++ ";".intercalate (res.1.map (fun ev =>
    ",".intercalate ((ev .noise).map (fun r => match r with | .data _ k => toString k | .gap => "g"))))

def handleLk (iter : Bool) (r : List String) : String :=
  match r with
  | nr :: n :: r =>
    match nr.toNat?, n.toNat? with
    | some nr, some n =>
      match pMany pCell n r with
      | some (cells, r) =>
        match pOptInt r with
        | some (sr, r) =>
          if iter then (if r = [] then lkS (iterAll (lookupFile nr cells) sr) else "bad-op") else
          match pOptInt r with
          | some (a, r) => match pOptInt r with
            | some (b, r) => match pOptInt r with
              | some (c, []) => lkS (getitemSlice (lookupFile nr cells) sr a b c)
              | _ => "bad-op"
            | none => "bad-op"
          | none => "bad-op"
        | none => "bad-op"
      | none => "bad-op"
    | _, _ => "bad-op"
  | _ => "bad-op"

def handle (ts : List String) : String :=
  match ts with
  | "lk" :: r => handleLk false r
  | "lki" :: r => handleLk true r
  | "mc" :: nw :: r =>
    match nw.toNat? with
    | some nw =>
      match pMany pWrite nw r with
      | some (ws, []) =>
        let m := H5Mc.runMc ws
        let rows := (List.range m.counter).map (fun r =>
          String.join ((List.range m.keys.length).map (fun k => if m.cell r k then "1" else "0")))
        s!"keys={",".intercalate m.keys} | {",".intercalate rows}"
      | _ => "bad-op"
    | none => "bad-op"
  | "dump" :: r =>
    match pFile r with
    | some (x, []) =>
      let f := fileOf x
      let acc := "".intercalate (x.2.map (·.2))
      let thr := match f.thrown with | none => "N" | some t => toString t
      let tb := " ".intercalate (Tbl.all.map (fun t =>
        s!"{(f.rows t).length}:{f.counter t}:{if f.exists_ t then 1 else 0}"))
      let ix := ";".intercalate (f.index.map (fun row =>
        " ".intercalate (Tbl.all.map (fun t => s!"{(row t).1},{(row t).2}"))))
      let evs := evsS ((List.range f.index.length).map (fun i => getEvent f i))
      s!"acc={acc} | n={f.nEvents} len={f.index.length} thrown={thr} | cols={",".intercalate (f.cols.map tblName)} | {tb} | {ix} | {evs}"
    | _ => "bad-op"
  | "iter" :: r =>
    match pFile r with
    | some (x, r) =>
      match pOptInt r with
      | some (sr, []) => let res := iterAll (fileOf x) sr; s!"{errS res.2} | {evsS res.1}"
      | _ => "bad-op"
    | none => "bad-op"
  | "int" :: r =>
    match pFile r with
    | some (x, [k]) =>
      match k.toInt? with
      | some k => match getitemInt (fileOf x) k with
        | .ok ev => s!"ok | {evS ev}"
        | .error e => s!"{errS e} | "
      | none => "bad-op"
    | _ => "bad-op"
  | "slice" :: r =>
    match pFile r with
    | some (x, r) =>
      match pOptInt r with
      | some (sr, r) => match pOptInt r with
        | some (a, r) => match pOptInt r with
          | some (b, r) => match pOptInt r with
            | some (c, []) => let res := getitemSlice (fileOf x) sr a b c; s!"{errS res.2} | {evsS res.1}"
            | _ => "bad-op"
          | none => "bad-op"
        | none => "bad-op"
      | none => "bad-op"
    | none => "bad-op"
  | "fg" :: sr :: nf :: r =>
    match sr.toNat?, nf.toNat? with
    | some sr, some nf =>
      match pMany pFile nf r with
      | some (xs, []) =>
        let files := xs.map fileOf
        let total := (files.map (fun f => f.index.length)).foldl (· + ·) 0
        match fgInit files sr fracF with
        | .error e => s!"init-{errS e} | "
        | .ok g =>
          let res := fgAll files sr fracF (total + 2) g
          let body := ";".intercalate (res.1.map (fun (ev, c) => ",".intercalate (ev.map rowS) ++ ":" ++ toString c))
          s!"{errS res.2} | {body}"
      | _ => "bad-op"
    | _, _ => "bad-op"
  | _ => "bad-op"

end H5Proto
