/-!
# Event kernel (property C10) — discrete model of `pyrex/kernel.py` (`EventKernel.event`)

`event` as a fold over particles × antennas × ray solutions with the components as parameters:
generator, weight cut (scalar or pair), ray tracer (`none` = no path exists | the solutions), the
polarisation / viewing-angle computation, the off-cone test, the signal model (`ok` | `ValueError`),
`propagate`, the antennas' `receive`, the trigger function(s) and the writer.

Identities of objects (particles, paths) are natural numbers; the polarisation vector handed to the
writer is identified by the (particle, path) pair it was computed from.  Times are exact rationals.
Core Lean only (imported by the driver).
-/
namespace Kern

abbrev Grid := List Rat

structure Particle where
  id     : Nat
  sw     : Option Rat        -- `survival_weight`
  iw     : Option Rat        -- `interaction_weight`
  forced : Option Rat        -- `_forced_weight`
deriving DecidableEq, Repr

/-- a ray path as far as the kernel looks at it -/
structure Path where
  id  : Nat
  tof : Rat
deriving DecidableEq, Repr

/-- `weight_min` as stored by `__init__` (`None` becomes the scalar `0`) -/
inductive WeightMin
  | scalar (w : Rat)
  | pair (a b : Rat)
deriving Repr

/-- `Particle.weight` -/
def weight (p : Particle) : Rat :=
  match p.forced with
  | some w => w
  | none => (match p.sw with | some s => 1 * s | none => 1) * (match p.iw with | some i => i | none => 1)

/-- the weight cut: is the particle skipped? -/
def skip (wm : WeightMin) (p : Particle) : Bool :=
  match wm with
  | .pair a b =>
      (match p.sw with | some s => decide (s < a) | none => false) ||
      (match p.iw with | some i => decide (i < b) | none => false)
  | .scalar w => decide (weight p < w)

/-- what an antenna is handed by one `receive` call -/
inductive Recv
  | empty (grid : Grid)                          -- `EmptySignal(signal_times + path.tof)`, no keywords
  | pulse (pid pathId : Nat) (grid : Grid)       -- the propagated pulse, with direction and polarisation
deriving DecidableEq, Repr

def Recv.grid : Recv → Grid
  | .empty g => g
  | .pulse _ _ g => g

def absR (v : Rat) : Rat := if v < 0 then -v else v

/-- the components plugged into the kernel -/
structure Comp where
  times      : Grid                                   -- `signal_times`
  weightMin  : WeightMin
  offconeMax : Rat
  tracer     : Particle → Nat → Option (List Path)    -- `rt.exists` false → `none`, else `rt.solutions`
  psi        : Particle → Path → Rat                  -- viewing angle
  thetaC     : Particle → Rat                         -- Cherenkov angle at the vertex
  sigOk      : Particle → Path → Bool                 -- `false`: the signal model raises `ValueError`
  propGrid   : Path → Grid → Grid                     -- times of the signals returned by `path.propagate`

/-- per-antenna bookkeeping of one `event()` call -/
structure AntAcc where
  received : List Recv
  rayPaths : List Path              -- `ray_paths[i]`
  pols     : List (Nat × Nat)       -- `polarizations[i]`, each identified by (particle, path)
deriving DecidableEq, Repr

def AntAcc.empty : AntAcc := ⟨[], [], []⟩

def shift (g : Grid) (d : Rat) : Grid := g.map (· + d)

/-- body of `for path in rt.solutions` -/
def pathStep (c : Comp) (p : Particle) (a : AntAcc) (path : Path) : AntAcc :=
  let a := { a with pols := a.pols ++ [(p.id, path.id)] }
  if decide (absR (c.psi p path - c.thetaC p) > c.offconeMax) || !c.sigOk p path then
    { a with received := a.received ++ [.empty (shift c.times path.tof)] }      -- `except ValueError`
  else
    { a with received := a.received ++ [.pulse p.id path.id (c.propGrid path c.times)] }

/-- body of `for i, ant in enumerate(self.antennas)` -/
def antennaStep (c : Comp) (p : Particle) (i : Nat) (a : AntAcc) : AntAcc :=
  match c.tracer p i with
  | none => a                                                  -- `continue`
  | some sols =>
      sols.foldl (pathStep c p) { a with rayPaths := a.rayPaths ++ sols }    -- `extend`, then the loop

/-- body of `for particle in event` -/
def particleStep (c : Comp) (accs : List AntAcc) (p : Particle) : List AntAcc :=
  if skip c.weightMin p then accs else accs.mapIdx (fun i a => antennaStep c p i a)

/-- the three nested loops of `event()` for `nAnt` antennas -/
def loops (c : Comp) (nAnt : Nat) (particles : List Particle) : List AntAcc :=
  particles.foldl (particleStep c) (List.replicate nAnt AntAcc.empty)

/-! ## triggers, writer, return value -/

abbrev TrigFn := List (List Recv) → Bool

inductive Triggers
  | none
  | fn (f : TrigFn)
  | dict (fs : List (String × TrigFn))

inductive Trig
  | none
  | single (b : Bool)
  | dict (kv : List (String × Bool))
deriving DecidableEq, Repr

def evalTrig (t : Triggers) (received : List (List Recv)) : Trig :=
  match t with
  | .none => .none
  | .fn f => .single (f received)
  | .dict fs => .dict (fs.map (fun kf => (kf.1, kf.2 received)))

/-- the returned value besides the event: `none` = bare event; `some none` = `KeyError('global')` -/
def retOf : Trig → Option (Option Bool)
  | .none => none
  | .single b => some (some b)
  | .dict kv => some ((kv.find? (fun p => p.1 == "global")).map (·.2))

structure WriterArgs where
  event        : Nat
  triggered    : Trig
  rayPaths     : List (List Path)
  pols         : List (List (Nat × Nat))
  eventsThrown : Int
deriving DecidableEq, Repr

/-- a generator: `create_event()` and `count` -/
structure Gen (σ : Type) where
  create : σ → (Nat × List Particle) × σ       -- event id and its particles (`for particle in event`)
  count  : σ → Nat

structure KState (σ : Type) where
  gen      : σ
  genCount : Nat                                -- `self._gen_count`

structure Out where
  event    : Nat
  accs     : List AntAcc
  trig     : Trig
  written  : Option WriterArgs
  ret      : Option (Option Bool)
deriving DecidableEq, Repr

/-- `EventKernel.event()` -/
def event {σ : Type} (g : Gen σ) (c : Comp) (nAnt : Nat) (triggers : Triggers) (hasWriter : Bool)
    (k : KState σ) : Out × KState σ :=
  let r := g.create k.gen
  let accs := loops c nAnt r.1.2
  let trig := evalTrig triggers (accs.map (·.received))
  let written := if hasWriter then
      some { event := r.1.1, triggered := trig, rayPaths := accs.map (·.rayPaths), pols := accs.map (·.pols),
             eventsThrown := (g.count r.2 : Int) - (k.genCount : Int) }
    else none
  ({ event := r.1.1, accs := accs, trig := trig, written := written, ret := retOf trig },
   { gen := r.2, genCount := g.count r.2 })

/-- `n` successive calls; the outputs in order -/
def events {σ : Type} (g : Gen σ) (c : Comp) (nAnt : Nat) (triggers : Triggers) (hasWriter : Bool) :
    Nat → KState σ → List Out × KState σ
  | 0, k => ([], k)
  | n+1, k =>
    let r := event g c nAnt triggers hasWriter k
    let rs := events g c nAnt triggers hasWriter n r.2
    (r.1 :: rs.1, rs.2)

/-! ## identity layer: the objects `event()` creates itself

Allocation-level view of one call: every object the kernel constructs gets the next unused id —
the `ray_paths[i]` and `polarizations[i]` lists (`2·nAnt`, built at the start of every call), and per ray
solution one polarisation array (`normalize(...)` returns a new array) and, when the pulse is cut, one
`EmptySignal(self.signal_times + path.tof)` (a new signal on a new times array).  `cuts` lists, in
processing order, whether each ray solution of the event was cut. -/
structure Heap where
  next    : Nat
  ids     : List Nat        -- every object created so far by this kernel (all events)
deriving Repr

def Heap.alloc (h : Heap) : Heap := { next := h.next + 1, ids := h.ids ++ [h.next] }

def allocN : Nat → Heap → Heap
  | 0, h => h
  | n+1, h => allocN n h.alloc

/-- per solution: the polarisation array, then the empty signal if the pulse is cut -/
def allocPath (h : Heap) (cut : Bool) : Heap := if cut then h.alloc.alloc else h.alloc

def eventHeap (h : Heap) (nAnt : Nat) (cuts : List Bool) : Heap :=
  cuts.foldl allocPath (allocN (2 * nAnt) h)

/-- nothing is used twice and everything recorded is older than the next id -/
def Heap.WF (h : Heap) : Prop := h.ids.Nodup ∧ ∀ x ∈ h.ids, x < h.next

/-! ## interface tables (the data is regenerated from the source into `Gen/Interfaces.lean`) -/

/-- signature of a Python callable (without `self`) -/
structure Sig where
  cls      : String
  method   : String
  params   : List String      -- positional-or-keyword parameters in order
  required : Nat              -- how many of them have no default
  kwonly   : List String
  kwreq    : List String      -- keyword-only parameters without default
  varargs  : Bool
  varkw    : Bool
deriving DecidableEq, Repr

/-- a call site: number of positional arguments and the keywords passed -/
structure Call where
  site : String
  npos : Nat
  kws  : List String
deriving DecidableEq, Repr

/-- would Python bind the call's arguments to the signature without a `TypeError`? -/
def accepts (s : Sig) (c : Call) : Bool :=
  (decide (c.npos ≤ s.params.length) || s.varargs) &&
  c.kws.all (fun k => ((s.params.drop c.npos).contains k || s.kwonly.contains k || s.varkw) &&
                      !(s.params.take c.npos).contains k) &&
  ((s.params.take s.required).drop c.npos).all (fun p => c.kws.contains p) &&
  s.kwreq.all (fun p => c.kws.contains p)

end Kern
