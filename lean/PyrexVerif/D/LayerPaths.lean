/-!
# Enumeration of layer index paths (`pyrex/custom/layered_ice/ray_tracing.py`)

`LayeredRayTracer._build_path(path, direction, reflections, max_level)` returns a nested list whose
leaves are tuples of layer indices; `_potential_paths` flattens it (leaf order is kept) and, for each
leaf, collects every prefix that ends in the receiver's layer.

Here the tree is produced already flattened: `[A, B]` of the code is `A ++ B`.  The current path is
carried as `pre ++ [level]` (`level = path[-1]`); `down = true` is `direction == +1` (toward larger
layer indices, i.e. deeper layers), `down = false` is `direction == -1`.

Core Lean only.
-/
namespace PyrexD.LayerPaths

/-- the ray is in layer `level` heading out of the stack -/
def atEdge (maxLevel level : Nat) (down : Bool) : Bool :=
  (level == 0 && !down) || (level == maxLevel && down)

/-- `level + direction` -/
def nextLevel (level : Nat) (down : Bool) : Nat := if down then level + 1 else level - 1

/-- distance (in layers) to the edge the ray is heading to -/
def toEdge (maxLevel level : Nat) (down : Bool) : Nat := if down then maxLevel - level else level

/-- `_build_path`, flattened.  For `level > max_level` the code does not terminate; the model
returns no path there. -/
def buildPath (maxLevel : Nat) (pre : List Nat) (level : Nat) (down : Bool) (refl : Nat) :
    List (List Nat) :=
  if level > maxLevel then []
  else if atEdge maxLevel level down then
    match refl with
    | 0 => [pre ++ [level]]
    | r + 1 => buildPath maxLevel (pre ++ [level]) level (!down) r
  else
    match refl with
    | 0 => buildPath maxLevel (pre ++ [level]) (nextLevel level down) down 0
    | r + 1 =>
      buildPath maxLevel (pre ++ [level]) (nextLevel level down) down (r + 1) ++
      buildPath maxLevel (pre ++ [level]) level (!down) r
termination_by (refl, toEdge maxLevel level down)
decreasing_by
  all_goals simp_wf
  · exact Prod.Lex.left _ _ (by omega)
  · apply Prod.Lex.right
    simp only [atEdge, Bool.or_eq_true, Bool.and_eq_true, beq_iff_eq, Bool.not_eq_true'] at *
    simp only [toEdge, nextLevel]
    cases down <;> simp_all <;> omega
  · apply Prod.Lex.right
    simp only [atEdge, Bool.or_eq_true, Bool.and_eq_true, beq_iff_eq, Bool.not_eq_true'] at *
    simp only [toEdge, nextLevel]
    cases down <;> simp_all <;> omega
  · exact Prod.Lex.left _ _ (by omega)

/-- indices `i` with `path[i] == e`, as the prefixes `path[:i+1]` -/
def prefixesEndingAt (e : Nat) : (seen : List Nat) → List Nat → List (List Nat)
  | _, [] => []
  | seen, x :: rest =>
    (if x == e then [seen ++ [x]] else []) ++ prefixesEndingAt e (seen ++ [x]) rest

/-- `_potential_paths` before the conversion to sets: (paths starting upward, paths starting downward) -/
def potentialPaths (maxLevel start stop maxRefl : Nat) : List (List Nat) × List (List Nat) :=
  ((buildPath maxLevel [] start false maxRefl).flatMap (prefixesEndingAt stop []),
   (buildPath maxLevel [] start true maxRefl).flatMap (prefixesEndingAt stop []))

/-! ## an independent description of the walks -/

/-- number of repeated levels (= reflections) of a walk -/
def repeats : List Nat → Nat
  | a :: b :: rest => (if a == b then 1 else 0) + repeats (b :: rest)
  | _ => 0

/-- consecutive levels differ by at most one -/
def stepsOK : List Nat → Bool
  | a :: b :: rest => (a == b || a + 1 == b || b + 1 == a) && stepsOK (b :: rest)
  | _ => true

/-- acceptance test for a complete walk: it moves one layer at a time in its direction, may reverse (repeating
the level) anywhere as long as reflections remain, must reverse at an edge of the stack while reflections
remain, and ends exactly when it heads out of the stack with no reflection left -/
def isBounce (maxLevel : Nat) : List Nat → Bool → Nat → Bool
  | [], _, _ => false
  | [l], down, r => atEdge maxLevel l down && r == 0 && decide (l ≤ maxLevel)
  | l :: l' :: rest, down, r =>
    decide (l ≤ maxLevel) &&
    ((l' == l && decide (0 < r) && isBounce maxLevel (l' :: rest) (!down) (r - 1)) ||
     (!atEdge maxLevel l down && l' == nextLevel l down && isBounce maxLevel (l' :: rest) down r))

end PyrexD.LayerPaths
