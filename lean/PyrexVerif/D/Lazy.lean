/-!
# Lazy-cache model (property C06)

Core Lean only.  Model of `pyrex.internal_functions.LazyMutableClass` / `lazy_property`:

* an object has attributes (`attrs`), a cache of lazily evaluated properties (`cache`, the
  `_lazy_<name>` entries of `__dict__`) and a *clearing set* (`static`): the names whose assignment
  makes `__setattr__` call `_clear_cache()` (constructor static attributes, plus the public
  class-level names since repair F14);
* the primitive steps a method body can perform on `self`: `assign` (goes through `__setattr__`),
  `mutate` (in-place change of the object stored in an attribute: subscript store, `append`, …; no
  `__setattr__`), `clear` (`self._clear_cache()`), `read` (evaluation of a lazy property);
* `compute p attrs` is what a freshly constructed object with these attributes reports for `p`.
* An augmented assignment `self.x += d` (and "fetch the array, edit it, assign it back") is the
  in-place `mutate x` followed by `assign x` with the mutated object as value.  `assign` clears on
  the attribute *name* whatever the value is - also when the value is the object the attribute
  already holds - exactly as `LazyMutableClass.__setattr__` does; the translator checks that the
  `_clear_cache()` call in `__setattr__` is unconditional inside the name test.

The per-method effect tables (`Method`) and the per-class dependency tables (`ClassInfo`) are
*generated* from the pyrex sources into `PyrexVerif/Gen/LazyOps.lean`, `PyrexVerif/Gen/LazyDeps.lean`.
-/
namespace Lazy

abbrev Name := String
abbrev Val := Int

structure Obj where
  attrs : Name → Val
  cache : Name → Option Val
  static : List Name

inductive Step
  | assign (n : Name) (v : Val)
  | mutate (n : Name) (f : Val → Val)
  | clear
  | read (p : Name)

/-- payload-free effects: what the translator extracts from the source -/
inductive Eff
  | assign (n : Name)
  | mutate (n : Name)
  | clear
  | read (p : Name)
  deriving DecidableEq, Repr

def Step.eff : Step → Eff
  | .assign n _ => .assign n
  | .mutate n _ => .mutate n
  | .clear => .clear
  | .read p => .read p

def upd (a : Name → Val) (n : Name) (v : Val) : Name → Val := fun m => if m = n then v else a m

def step (compute : Name → (Name → Val) → Val) (o : Obj) : Step → Obj
  | .assign n v => { o with attrs := upd o.attrs n v,
                            cache := if n ∈ o.static then fun _ => none else o.cache }
  | .mutate n f => { o with attrs := upd o.attrs n (f (o.attrs n)) }
  | .clear => { o with cache := fun _ => none }
  | .read p => { o with cache := fun q => if q = p then some ((o.cache p).getD (compute p o.attrs)) else o.cache q }

def run (compute : Name → (Name → Val) → Val) (o : Obj) (m : List Step) : Obj := m.foldl (step compute) o

/-- every cached value is what a fresh object with the current attributes would compute -/
def Coherent (compute : Name → (Name → Val) → Val) (o : Obj) : Prop :=
  ∀ p v, o.cache p = some v → v = compute p o.attrs

def CacheEmpty (o : Obj) : Prop := ∀ p, o.cache p = none

/-- `compute` reads only the attributes in `deps` -/
def Respects (compute : Name → (Name → Val) → Val) (deps : List Name) : Prop :=
  ∀ p a a', (∀ n ∈ deps, a n = a' n) → compute p a = compute p a'

/-- Static safety check of a method's effect list.  `e` = "the cache is known to be empty here".
* `clear` and an assignment to a clearing name establish emptiness, `read` destroys it;
* assigning a non-clearing name is only allowed if no lazy property depends on it, or while the
  cache is known to be empty (constructors);
* an in-place mutation of an attribute some lazy property depends on is only allowed while the
  cache is known to be empty. -/
def safe (clearing deps : List Name) : Bool → List Eff → Bool
  | _, [] => true
  | _, .clear :: r => safe clearing deps true r
  | e, .assign n :: r =>
      if n ∈ clearing then safe clearing deps true r
      else (e || !(deps.contains n)) && safe clearing deps e r
  | _, .read _ :: r => safe clearing deps false r
  | e, .mutate n :: r => (e || !(deps.contains n)) && safe clearing deps e r

/-! ## generated-table vocabulary -/
structure Method where
  name : String
  fresh : Bool
  effs : List Eff
  deriving Repr

structure LazyProp where
  name : Name
  deps : List Name
  lazyDeps : List Name
  deriving Repr

structure ClassInfo where
  name : String
  static : List Name
  classPublic : List Name
  lazy : List LazyProp
  deriving Repr

/-- the names whose assignment clears the cache -/
def ClassInfo.clearing (c : ClassInfo) (classLevelClears : Bool) : List Name :=
  c.static ++ (if classLevelClears then c.classPublic else [])

/-- every attribute some lazy property of the class reads -/
def ClassInfo.allDeps (c : ClassInfo) : List Name := c.lazy.flatMap (·.deps)

def isPrivate (n : Name) : Bool := n.startsWith "_"

/-- every dependency of every lazy property is a clearing name or private -/
def ClassInfo.depsClearing (c : ClassInfo) (classLevelClears : Bool) : Bool :=
  c.lazy.all (fun p => p.deps.all (fun d => (c.clearing classLevelClears).contains d || isPrivate d))

/-- every method of the class passes the safety check (methods that start on a fresh object start
with the cache known empty) -/
def methodsSafe (c : ClassInfo) (classLevelClears : Bool) (ms : List Method) : Bool :=
  ms.all (fun m => safe (c.clearing classLevelClears) c.allDeps m.fresh m.effs)

/-! ## public histories -/
/-- what a user of the object can do: call a method (any step list whose effects are those of a
table entry), assign a public attribute, read a lazy property -/
inductive Action
  | call (m : List Step)
  | assignPublic (n : Name) (v : Val)
  | read (p : Name)

def act (compute : Name → (Name → Val) → Val) (o : Obj) : Action → Obj
  | .call m => run compute o m
  | .assignPublic n v => step compute o (.assign n v)
  | .read p => step compute o (.read p)

/-- a history is admissible for a class when every call follows a (non-constructor) table entry
and every assigned name is public -/
def Admissible (ms : List Method) : Action → Prop
  | .call m => ∃ e ∈ ms, e.fresh = false ∧ m.map Step.eff = e.effs
  | .assignPublic n _ => isPrivate n = false
  | .read _ => True

/-! ## key-set machine used by the driver: which `_lazy_*` entries exist -/
def keysStep (clearing : List Name) (keys : List Name) : Eff → List Name
  | .assign n => if n ∈ clearing then [] else keys
  | .mutate _ => keys
  | .clear => []
  | .read p => if p ∈ keys then keys else keys ++ [p]

end Lazy
