/-!
# List generator (`pyrex/generation.py`: `ListGenerator`) — index machine, core Lean only

State: `_index`, `_additional_counts` (an integer: `count.setter` stores `custom_count − _index`).
Events are identified by their position in `events`.
-/
namespace PyrexD.ListGen

structure St where
  n : Nat            -- len(self.events)
  loop : Bool
  index : Nat
  additional : Int
deriving Repr, DecidableEq

def init (n : Nat) (loop : Bool) : St := ⟨n, loop, 0, 0⟩

/-- `count` property -/
def count (s : St) : Int := (s.index : Int) + s.additional

/-- `count.setter` -/
def setCount (s : St) (c : Int) : St := { s with additional := c - (s.index : Int) }

/-- `create_event`: the new state and the position of the returned event; `none` = an exception:
`StopIteration` (state unchanged) or, for an empty looping list, `ZeroDivisionError` raised by
`% len(self.events)` *after* `_index` was incremented -/
def create (s : St) : St × Option Nat :=
  if s.loop = false ∧ s.index ≥ s.n then (s, none)
  else if s.n = 0 then ({ s with index := s.index + 1 }, none)
  else ({ s with index := s.index + 1 }, some (s.index % s.n))

/-- `k` successive `create_event` calls: positions returned (stops at the first exception) -/
def run : St → Nat → St × List Nat
  | s, 0 => (s, [])
  | s, k + 1 =>
    match create s with
    | (s', none) => (s', [])
    | (s', some i) => let r := run s' k; (r.1, i :: r.2)

end PyrexD.ListGen
