/-!
# Object-graph model of `pyrex.signals` (property C04)

Core Lean only.  The model follows `Signal`, `EmptySignal`, `FunctionSignal` (and `GaussianNoise`,
user subclasses: only their class tag matters) of `/repo/pyrex/signals.py`.

* A *heap* maps array/list identities (`Nat`) to their content (`List Rat`): numpy arrays (`times`,
  `values`) and the Python lists of a `FunctionSignal` (`_functions`, `_t0s`, `_buffers`, `_factors`,
  `_filters` and the inner lists `_buffers[i]`, `_filters[i]`).  Function and filter objects are
  immutable and are represented by small natural codes stored as rationals.
* Signal *objects* live in an object store (`objs`), so that `0 + s` can return the very same object
  and in-place operations that rebind an attribute (`self._t0s = [...]`) are visible through every
  reference.
* Every constructor allocates fresh cells with a monotone counter (`Heap.next`).  Temporaries that
  the Python code allocates and drops before returning are not given ids (they are unobservable).
* The ids of the inner lists of `_buffers` / `_filters` are kept in the object record next to the id
  of the outer list (equivalent to keeping them in the outer cell as long as no outer list is shared
  between two objects, which is part of what `Inv` states and `C04_no_sharing_reachable` proves).
-/
namespace Sig

-- identities of arrays and lists are natural numbers
abbrev Arr := List Rat

/-! ## heap -/
structure Heap where
  cell : Nat → Arr
  next : Nat

def Heap.empty : Heap := ⟨fun _ => [], 0⟩

/-- allocate the given new cells at ids `next, next+1, …` -/
def Heap.allocs (h : Heap) (cs : List Arr) : Heap :=
  { cell := fun i => if h.next ≤ i ∧ i < h.next + cs.length then cs.getD (i - h.next) [] else h.cell i
    next := h.next + cs.length }

/-- in-place update of one cell -/
def Heap.set (h : Heap) (i : Nat) (a : Arr) : Heap :=
  { h with cell := fun j => if j = i then a else h.cell j }

/-- in-place update of several cells with one function -/
def Heap.setAll (h : Heap) (ids : List Nat) (f : Arr → Arr) : Heap :=
  { h with cell := fun j => if j ∈ ids then f (h.cell j) else h.cell j }

/-! ## classes and value types -/
inductive VT | undefined | voltage | field | power
  deriving DecidableEq, Repr

inductive Cls | signal | empty | func | gauss | userSig | userFunc
  deriving DecidableEq, Repr

/-- does the class define its own `__radd__` (the user subclasses of the harness do, calling
`super().__radd__`; none of the shipped classes does) -/
def Cls.overridesRadd : Cls → Bool
  | .userSig | .userFunc => true
  | _ => false

/-- `issubclass(c, d) and c is not d` for the modelled classes -/
def Cls.properSubclass : Cls → Cls → Bool
  | .empty, .signal | .func, .signal | .gauss, .signal | .userSig, .signal | .userFunc, .signal => true
  | .userFunc, .func => true
  | _, _ => false

inductive Body
  | arr (vals : Nat)
  | fn (fns t0s bufs facs filts : Nat) (bufIn filtIn : List Nat)

structure Sig where
  cls : Cls
  times : Nat
  vt : VT
  body : Body

def Sig.isFunc (s : Sig) : Bool := match s.body with | .fn .. => true | .arr _ => false
def Sig.isEmpty (s : Sig) : Bool := s.cls == .empty && !s.isFunc

/-- every array / list identity reachable from the object -/
def Sig.reach (s : Sig) : List Nat :=
  s.times :: match s.body with
    | .arr v => [v]
    | .fn a b c d e bi fi => [a, b, c, d, e] ++ bi ++ fi

/-! ## pure array helpers -/
def zeros (n : Nat) : Arr := List.replicate n 0
def addArr (a b : Arr) : Arr := List.zipWith (· + ·) a b
def scale (k : Rat) (a : Arr) : Arr := a.map (· * k)

/-- `Signal.__init__`: zero-pad short value arrays, truncate long ones -/
def fit (n : Nat) (vs : Arr) : Arr :=
  if vs.length < n then vs ++ zeros (n - vs.length) else vs.take n

/-- `np.interp(x, xp, fp, left=0, right=0)` on a non-decreasing grid, for `x ≥ xp[0]` -/
def interpAux : Arr → Arr → Rat → Rat
  | [x0], [y0], x => if x = x0 then y0 else 0
  | x0 :: x1 :: xs, y0 :: y1 :: ys, x =>
      if x < x1 then (if x = x0 then y0 else (y1 - y0) / (x1 - x0) * (x - x0) + y0)
      else interpAux (x1 :: xs) (y1 :: ys) x
  | _, _, _ => 0

def interp0 (xp fp : Arr) (x : Rat) : Rat :=
  match xp with
  | [] => 0
  | x0 :: _ => if x < x0 then 0 else interpAux xp fp x

/-! ## function-backed signals: pure content and its evaluation -/
structure FData where
  ts : Arr
  fns : Arr
  t0s : Arr
  facs : Arr
  bufs : List Arr
  filts : List Arr

/-- the pool of signal functions known to both sides of the correspondence run -/
def fnEval (k : Nat) (t : Rat) : Rat :=
  match k with
  | 0 => t
  | 1 => t * t
  | 2 => 1
  | 3 => 2 * t + 1
  | 4 => if t < 0 then -t else t
  | 5 => if 0 ≤ t then 1 else 0
  | 6 => (if t < 0 then -t else t) + 2 * t        -- scalar-only in the harness (math.fabs): TypeError on arrays
  | 7 => if t < 0 then -2 * t else t * t          -- scalar-only (`if t < 0`): ValueError on arrays
  | 8 => if 0 ≤ t then 3 * t + 1 else 1 - t       -- scalar-only, branch on the sign of t
  | 9 => (t - 2) * (t - 2)                         -- in the harness: `t -= 2; return t*t` (writes to its argument)
  | 10 => 2 * t + 1                                -- in the harness: `t *= 2; return t + 1` (writes to its argument)
  | _ => 0

/-- the pool of frequency responses: real scalar gains (the filter is then `gain · identity`) -/
def gain (k : Nat) : Rat :=
  match k with
  | 0 => 1 / 2
  | 1 => 2
  | 2 => -1
  | _ => 1

def code (q : Rat) : Nat := q.num.toNat

def gainProd (filt : Arr) : Rat := filt.foldl (fun g c => g * gain (code c)) 1

/-- `int(b/dt) + (1 if b % dt else 0)` -/
def nbuf (b dt : Rat) : Int :=
  let q := b / dt
  let tr : Int := if 0 ≤ q then q.floor else -((-q).floor)
  if (q.floor : Rat) = q then tr else tr + 1

/-- one component of `FunctionSignal.values`: `None` where Python raises -/
def compVals (ts : Arr) (fn t0 fac : Rat) (buf filt : Arr) : Option Arr :=
  match ts with
  | ta :: tb :: _ =>
    let dt := tb - ta
    -- `dt = 0`: `b/dt` is NaN and `int(NaN)` raises; a DECREASING grid (`dt < 0`) is evaluated normally
    -- as long as no buffer makes a point count negative
    if dt = 0 then none else
    let nb := nbuf (buf.getD 0 0) dt
    let na := nbuf (buf.getD 1 0) dt
    -- (`linspace(…, n_after+1)[1:]`: a trailing count of −1 still gives an empty extension)
    if nb < 0 ∨ na < -1 then none else
    let nb := nb.toNat
    let na := na.toNat
    let tl := ts.getLastD 0
    let lead := (List.range nb).map (fun k => ta - ((nb - k : Nat) : Rat) * dt)
    let trail := (List.range na).map (fun k => tl + ((k + 1 : Nat) : Rat) * dt)
    let full := lead ++ ts ++ trail
    let fv := full.map (fun t => fnEval (code fn) (t - t0) * fac)
    let fv := fv.map (· * gainProd filt)
    some ((fv.drop nb).take ts.length)
  | _ => none

/-- windows of all components, in order -/
def compWindows (ts : Arr) : Arr → Arr → Arr → List Arr → List Arr → Option (List Arr)
  | fn :: fns, t0 :: t0s, fac :: facs, buf :: bufs, filt :: filts =>
      match compVals ts fn t0 fac buf filt, compWindows ts fns t0s facs bufs filts with
      | some w, some ws => some (w :: ws)
      | _, _ => none
  | _, _, _, _, _ => some []

/-- `FunctionSignal.values` -/
def fnValues (d : FData) : Option Arr :=
  match d.ts with
  | _ :: _ :: _ =>
    match compWindows d.ts d.fns d.t0s d.facs d.bufs d.filts with
    | some ws => some (ws.foldl addArr (zeros d.ts.length))
    | none => none
  | _ => none

def readF (h : Heap) (s : Sig) : FData :=
  match s.body with
  | .fn a b _ d _ bi fi =>
      ⟨h.cell s.times, h.cell a, h.cell b, h.cell d, bi.map h.cell, fi.map h.cell⟩
  | .arr _ => ⟨h.cell s.times, [], [], [], [], []⟩

/-- `s.values` (`None` where Python raises) -/
def valuesOf (h : Heap) (s : Sig) : Option Arr :=
  match s.body with
  | .arr v => some (h.cell v)
  | .fn .. => fnValues (readF h s)

/-! ## allocation of whole objects -/
def allocEager (h : Heap) (cls : Cls) (vt : VT) (ts vs : Arr) : Heap × Sig :=
  (h.allocs [ts, vs], ⟨cls, h.next, vt, .arr (h.next + 1)⟩)

def allocF (h : Heap) (cls : Cls) (vt : VT) (d : FData) : Heap × Sig :=
  let b := h.next
  (h.allocs ([d.ts, d.fns, d.t0s, [], d.facs, []] ++ d.bufs ++ d.filts),
   ⟨cls, b, vt, .fn (b + 1) (b + 2) (b + 3) (b + 4) (b + 5)
      (List.range' (b + 6) d.bufs.length) (List.range' (b + 6 + d.bufs.length) d.filts.length)⟩)

/-! ## state, operations -/
structure St where
  heap : Heap
  objs : Nat → Option Sig
  nobj : Nat
  exts : List Nat

def St.init : St := ⟨Heap.empty, fun _ => none, 0, []⟩

inductive Operand | obj (k : Nat) | num (q : Rat)

inductive Op
  | ext (a : Arr)                                   -- an array owned by the caller
  | mk (cls : Cls) (t v : Nat) (vt : VT)             -- Signal / GaussianNoise (v = the normal tape) / user subclass
  | mkEmpty (t : Nat) (vt : VT)
  | mkFunc (cls : Cls) (t : Nat) (fn : Nat) (vt : VT)
  | copy (k : Nat)
  | add (l r : Operand)
  | mul (k : Nat) (q : Rat)
  | rmul (q : Rat) (k : Nat)
  | div (k : Nat) (q : Rat)
  | imul (k : Nat) (q : Rat)
  | idiv (k : Nat) (q : Rat)
  | withTimes (k : Nat) (t : Nat)
  | shift (k : Nat) (d : Rat)
  | filter (k : Nat) (c : Nat)
  | setBuffers (k : Nat) (lead trail : Option Rat) (force : Bool)

inductive Reply
  | obj (k : Nat)        -- a signal object (new or existing)
  | ext (i : Nat)
  | unit
  | errTimes             -- ValueError("Can't add signals with different times")
  | errTypes             -- ValueError("Can't add signals with different value types")
  | typeError            -- TypeError (unsupported operand / dt is None)
  | raise                -- another exception (IndexError, ValueError of numpy)
  | bad                  -- malformed request
  deriving DecidableEq, Repr

/-- install `s` as a new object -/
def St.push (st : St) (h : Heap) (s : Sig) : St × Reply :=
  ({ st with heap := h, objs := fun i => if i = st.nobj then some s else st.objs i, nobj := st.nobj + 1 },
   .obj st.nobj)

/-- rebind: replace object `k` by `s` -/
def St.rebind (st : St) (h : Heap) (k : Nat) (s : Sig) : St :=
  { st with heap := h, objs := fun i => if i = k then some s else st.objs i }

/-- install a freshly allocated object -/
def St.pushP (st : St) (p : Heap × Sig) : St × Reply := st.push p.1 p.2

/-- `new_signal.value_type = value_type` on an object that is not yet visible to anybody -/
def withVt (p : Heap × Sig) (vt : VT) : Heap × Sig := (p.1, { p.2 with vt := vt })

/-- `x.copy()` as a pure allocation -/
def copySig (h : Heap) (s : Sig) : Heap × Sig :=
  match s.body with
  | .arr v =>
    if s.isEmpty then allocEager h .empty s.vt (h.cell s.times) (zeros (h.cell s.times).length)
    else allocEager h .signal s.vt (h.cell s.times) (fit (h.cell s.times).length (h.cell v))
  | .fn .. => allocF h .func s.vt (readF h s)

/-- value-type part of `__add__`: `none` = refused -/
def coerce (a b : VT) : Option VT :=
  if a ≠ .undefined ∧ b ≠ .undefined ∧ a ≠ b then none
  else if a = .undefined then some b else some a

def FData.append (d e : FData) : FData :=
  ⟨d.ts, d.fns ++ e.fns, d.t0s ++ e.t0s, d.facs ++ e.facs, d.bufs ++ e.bufs, d.filts ++ e.filts⟩

/-- `a.__add__(b)` for two signal objects -/
def addSig (st : St) (a b : Sig) : St × Reply :=
  let h := st.heap
  if h.cell a.times ≠ h.cell b.times then (st, .errTimes) else
  match coerce a.vt b.vt with
  | none => (st, .errTypes)
  | some vt =>
    if a.isFunc then
      if b.isFunc then
        st.pushP (allocF h .func vt ((readF h a).append (readF h b)))
      else if b.isEmpty then
        st.pushP (withVt (copySig h a) vt)
      else
        match valuesOf h a, valuesOf h b with
        | some va, some vb =>
          st.pushP (allocEager h .signal vt (h.cell a.times) (fit (h.cell a.times).length (addArr va vb)))
        | _, _ => (st, .typeError)
    else if a.isEmpty then
      st.pushP (withVt (copySig h b) vt)
    else
      match valuesOf h a, valuesOf h b with
      | some va, some vb =>
        st.pushP (allocEager h .signal vt (h.cell a.times) (fit (h.cell a.times).length (addArr va vb)))
      | _, _ => (st, .typeError)

/-- `x.__radd__(other)`: `none` = `NotImplemented` -/
def raddNum (k : Nat) (q : Rat) : Option Reply := if q = 0 then some (.obj k) else none

/-- `x.__radd__(other)` for a signal object `other`: `other == 0` is `False` (identity comparison),
so the answer is `NotImplemented` -/
def raddObj (_k : Nat) : Option Reply := none

/-- Python's binary `+`, including the reflected-operand priority rule (a right operand whose
class is a proper subclass of the left one's and overrides `__radd__` is asked first;
`Signal.__radd__` answers `NotImplemented` unless the other operand equals 0) -/
def binAdd (st : St) : Operand → Operand → St × Reply
  | .obj i, .obj j =>
    match st.objs i, st.objs j with
    | some a, some b =>
      -- is `b.__radd__(a)` asked first?
      let first : Option Reply :=
        if b.cls.properSubclass a.cls && b.cls.overridesRadd then raddObj j else none
      match first with
      | some r => (st, r)
      | none => addSig st a b        -- `a.__add__(b)` never answers NotImplemented for a signal `b`
    | _, _ => (st, .bad)
  | .num q, .obj j =>
    match st.objs j with
    | some _ => match raddNum j q with
      | some r => (st, r)
      | none => (st, .typeError)
    | none => (st, .bad)
  | .obj i, .num _ =>
    match st.objs i with
    | some _ => (st, .typeError)      -- `__add__` -> NotImplemented, numbers have no matching `__radd__`
    | none => (st, .bad)
  | .num _, .num _ => (st, .bad)

/-- scaled copy: `x * q`, `q * x`, `x / q` (`q` already inverted for division) -/
def scaleSig (st : St) (s : Sig) (q : Rat) : St × Reply :=
  let h := st.heap
  match s.body with
  | .arr v =>
    st.pushP (allocEager h .signal s.vt (h.cell s.times) (fit (h.cell s.times).length (scale q (h.cell v))))
  | .fn .. =>
    let d := readF h s
    st.pushP (allocF h .func s.vt { d with facs := scale q d.facs })

/-- `x *= q`, `x /= q` -/
def iscaleSig (st : St) (k : Nat) (s : Sig) (q : Rat) : St × Reply :=
  let h := st.heap
  match s.body with
  | .arr v => ({ st with heap := h.set v (scale q (h.cell v)) }, .obj k)
  | .fn a b c d e bi fi =>
    -- `self._factors = [f * other for f in self._factors]`: a new list
    let h' := h.allocs [scale q (h.cell d)]
    (st.rebind h' k { s with body := .fn a b c h.next e bi fi }, .obj k)

def isNeg : Option Rat → Bool
  | some q => decide (q < 0)
  | none => false

def maxR (a b : Rat) : Rat := if a < b then b else a

/-- `set_buffers` on the inner buffer lists (in place) -/
def setBuf (lead trail : Option Rat) (force : Bool) (cur : Arr) : Arr :=
  let l0 := cur.getD 0 0
  let l1 := cur.getD 1 0
  let n0 := match lead with | some l => if force then l else maxR l l0 | none => l0
  let n1 := match trail with | some t => if force then t else maxR t l1 | none => l1
  [n0, n1]

def withTimesSig (st : St) (s : Sig) (t : Nat) : St × Reply :=
  let h := st.heap
  let nt := h.cell t
  match s.body with
  | .arr v =>
    if s.isEmpty then
      st.pushP (allocEager h .empty s.vt nt (zeros nt.length))
    else
      match h.cell s.times, nt with
      | [], _ :: _ => (st, .raise)    -- np.interp: array of sample points is empty
      | _, _ =>
        let nv := nt.map (interp0 (h.cell s.times) (h.cell v))
        st.pushP (allocEager h .signal s.vt nt (fit nt.length nv))
  | .fn .. =>
    let d := readF h s
    match nt, d.ts with
    | n0 :: _, o0 :: _ =>
      let nl := nt.getLastD 0
      let ol := d.ts.getLastD 0
      let bufs := if o0 ≤ n0 ∧ nl ≤ ol then d.bufs.map (setBuf (some (n0 - o0)) (some (ol - nl)) false) else d.bufs
      st.pushP (allocF h .func s.vt { d with ts := nt, bufs := bufs })
    | _, _ => (st, .raise)            -- IndexError on `new_times[0]` / `self.times[0]`

def step (st : St) : Op → St × Reply
  | .ext a =>
    ({ st with heap := st.heap.allocs [a], exts := st.heap.next :: st.exts }, .ext st.heap.next)
  | .mk cls t v vt =>
    if t ∈ st.exts ∧ v ∈ st.exts ∧ (cls = .signal ∨ cls = .userSig ∨ (cls = .gauss ∧ vt = .voltage)) then
      let ts := st.heap.cell t
      st.pushP (allocEager st.heap cls vt ts (fit ts.length (st.heap.cell v)))
    else (st, .bad)
  | .mkEmpty t vt =>
    if t ∈ st.exts then
      let ts := st.heap.cell t
      st.pushP (allocEager st.heap .empty vt ts (zeros ts.length))
    else (st, .bad)
  | .mkFunc cls t fn vt =>
    if t ∈ st.exts ∧ (cls = .func ∨ cls = .userFunc) then
      st.pushP (allocF st.heap cls vt ⟨st.heap.cell t, [(fn : Rat)], [0], [1], [[0, 0]], [[]]⟩)
    else (st, .bad)
  | .copy k =>
    match st.objs k with
    | some s => st.pushP (copySig st.heap s)
    | none => (st, .bad)
  | .add l r => binAdd st l r
  | .mul k q | .rmul q k =>
    match st.objs k with
    | some s => scaleSig st s q
    | none => (st, .bad)
  | .div k q =>
    match st.objs k with
    | some s =>
      -- division by zero: a function-backed signal divides its Python factors (`ZeroDivisionError`);
      -- a sampled one yields IEEE inf/nan, which ℚ cannot express: outside the model
      if q = 0 then (if s.isFunc then (st, .raise) else (st, .bad)) else scaleSig st s (1 / q)
    | none => (st, .bad)
  | .imul k q =>
    match st.objs k with
    | some s => iscaleSig st k s q
    | none => (st, .bad)
  | .idiv k q =>
    match st.objs k with
    | some s => if q = 0 then (if s.isFunc then (st, .raise) else (st, .bad)) else iscaleSig st k s (1 / q)
    | none => (st, .bad)
  | .withTimes k t =>
    match st.objs k with
    | some s => if t ∈ st.exts then withTimesSig st s t else (st, .bad)
    | none => (st, .bad)
  | .shift k d =>
    match st.objs k with
    | some s =>
      let h := st.heap.set s.times ((st.heap.cell s.times).map (· + d))   -- `self.times += dt`
      match s.body with
      | .arr _ => ({ st with heap := h }, .unit)
      | .fn a b c e f bi fi =>
        -- `self._t0s = [t+dt for t in self._t0s]`: a new list
        let h' := h.allocs [(h.cell b).map (· + d)]
        (st.rebind h' k { s with body := .fn a h.next c e f bi fi }, .unit)
    | none => (st, .bad)
  | .filter k c =>
    match st.objs k with
    | some s =>
      match s.body with
      | .arr _ =>
        if s.isEmpty then (st, .unit)       -- EmptySignal.filter_frequencies: pass
        else (st, .bad)                     -- FFT filtering of sampled signals is property C05, not modelled here
      | .fn _ _ _ _ _ _ fi =>               -- `group.append(...)` on every inner list, in place
        ({ st with heap := st.heap.setAll fi (· ++ [(c : Rat)]) }, .unit)
    | none => (st, .bad)
  | .setBuffers k lead trail force =>
    match st.objs k with
    | some s =>
      match s.body with
      | .arr _ => (st, .bad)
      | .fn _ _ _ _ _ bi _ =>
        if isNeg lead then (st, .raise)
        else if isNeg trail then
          -- the leading buffers have already been written when the trailing one is rejected
          ({ st with heap := st.heap.setAll bi (setBuf lead none force) }, .raise)
        else ({ st with heap := st.heap.setAll bi (setBuf lead trail force) }, .unit)
    | none => (st, .bad)

def run (st : St) (ops : List Op) : St := ops.foldl (fun s o => (step s o).1) st

/-! ## generating functions with state

In `step` the generating functions are immutable codes.  A `FunctionSignal` may also be built from a
STATEFUL callable object (a template with `.amplitude` / `.table`, a `functools.partial` over a
mutable list).  `copy()` and `__add__` pass the function list through `copy.deepcopy`: plain
functions come back as the same object (they are immutable), callable objects are duplicated.  This
small model carries exactly that: the state of a callable object lives in a heap cell
`[amplitude, offset]`. -/

inductive FnRef
  | plain (code : Nat)
  | object (code : Nat) (state : Nat)

def fnRefEval (h : Heap) : FnRef → Rat → Rat
  | .plain k, t => fnEval k t
  | .object k c, t => (h.cell c).getD 0 1 * fnEval k t + (h.cell c).getD 1 0

def FnRef.stateIds : FnRef → List Nat
  | .plain _ => []
  | .object _ c => [c]

/-- `copy.deepcopy(self._functions)` -/
def deepcopyFns (h : Heap) : List FnRef → Heap × List FnRef
  | [] => (h, [])
  | .plain k :: r => ((deepcopyFns h r).1, .plain k :: (deepcopyFns h r).2)
  | .object k c :: r =>
      ((deepcopyFns (h.allocs [h.cell c]) r).1, .object k h.next :: (deepcopyFns (h.allocs [h.cell c]) r).2)

end Sig
