/-! Float twin header: the scalar type `R` is IEEE double, every primitive is Lean's `Float` one.
GENERATED FILE (gen_twins.py) — edit `twin/*.body` / `twin/header.float.lean`. -/
namespace PyrexF
abbrev R := Float
@[inline] def Rexp (x : R) : R := Float.exp x
@[inline] def Rlog (x : R) : R := Float.log x
@[inline] def Rsqrt (x : R) : R := Float.sqrt x
@[inline] def Rsin (x : R) : R := Float.sin x
@[inline] def Rcos (x : R) : R := Float.cos x
@[inline] def Rtan (x : R) : R := Float.tan x
@[inline] def Rasin (x : R) : R := Float.asin x
@[inline] def Racos (x : R) : R := Float.acos x
@[inline] def Ratan (x : R) : R := Float.atan x
@[inline] def Ratan2 (y x : R) : R := Float.atan2 y x
@[inline] def Rabs (x : R) : R := Float.abs x
@[inline] def Rpow (x y : R) : R := Float.pow x y
@[inline] def Rpi : R := 3.141592653589793
@[inline] def RofNat (n : Nat) : R := Float.ofNat n
@[inline] def RofInt (n : Int) : R := Float.ofInt n
/-- ⌊x⌋ as an integer -/
@[inline] def Rfloor (x : R) : Int := (Float.floor x).toInt64.toInt
/-- ⌈x⌉ as an integer -/
@[inline] def Rceil (x : R) : Int := (Float.ceil x).toInt64.toInt
/-- truncation toward zero, Python's `int(x)` -/
@[inline] def Rtrunc (x : R) : Int := x.toInt64.toInt

end PyrexF
