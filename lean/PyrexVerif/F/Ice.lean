
/-! Float twin header: the scalar type `R` is IEEE double, every primitive is Lean's `Float` one.
GENERATED FILE (gen_twins.py) — edit `twin/*.body` / `twin/header.float.lean`. -/
namespace PyrexF
abbrev R := Float
@[inline] def Rexp (x : R) : R := Float.exp x
@[inline] def Rlog (x : R) : R := Float.log x
@[inline] def Rsqrt (x : R) : R := Float.sqrt x
@[inline] def Rsin (x : R) : R := Float.sin x
@[inline] def Rcos (x : R) : R := Float.cos x
@[inline] def Rtan (x : R) : R := Float.tan x
@[inline] def Rasin (x : R) : R := Float.asin x
@[inline] def Racos (x : R) : R := Float.acos x
@[inline] def Ratan (x : R) : R := Float.atan x
@[inline] def Ratan2 (y x : R) : R := Float.atan2 y x
@[inline] def Rabs (x : R) : R := Float.abs x
@[inline] def Rpow (x y : R) : R := Float.pow x y
@[inline] def Rpi : R := 3.141592653589793
@[inline] def RofNat (n : Nat) : R := Float.ofNat n
@[inline] def RofInt (n : Int) : R := Float.ofInt n
/-- ⌊x⌋ as an integer -/
@[inline] def Rfloor (x : R) : Int := (Float.floor x).toInt64.toInt
/-- ⌈x⌉ as an integer -/
@[inline] def Rceil (x : R) : Int := (Float.ceil x).toInt64.toInt
/-- truncation toward zero, Python's `int(x)` -/
@[inline] def Rtrunc (x : R) : Int := x.toInt64.toInt

-- ===== body (identical in both twins) =====
/-! # Exponential-profile ice (`pyrex/ice_model.py`: AntarcticIce and subclasses) — index part

`n(z) = n0 − k·exp(a·z)` inside `[lo, hi]`, the declared indices outside.  The optional
`index_above`/`index_below` (Python `None` = "continue with the boundary value") are `Option R`. -/

structure Ice where
  n0 : R
  k  : R
  a  : R
  lo : R
  hi : R
  above : Option R
  below : Option R

/-- the exponential profile, without range handling -/
def Ice.profile (I : Ice) (z : R) : R := I.n0 - I.k * Rexp (I.a * z)

def Ice.indexAbove (I : Ice) : R := match I.above with
  | some n => n
  | none => I.profile I.hi
def Ice.indexBelow (I : Ice) : R := match I.below with
  | some n => n
  | none => I.profile I.lo

/-- `AntarcticIce.index` (scalar branch; the array branch is the pointwise map, see `indexArr`) -/
def Ice.index (I : Ice) (z : R) : R :=
  if z < I.lo then I.indexBelow else if z > I.hi then I.indexAbove else I.profile z

def Ice.indexArr (I : Ice) (zs : List R) : List R := zs.map I.index

/-- z-component of `AntarcticIce.gradient` -/
def Ice.gradient (I : Ice) (z : R) : R := -I.k * I.a * Rexp (I.a * z)

/-- `AntarcticIce.depth_with_index` (scalar branch) -/
def Ice.depthWithIndex (I : Ice) (n : R) : R :=
  if n < I.index I.hi then I.hi else if n > I.index I.lo then I.lo
  else Rlog ((I.n0 - n) / I.k) / I.a

def Ice.contains (I : Ice) (z : R) : Bool := I.lo ≤ z && z ≤ I.hi

end PyrexF
