import PyrexVerif.R.Antenna
import Mathlib.Tactic.LinearCombination
import Mathlib.Tactic.Ring
import Mathlib.Tactic.FieldSimp
import Mathlib.Tactic.Linarith
import Mathlib.Tactic.Positivity
/-! Helper lemmas for C08: rotations of ℝ³ written component-wise (`Mat3`), preservation of dot
products and norms, `(Ma)×(Mb) = M(a×b)`, orthonormal-frame norm identity. -/
namespace PyrexR.Ant

@[ext] theorem V3.ext' {a b : V3} (hx : a.x = b.x) (hy : a.y = b.y) (hz : a.z = b.z) : a = b := by
  cases a; cases b; simp_all

/-- `M ∈ SO(3)`: `MᵀM = 1` (columns orthonormal) and `det M = 1` -/
structure Mat3.IsRotation (M : Mat3) : Prop where
  c11 : M.col1.dot M.col1 = 1
  c22 : M.col2.dot M.col2 = 1
  c33 : M.col3.dot M.col3 = 1
  c12 : M.col1.dot M.col2 = 0
  c13 : M.col1.dot M.col3 = 0
  c23 : M.col2.dot M.col3 = 0
  det : M.det = 1

theorem Mat3.IsRotation.dot_mulVec {M : Mat3} (h : M.IsRotation) (u v : V3) :
    (M.mulVec u).dot (M.mulVec v) = u.dot v := by
  have h11 := h.c11; have h22 := h.c22; have h33 := h.c33
  have h12 := h.c12; have h13 := h.c13; have h23 := h.c23
  simp only [V3.dot, Mat3.mulVec, Mat3.col1, Mat3.col2, Mat3.col3] at *
  linear_combination (u.x * v.x) * h11 + (u.y * v.y) * h22 + (u.z * v.z) * h33
    + (u.x * v.y + u.y * v.x) * h12 + (u.x * v.z + u.z * v.x) * h13 + (u.y * v.z + u.z * v.y) * h23

/-- a rotation equals its cofactor matrix -/
theorem Mat3.IsRotation.cofactor {M : Mat3} (h : M.IsRotation) :
    M.r1 = M.r2.cross M.r3 ∧ M.r2 = M.r3.cross M.r1 ∧ M.r3 = M.r1.cross M.r2 := by
  have h11 := h.c11; have h22 := h.c22; have h33 := h.c33
  have h12 := h.c12; have h13 := h.c13; have h23 := h.c23; have hd := h.det
  obtain ⟨⟨a, b, c⟩, ⟨d, e, f⟩, ⟨g, k, l⟩⟩ := M
  simp only [V3.dot, V3.cross, Mat3.col1, Mat3.col2, Mat3.col3, Mat3.det] at *
  refine ⟨?_, ?_, ?_⟩ <;> ext <;> simp only
  · linear_combination (-a) * hd + (e*l - f*k) * h11 + (f*g - d*l) * h12 + (d*k - e*g) * h13
  · linear_combination (-b) * hd + (e*l - f*k) * h12 + (f*g - d*l) * h22 + (d*k - e*g) * h23
  · linear_combination (-c) * hd + (e*l - f*k) * h13 + (f*g - d*l) * h23 + (d*k - e*g) * h33
  · linear_combination (-d) * hd + (k*c - l*b) * h11 + (l*a - g*c) * h12 + (g*b - k*a) * h13
  · linear_combination (-e) * hd + (k*c - l*b) * h12 + (l*a - g*c) * h22 + (g*b - k*a) * h23
  · linear_combination (-f) * hd + (k*c - l*b) * h13 + (l*a - g*c) * h23 + (g*b - k*a) * h33
  · linear_combination (-g) * hd + (b*f - c*e) * h11 + (c*d - a*f) * h12 + (a*e - b*d) * h13
  · linear_combination (-k) * hd + (b*f - c*e) * h12 + (c*d - a*f) * h22 + (a*e - b*d) * h23
  · linear_combination (-l) * hd + (b*f - c*e) * h13 + (c*d - a*f) * h23 + (a*e - b*d) * h33


theorem Mat3.IsRotation.cross_mulVec {M : Mat3} (h : M.IsRotation) (u v : V3) :
    (M.mulVec u).cross (M.mulVec v) = M.mulVec (u.cross v) := by
  obtain ⟨e1, e2, e3⟩ := h.cofactor
  obtain ⟨⟨a, b, c⟩, ⟨d, e, f⟩, ⟨g, k, l⟩⟩ := M
  have e1x := congrArg V3.x e1; have e1y := congrArg V3.y e1; have e1z := congrArg V3.z e1
  have e2x := congrArg V3.x e2; have e2y := congrArg V3.y e2; have e2z := congrArg V3.z e2
  have e3x := congrArg V3.x e3; have e3y := congrArg V3.y e3; have e3z := congrArg V3.z e3
  simp only [V3.cross] at e1x e1y e1z e2x e2y e2z e3x e3y e3z
  ext <;> simp only [V3.cross, V3.dot, Mat3.mulVec]
  · linear_combination (-(u.y * v.z - u.z * v.y)) * e1x - (u.z * v.x - u.x * v.z) * e1y
      - (u.x * v.y - u.y * v.x) * e1z
  · linear_combination (-(u.y * v.z - u.z * v.y)) * e2x - (u.z * v.x - u.x * v.z) * e2y
      - (u.x * v.y - u.y * v.x) * e2z
  · linear_combination (-(u.y * v.z - u.z * v.y)) * e3x - (u.z * v.x - u.x * v.z) * e3y
      - (u.x * v.y - u.y * v.x) * e3z

theorem V3.norm_eq (a : V3) : a.norm = Real.sqrt (a.dot a) := rfl

theorem Mat3.IsRotation.norm_mulVec {M : Mat3} (h : M.IsRotation) (v : V3) :
    (M.mulVec v).norm = v.norm := by
  rw [V3.norm_eq, V3.norm_eq, h.dot_mulVec]

theorem isZero_iff (x : ℝ) : isZero x ↔ x = 0 := by
  unfold isZero; constructor
  · rintro ⟨h1, h2⟩; linarith
  · rintro rfl; exact ⟨le_refl _, le_refl _⟩

theorem Mat3.mulVec_div (M : Mat3) (v : V3) (m : ℝ) :
    M.mulVec ⟨v.x / m, v.y / m, v.z / m⟩ =
      ⟨(M.mulVec v).x / m, (M.mulVec v).y / m, (M.mulVec v).z / m⟩ := by
  ext <;> simp only [Mat3.mulVec, V3.dot] <;> ring

theorem Mat3.IsRotation.normalize_mulVec {M : Mat3} (h : M.IsRotation) (v : V3) :
    (M.mulVec v).normalize = M.mulVec v.normalize := by
  unfold V3.normalize
  simp only [h.norm_mulVec]
  by_cases hz : isZero v.norm
  · simp [hz]
  · simp only [hz, if_false]; rw [Mat3.mulVec_div]

theorem Mat3.mulVec_smul (M : Mat3) (c : ℝ) (v : V3) :
    M.mulVec (V3.smul c v) = V3.smul c (M.mulVec v) := by
  ext <;> simp only [Mat3.mulVec, V3.dot, V3.smul] <;> ring

theorem V3.sub_sub_self (p n : V3) : (p.sub n).sub p = V3.smul (-1) n := by
  ext <;> simp only [V3.sub, V3.smul] <;> ring

theorem V3.add_sub_self (p v : V3) : (p.add v).sub p = v := by
  ext <;> simp only [V3.sub, V3.add] <;> ring

/-- the antenna with every axis rotated by `M` (position `p'` arbitrary) -/
def Antenna.rotate (A : Antenna) (M : Mat3) (p' : V3) : Antenna :=
  ⟨p', M.mulVec A.zAxis, M.mulVec A.xAxis, A.af, A.eff⟩

theorem Antenna.frame_rotate {M : Mat3} (h : M.IsRotation) (A : Antenna) (p' v : V3) :
    (A.rotate M p').frame.mulVec (M.mulVec v) = A.frame.mulVec v := by
  ext
  · show (M.mulVec A.xAxis).dot (M.mulVec v) = A.xAxis.dot v
    exact h.dot_mulVec _ _
  · show ((M.mulVec A.zAxis).cross (M.mulVec A.xAxis)).dot (M.mulVec v) = (A.zAxis.cross A.xAxis).dot v
    rw [h.cross_mulVec, h.dot_mulVec]
  · show (M.mulVec A.zAxis).dot (M.mulVec v) = A.zAxis.dot v
    exact h.dot_mulVec _ _

theorem setOrientation_rotate {M : Mat3} (h : M.IsRotation) (z x : V3) :
    setOrientation (M.mulVec z) (M.mulVec x) =
      (setOrientation z x).map (fun a => (M.mulVec a.1, M.mulVec a.2)) := by
  unfold setOrientation
  simp only [h.normalize_mulVec, h.dot_mulVec]
  split_ifs <;> rfl

theorem mkAntenna_rotate {M : Mat3} (h : M.IsRotation) (p p' z x : V3) (af eff : ℝ) :
    mkAntenna p' (M.mulVec z) (M.mulVec x) af eff =
      (mkAntenna p z x af eff).map (fun A => A.rotate M p') := by
  unfold mkAntenna
  rw [setOrientation_rotate h]
  cases setOrientation z x with
  | none => rfl
  | some a => rfl

/-- the polarisation gain reads the polarisation only through its antenna-frame components -/
def FrameCovariant (pg : Antenna → V3 → ℝ) : Prop :=
  ∀ (A A' : Antenna) (p p' : V3), A.frame.mulVec p = A'.frame.mulVec p' → pg A p = pg A' p'

theorem frameCovariant_unit : FrameCovariant unitPolarization := fun _ _ _ _ _ => rfl

theorem frameCovariant_dipole : FrameCovariant dipolePolarization := by
  intro A A' p p' h
  have := congrArg V3.z h
  simpa [Antenna.frame, Mat3.mulVec, dipolePolarization] using this

/-- orthonormal-frame identity: the components in the frame `(x, z×x, z)` have the norm of `v` -/
theorem frame_norm_sq (x z v : V3) (hx : x.dot x = 1) (hz : z.dot z = 1) (hzx : z.dot x = 0) :
    (x.dot v) * (x.dot v) + ((z.cross x).dot v) * ((z.cross x).dot v) + (z.dot v) * (z.dot v)
      = v.dot v := by
  simp only [V3.dot, V3.cross] at *
  linear_combination ((x.x*x.x + x.y*x.y + x.z*x.z) * (v.x*v.x + v.y*v.y + v.z*v.z)
      - (x.x*v.x + x.y*v.y + x.z*v.z)^2) * hz
    + ((v.x*v.x + v.y*v.y + v.z*v.z) - (z.x*v.x + z.y*v.y + z.z*v.z)^2) * hx
    + (-(z.x*x.x + z.y*x.y + z.z*x.z) * (v.x*v.x + v.y*v.y + v.z*v.z)
      + 2 * (z.x*v.x + z.y*v.y + z.z*v.z) * (x.x*v.x + x.y*v.y + x.z*v.z)) * hzx

theorem V3.dot_self_nonneg (v : V3) : 0 ≤ v.dot v := by
  simp only [V3.dot]; nlinarith [mul_self_nonneg v.x, mul_self_nonneg v.y, mul_self_nonneg v.z]

theorem V3.normalize_dot_self (v : V3) (hv : v.norm ≠ 0) : v.normalize.dot v.normalize = 1 := by
  have hz : ¬ isZero v.norm := by rw [isZero_iff]; exact hv
  have hsq : v.norm * v.norm = v.dot v := by
    rw [V3.norm_eq]; exact Real.mul_self_sqrt v.dot_self_nonneg
  unfold V3.normalize
  simp only [hz, if_false, V3.dot] at *
  field_simp
  linear_combination -hsq


theorem V3.norm_ne_zero_of_comp (c : V3) (h : ¬ (isZero c.x ∧ isZero c.y ∧ isZero c.z)) : c.norm ≠ 0 := by
  intro h0
  apply h
  rw [V3.norm_eq, Real.sqrt_eq_zero c.dot_self_nonneg] at h0
  simp only [V3.dot] at h0
  simp only [isZero_iff]
  refine ⟨?_, ?_, ?_⟩ <;> nlinarith [mul_self_nonneg c.x, mul_self_nonneg c.y, mul_self_nonneg c.z]

theorem dipoleOrtho_spec (o : V3) (tape : List V3) (c : V3) (h : dipoleOrtho o tape = some c) :
    (∃ t, c = o.cross t) ∧ c.norm ≠ 0 := by
  induction tape with
  | nil => simp [dipoleOrtho] at h
  | cons t rest ih =>
    unfold dipoleOrtho at h
    by_cases hz : isZero (o.cross t).x ∧ isZero (o.cross t).y ∧ isZero (o.cross t).z
    · simp only [hz, and_self, if_true] at h; exact ih h
    · simp only [hz, if_false, Option.some.injEq] at h
      subst h
      exact ⟨⟨t, rfl⟩, V3.norm_ne_zero_of_comp _ hz⟩

theorem V3.normalize_dot_normalize (u v : V3) (hu : u.norm ≠ 0) (hv : v.norm ≠ 0) :
    u.normalize.dot v.normalize = u.dot v / (u.norm * v.norm) := by
  have hzu : ¬ isZero u.norm := by rw [isZero_iff]; exact hu
  have hzv : ¬ isZero v.norm := by rw [isZero_iff]; exact hv
  unfold V3.normalize
  simp only [hzu, hzv, if_false, V3.dot]
  field_simp

theorem V3.dot_cross_self (o t : V3) : o.dot (o.cross t) = 0 := by
  simp only [V3.dot, V3.cross]; ring

/-- pointwise sum of value lists in the order Python's `sum` adds them -/
def addAll : List (List ℝ) → List ℝ
  | [] => []
  | r :: rs => rs.foldl (List.zipWith (· + ·)) r

theorem allSome_map_some {α : Type} (l : List α) : allSome (l.map some) = some l := by
  induction l with
  | nil => rfl
  | cons a l ih => simp [allSome, ih]

theorem sumSigs_same_grid (g : Nat) (acc : List ℝ) (rs : List (List ℝ)) :
    sumSigs (some ⟨g, VType.voltage, acc⟩) (rs.map (fun v => (⟨g, VType.voltage, v⟩ : Sig)))
      = some ⟨g, VType.voltage, rs.foldl (List.zipWith (· + ·)) acc⟩ := by
  induction rs generalizing acc with
  | nil => rfl
  | cons r rs ih => simp [sumSigs, addSig, ih]

theorem foldl_zipWith_getElem (rs : List (List ℝ)) (acc : List ℝ) (n j : Nat) (hj : j < n)
    (hacc : acc.length = n) (hrs : ∀ r ∈ rs, r.length = n) :
    ∃ h : j < (rs.foldl (List.zipWith (· + ·)) acc).length,
      (rs.foldl (List.zipWith (· + ·)) acc)[j] = acc[j]'(by omega) + (rs.map (fun r => r.getD j 0)).sum := by
  induction rs generalizing acc with
  | nil => exact ⟨by simpa [hacc] using hj, by simp⟩
  | cons r rs ih =>
    have hr : r.length = n := hrs r (by simp)
    have hlen : (List.zipWith (· + ·) acc r).length = n := by simp [hacc, hr]
    obtain ⟨h, e⟩ := ih (List.zipWith (· + ·) acc r) hlen (fun r' hr' => hrs r' (by simp [hr']))
    refine ⟨by simpa using h, ?_⟩
    simp only [List.foldl_cons, e, List.getElem_zipWith, List.map_cons, List.sum_cons]
    have : r.getD j 0 = r[j]'(by omega) := by simp [List.getD_eq_getElem?_getD, hr, hj]
    rw [this]; ring

/-- `filt` is linear on equally long value lists (what C05 proves of `filter_frequencies`) -/
def LinearFilt (filt : List ℝ → List ℝ) : Prop :=
  ∀ (a b : ℝ) (u v : List ℝ), u.length = v.length →
    filt (List.zipWith (fun x y => a * x + b * y) u v)
      = List.zipWith (fun x y => a * x + b * y) (filt u) (filt v)

/-- the gain product `d_gain · p_gain · efficiency` of `apply_response` -/
noncomputable def gainProduct (A : Antenna) (dg : ℝ → ℝ → ℝ) (pg : Antenna → V3 → ℝ)
    (direction polarization : Option V3) : ℝ :=
  (match direction with
    | none => 1
    | some d => dg (arrivalAngles A d).1 (arrivalAngles A d).2)
  * (match polarization with
    | none => 1
    | some p => pg A p.normalize)
  * A.eff


/-! ### the zero-padded DFT filter of the driver is linear -/

/-- linear combination of complex numbers (pairs) with real coefficients -/
def lin2 (a b : ℝ) (p q : ℝ × ℝ) : ℝ × ℝ := (a * p.1 + b * q.1, a * p.2 + b * q.2)

theorem dftSum_lin (sgn : ℝ) (n k : Nat) (a b : ℝ) (X Y : List (ℝ × ℝ)) (h : X.length = Y.length)
    (m : Nat) :
    dftSum sgn n k m (List.zipWith (lin2 a b) X Y)
      = lin2 a b (dftSum sgn n k m X) (dftSum sgn n k m Y) := by
  induction X generalizing Y m with
  | nil =>
    cases Y with
    | nil => simp [dftSum, lin2]
    | cons _ _ => simp at h
  | cons x X ih =>
    cases Y with
    | nil => simp at h
    | cons y Y =>
      simp only [List.zipWith_cons_cons, dftSum]
      rw [ih Y (by simpa using h)]
      simp only [lin2, cadd, cmul]
      ext <;> simp only <;> ring

theorem zipWith_cmul_lin (a b : ℝ) (H S T : List (ℝ × ℝ)) :
    List.zipWith cmul H (List.zipWith (lin2 a b) S T)
      = List.zipWith (lin2 a b) (List.zipWith cmul H S) (List.zipWith cmul H T) := by
  induction H generalizing S T with
  | nil => simp
  | cons h H ih =>
    cases S with
    | nil => simp
    | cons s S =>
      cases T with
      | nil => simp
      | cons t T =>
        simp only [List.zipWith_cons_cons, ih]
        congr 1
        simp only [lin2, cmul]
        ext <;> simp only <;> ring

/-- `dftFilter H` (what the driver uses as `filt`) is linear for every response list `H` -/
theorem dftFilter_linear (H : List (ℝ × ℝ)) : LinearFilt (dftFilter H) := by
  intro a b u v huv
  have hlen : (List.zipWith (fun x y => a * x + b * y) u v).length = u.length := by
    simp [huv]
  have huv' : u.length = v.length := huv
  unfold dftFilter
  simp only [hlen, ← huv]
  set N := u.length with hN
  have hpad : (List.zipWith (fun x y => a * x + b * y) u v).map (fun x => (x, (0 : ℝ)))
        ++ List.replicate N ((0 : ℝ), (0 : ℝ))
      = List.zipWith (lin2 a b) (u.map (fun x => (x, (0 : ℝ))) ++ List.replicate N ((0 : ℝ), (0 : ℝ)))
          (v.map (fun x => (x, (0 : ℝ))) ++ List.replicate N ((0 : ℝ), (0 : ℝ))) := by
    rw [List.zipWith_append (by simp; omega), List.zipWith_map, List.map_zipWith]
    congr 1
    · congr 1
      funext x y
      simp [lin2]
    · simp [lin2]
  rw [hpad]
  have hspec : (List.range (2 * N)).map (fun k => dftSum (-1) (2 * N) k 0
        (List.zipWith (lin2 a b) (u.map (fun x => (x, (0 : ℝ))) ++ List.replicate N ((0 : ℝ), (0 : ℝ)))
          (v.map (fun x => (x, (0 : ℝ))) ++ List.replicate N ((0 : ℝ), (0 : ℝ)))))
      = List.zipWith (lin2 a b)
          ((List.range (2 * N)).map (fun k => dftSum (-1) (2 * N) k 0
            (u.map (fun x => (x, (0 : ℝ))) ++ List.replicate N ((0 : ℝ), (0 : ℝ)))))
          ((List.range (2 * N)).map (fun k => dftSum (-1) (2 * N) k 0
            (v.map (fun x => (x, (0 : ℝ))) ++ List.replicate N ((0 : ℝ), (0 : ℝ))))) := by
    rw [List.zipWith_map, List.zipWith_self]
    apply List.map_congr_left
    intro k _
    exact dftSum_lin _ _ _ _ _ _ _ (by simp; omega) _
  rw [hspec, zipWith_cmul_lin, List.zipWith_map, List.zipWith_self]
  apply List.map_congr_left
  intro j _
  rw [dftSum_lin _ _ _ _ _ _ _ (by simp)]
  simp only [lin2]
  ring

end PyrexR.Ant
