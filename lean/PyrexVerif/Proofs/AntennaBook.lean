import PyrexVerif.D.AntennaSM
/-!
Helper lemmas for C09 (bookkeeping part): the cache-coherence invariant of the antenna and
antenna-system state machines and its preservation by every operation.  Core Lean only.
-/
namespace Ant

/-! ### generic facts about the shared cache loops -/

/-- the trigger cache is a prefix of the per-waveform trigger decisions -/
def TrigInv (trig : Wave → Bool) (aw : List Wave) (tr : List Bool) : Prop :=
  tr = (aw.take tr.length).map trig ∧ tr.length ≤ aw.length

theorem catchAll_fst (full : List Time → Wave) (sigs aw : List Wave) (tr : List Bool)
    (hle : aw.length ≤ sigs.length)
    (hfull : aw.length = sigs.length → aw = sigs.map (fun s => full (timesOf s))) :
    (catchAll full sigs aw tr).1 = sigs.map (fun s => full (timesOf s)) := by
  unfold catchAll
  by_cases h : 0 < aw.length ∧ aw.length < sigs.length
  · simp [h]
  · simp only [h, if_false]
    by_cases h0 : aw.length = 0
    · have : aw = [] := List.eq_nil_of_length_eq_zero h0
      subst this; simp
    · have : aw.length = sigs.length := by omega
      rw [this, List.drop_length]
      simpa using hfull this

theorem catchAll_trigInv (trig : Wave → Bool) (full : List Time → Wave) (sigs aw : List Wave)
    (tr : List Bool) (h : TrigInv trig aw tr) :
    TrigInv trig (catchAll full sigs aw tr).1 (catchAll full sigs aw tr).2 := by
  unfold catchAll
  by_cases hc : 0 < aw.length ∧ aw.length < sigs.length
  · simp [hc, TrigInv]
  · simp only [hc, if_false]
    obtain ⟨h1, h2⟩ := h
    refine ⟨?_, ?_⟩
    · rw [List.take_append_of_le_length h2]; exact h1
    · simp; omega

theorem catchTrig_eq (trig : Wave → Bool) (aw : List Wave) (tr : List Bool)
    (h : TrigInv trig aw tr) : catchTrig trig aw tr = aw.map trig := by
  unfold catchTrig
  obtain ⟨h1, _⟩ := h
  have key : ∀ k, (aw.take k).map trig ++ (aw.drop k).map trig = aw.map trig := by
    intro k; rw [← List.map_append, List.take_append_drop]
  have h2 : tr ++ (aw.drop tr.length).map trig =
      (aw.take tr.length).map trig ++ (aw.drop tr.length).map trig := by rw [← h1]
  rw [h2, key]

theorem trigInv_full (trig : Wave → Bool) (aw : List Wave) : TrigInv trig aw (aw.map trig) := by
  simp [TrigInv]

theorem triggeredOf_map (trig : Wave → Bool) (aw : List Wave) :
    triggeredOf aw (aw.map trig) = aw.filter trig := by
  unfold triggeredOf
  induction aw with
  | nil => simp
  | cons w r ih =>
    simp only [List.map_cons, List.zip_cons_cons, List.filter_cons]
    by_cases h : trig w = true
    · simp [h, ih]
    · simp [h, ih]

theorem timesOf_withTimes (w : Wave) (ts : List Time) : timesOf (withTimes w ts) = ts := by
  simp [timesOf, withTimes, List.map_map, Function.comp_def]

theorem timesOf_fullWave (cfg : Cfg) (m : Option Nat) (sigs : List Wave) (ts : List Time) :
    timesOf (fullWave cfg m sigs ts) = ts := by
  unfold fullWave; exact timesOf_withTimes _ _

theorem timesOf_sysFull (c : SysCfg) (m : Option Nat) (sigs : List Wave) (ts : List Time) :
    timesOf (sysFull c m sigs ts) = ts := by
  unfold sysFull; exact timesOf_withTimes _ _

/-- without noise the waveform does not depend on the noise master -/
theorem fullWave_noiseless (cfg : Cfg) (h : cfg.noisy = false) (m m' : Option Nat)
    (sigs : List Wave) (ts : List Time) : fullWave cfg m sigs ts = fullWave cfg m' sigs ts := by
  unfold fullWave noiseVal; simp [h]

theorem sysFull_noiseless (c : SysCfg) (h : c.ant.noisy = false) (m m' : Option Nat)
    (sigs : List Wave) (ts : List Time) : sysFull c m sigs ts = sysFull c m' sigs ts := by
  unfold sysFull; rw [fullWave_noiseless c.ant h m m']

/-! ### the antenna -/

/-- cache coherence of an antenna state.  `F` is the `full_waveform` of the object owning the
caches (`fullWave` for an antenna, `sysFull` for a system). -/
structure CacheInv (noisy : Bool) (trig : Wave → Bool)
    (F : Option Nat → List Wave → List Time → Wave)
    (sigs aw : List Wave) (tr : List Bool) (master : Option Nat) : Prop where
  len_le : aw.length ≤ sigs.length
  full : aw.length = sigs.length → aw = sigs.map (fun s => F master sigs (timesOf s))
  trig : TrigInv trig aw tr
  master : noisy = true → aw ≠ [] → master ≠ none

def Inv (cfg : Cfg) (st : State) : Prop :=
  CacheInv cfg.noisy cfg.trig (fullWave cfg) st.signals st.allWaves st.triggers st.master ∧
  ∀ e, st.master = some e → e < st.nextEpoch

theorem touch_signals (st : State) : (touch st).signals = st.signals := by
  unfold touch; split <;> rfl
theorem touch_allWaves (st : State) : (touch st).allWaves = st.allWaves := by
  unfold touch; split <;> rfl
theorem touch_triggers (st : State) : (touch st).triggers = st.triggers := by
  unfold touch; split <;> rfl
theorem touch_master_ne (st : State) : (touch st).master ≠ none := by
  unfold touch; split <;> simp_all
theorem touch_of_some (st : State) (h : st.master ≠ none) : touch st = st := by
  unfold touch; split
  · rfl
  · contradiction
theorem touch_epoch (st : State) (h : ∀ e, st.master = some e → e < st.nextEpoch) :
    ∀ e, (touch st).master = some e → e < (touch st).nextEpoch := by
  unfold touch; split
  · exact h
  · intro e he; simp at he; subst he; simp

/-- the invariant does not notice the creation of the noise master -/
theorem cacheInv_touch {noisy : Bool} {trig : Wave → Bool} {F : Option Nat → List Wave → List Time → Wave}
    (hF : noisy = false → ∀ m m' s t, F m s t = F m' s t)
    {sigs aw : List Wave} {tr : List Bool} (st : State)
    (h : CacheInv noisy trig F sigs aw tr st.master) :
    CacheInv noisy trig F sigs aw tr (touch st).master := by
  by_cases hm : st.master ≠ none
  · rw [touch_of_some st hm]; exact h
  · refine ⟨h.len_le, ?_, h.trig, fun _ _ => touch_master_ne st⟩
    intro hl
    by_cases hn : noisy = true
    · by_cases ha : aw = []
      · subst ha
        have : sigs = [] := List.eq_nil_of_length_eq_zero (by simpa using hl.symm)
        subst this; simp
      · exact absurd (h.master hn ha) hm
    · have hn' : noisy = false := by simpa using hn
      rw [h.full hl]
      apply List.map_congr_left
      intro s _
      exact hF hn' _ _ _ _

/-- what a refresh of the waveform cache produces, generically -/
theorem cacheInv_refresh {noisy : Bool} {trig : Wave → Bool} {F : Option Nat → List Wave → List Time → Wave}
    {sigs aw : List Wave} {tr : List Bool} {m : Option Nat}
    (h : CacheInv noisy trig F sigs aw tr m)
    (hm : noisy = true → aw.length < sigs.length → m ≠ none) :
    (catchAll (F m sigs) sigs aw tr).1 = sigs.map (fun s => F m sigs (timesOf s)) ∧
    CacheInv noisy trig F sigs (catchAll (F m sigs) sigs aw tr).1 (catchAll (F m sigs) sigs aw tr).2 m := by
  have h1 := catchAll_fst (F m sigs) sigs aw tr h.len_le h.full
  refine ⟨h1, ?_, ?_, catchAll_trigInv trig _ _ _ _ h.trig, ?_⟩
  · rw [h1]; simp
  · intro _; exact h1
  · intro hn hne
    by_cases hlt : aw.length < sigs.length
    · exact hm hn hlt
    · apply h.master hn
      intro ha; subst ha
      have : sigs = [] := by simpa using hlt
      subst this
      simp [catchAll] at hne

theorem refreshAll_spec (cfg : Cfg) (st : State) (h : Inv cfg st) :
    let st' := refreshAll cfg st
    Inv cfg st' ∧ st'.signals = st.signals ∧
    st'.allWaves = st.signals.map (fun s => fullWave cfg st'.master st.signals (timesOf s)) ∧
    (∀ e, st.master = some e → st'.master = some e) := by
  intro st'
  obtain ⟨hc, he⟩ := h
  have hF : cfg.noisy = false → ∀ m m' s t, fullWave cfg m s t = fullWave cfg m' s t :=
    fun hn m m' s t => fullWave_noiseless cfg hn m m' s t
  -- the state after the possible creation of the master
  let st1 := if cfg.noisy && needsFull st.signals st.allWaves then touch st else st
  have hs1 : st1.signals = st.signals := by
    simp only [st1]; split
    · exact touch_signals st
    · rfl
  have ha1 : st1.allWaves = st.allWaves := by
    simp only [st1]; split
    · exact touch_allWaves st
    · rfl
  have ht1 : st1.triggers = st.triggers := by
    simp only [st1]; split
    · exact touch_triggers st
    · rfl
  have hc1 : CacheInv cfg.noisy cfg.trig (fullWave cfg) st.signals st.allWaves st.triggers st1.master := by
    simp only [st1]; split
    · exact cacheInv_touch hF st hc
    · exact hc
  have he1 : ∀ e, st1.master = some e → e < st1.nextEpoch := by
    simp only [st1]; split
    · exact touch_epoch st he
    · exact he
  have hm1 : cfg.noisy = true → st.allWaves.length < st.signals.length → st1.master ≠ none := by
    intro hn hlt
    have : (cfg.noisy && needsFull st.signals st.allWaves) = true := by
      simp [hn, needsFull, hlt]
    simp only [st1, this, if_true]
    exact touch_master_ne st
  have hkeep : ∀ e, st.master = some e → st1.master = some e := by
    intro e hme
    simp only [st1]; split
    · rw [touch_of_some st (by simp [hme])]; exact hme
    · exact hme
  obtain ⟨r1, r2⟩ := cacheInv_refresh hc1 hm1
  have hst' : st' = { st1 with
      allWaves := (catchAll (fullWave cfg st1.master st1.signals) st1.signals st1.allWaves st1.triggers).1,
      triggers := (catchAll (fullWave cfg st1.master st1.signals) st1.signals st1.allWaves st1.triggers).2 } := rfl
  rw [hs1, ha1, ht1] at hst'
  refine ⟨⟨?_, ?_⟩, ?_, ?_, ?_⟩
  · rw [hst']; simpa [hs1] using r2
  · rw [hst']; exact he1
  · rw [hst'] <;> exact hs1
  · rw [hst']; exact r1
  · rw [hst']; exact hkeep

theorem refreshTrig_spec (cfg : Cfg) (st : State) (h : Inv cfg st) :
    Inv cfg (refreshTrig cfg st) ∧ (refreshTrig cfg st).triggers = st.allWaves.map cfg.trig := by
  obtain ⟨hc, he⟩ := h
  have := catchTrig_eq cfg.trig st.allWaves st.triggers hc.trig
  refine ⟨⟨⟨hc.len_le, hc.full, ?_, hc.master⟩, he⟩, this⟩
  show TrigInv cfg.trig st.allWaves (catchTrig cfg.trig st.allWaves st.triggers)
  rw [this]; exact trigInv_full _ _

theorem refreshAll_signals (cfg : Cfg) (st : State) : (refreshAll cfg st).signals = st.signals := by
  show (if cfg.noisy && needsFull st.signals st.allWaves then touch st else st).signals = st.signals
  split
  · exact touch_signals st
  · rfl

/-- where `is_hit_mc_truth` leaves the antenna: the refreshed caches, plus the noise master if a
triggered waveform had to be compared with its noise -/
theorem step_qHitMC_fst (cfg : Cfg) (st : State) :
    (step cfg st .qHitMC).1 = refreshTrig cfg (refreshAll cfg st) ∨
    (step cfg st .qHitMC).1 = touch (refreshTrig cfg (refreshAll cfg st)) := by
  simp only [step, stepWith]
  split
  · split
    · left; rfl
    · right; rfl
  · left; rfl

/-- the state in which `waveforms` / `is_hit` / `is_hit_mc_truth` leave the antenna reached by `ops` -/
def afterWaveforms (cfg : Cfg) (ops : List Op) : State := refreshTrig cfg (refreshAll cfg (run cfg ops))

/-- `is_hit_mc_truth` as a function of the refreshed state -/
def mcOut (cfg : Cfg) (st' : State) : State × Out :=
  let ws := triggeredOf st'.allWaves st'.triggers
  if cfg.noisy then
    let st'' := if ws.isEmpty then st' else touch st'
    (st'', .flag (ws.any (fun w => !cfg.trig (noiseWave cfg (st''.master.getD 0) (timesOf w)))))
  else (st', .flag (decide (0 < ws.length)))

theorem step_qHitMC_eq (cfg : Cfg) (st : State) :
    step cfg st .qHitMC = mcOut cfg (refreshTrig cfg (refreshAll cfg st)) := rfl

theorem mcOut_eq (cfg : Cfg) (X : State) (hI : Inv cfg X) (W : List Wave)
    (hws : triggeredOf X.allWaves X.triggers = W) :
    mcOut cfg X = (X, .flag (if cfg.noisy then
        W.any (fun w => !cfg.trig (noiseWave cfg (X.master.getD 0) (timesOf w)))
      else decide (0 < W.length))) := by
  unfold mcOut
  simp only [hws]
  by_cases hn : cfg.noisy = true
  · have hst : (if W.isEmpty then X else touch X) = X := by
      split
      · rfl
      · rename_i hne
        apply touch_of_some
        apply hI.1.master hn
        intro hnil
        apply hne
        rw [← hws]
        simp [triggeredOf, hnil]
    simp only [hn, if_true, hst]
  · have hn' : cfg.noisy = false := by simpa using hn
    simp only [hn', Bool.false_eq_true, if_false]

theorem inv_init (cfg : Cfg) : Inv cfg init := by
  refine ⟨⟨by simp [init], by simp [init], by simp [init, TrigInv], by simp [init]⟩, by simp [init]⟩

theorem inv_touch (cfg : Cfg) (st : State) (h : Inv cfg st) : Inv cfg (touch st) := by
  obtain ⟨hc, he⟩ := h
  refine ⟨?_, touch_epoch st he⟩
  rw [touch_signals, touch_allWaves, touch_triggers]
  exact cacheInv_touch (fun hn m m' s t => fullWave_noiseless cfg hn m m' s t) st hc

theorem inv_step (cfg : Cfg) (st : State) (op : Op) (h : Inv cfg st) : Inv cfg (step cfg st op).1 := by
  cases op with
  | recv s =>
    obtain ⟨hc, he⟩ := h
    refine ⟨⟨?_, ?_, hc.trig, hc.master⟩, he⟩
    · have := hc.len_le; simp [step, stepWith]; omega
    · intro hl; have := hc.len_le; simp [step, stepWith] at hl; omega
  | qAll => exact (refreshAll_spec cfg st h).1
  | qWaves => exact (refreshTrig_spec cfg _ (refreshAll_spec cfg st h).1).1
  | qHit => exact (refreshTrig_spec cfg _ (refreshAll_spec cfg st h).1).1
  | qFull ts =>
    show Inv cfg (if cfg.noisy then touch st else st)
    split
    · exact inv_touch cfg st h
    · exact h
  | qHitDuring ts =>
    show Inv cfg (if cfg.noisy then touch st else st)
    split
    · exact inv_touch cfg st h
    · exact h
  | makeNoise ts => exact inv_touch cfg st h
  | clear reset =>
    obtain ⟨hc, he⟩ := h
    refine ⟨⟨by simp [step, stepWith], by simp [step, stepWith], by simp [step, stepWith, TrigInv],
      by simp [step, stepWith]⟩, ?_⟩
    intro e hme
    simp only [step, stepWith] at hme ⊢
    split at hme
    · simp at hme
    · exact he e hme
  | qHitMC =>
    have h0 := (refreshTrig_spec cfg _ (refreshAll_spec cfg st h).1).1
    rcases step_qHitMC_fst cfg st with h1 | h1
    · rw [h1]; exact h0
    · rw [h1]; exact inv_touch cfg _ h0

theorem inv_foldl (cfg : Cfg) (ops : List Op) (st : State) (h : Inv cfg st) :
    Inv cfg (ops.foldl (fun st op => (step cfg st op).1) st) := by
  induction ops generalizing st with
  | nil => exact h
  | cons op r ih => exact ih _ (inv_step cfg st op h)

theorem inv_run (cfg : Cfg) (ops : List Op) : Inv cfg (run cfg ops) := inv_foldl cfg ops init (inv_init cfg)

/-! ### the spec: the list of signals received since the last clear -/
def recvStep (acc : List Wave) : Op → List Wave
  | .recv s => acc ++ [s]
  | .clear _ => []
  | _ => acc
def received (ops : List Op) : List Wave := ops.foldl recvStep []

/-- the waveforms of every received signal in the state reached by `ops` (noise master `m`):
`full_waveform(s.times)` for each `s`, computed from all received signals -/
def allFull (cfg : Cfg) (m : Option Nat) (ops : List Op) : List Wave :=
  (received ops).map (fun s => fullWave cfg m (received ops) (timesOf s))

theorem step_signals (cfg : Cfg) (st : State) (op : Op) :
    (step cfg st op).1.signals = (match op with
      | .recv s => st.signals ++ [s]
      | .clear _ => []
      | _ => st.signals) := by
  by_cases hq : op = .qHitMC
  · subst hq
    show (step cfg st .qHitMC).1.signals = st.signals
    rcases step_qHitMC_fst cfg st with h1 | h1
    · rw [h1]; exact refreshAll_signals cfg st
    · rw [h1, touch_signals]; exact refreshAll_signals cfg st
  cases op <;> simp only [step, stepWith, refreshTrig, refreshAllWith] <;>
    first
    | rfl
    | (split <;> first | rfl | exact touch_signals st)
    | exact touch_signals st
    | (exact absurd rfl hq)
    | skip
  all_goals (split <;> first | rfl | exact touch_signals st)

theorem run_signals (cfg : Cfg) (ops : List Op) : (run cfg ops).signals = received ops := by
  have : ∀ (st : State) (acc : List Wave), st.signals = acc →
      (ops.foldl (fun st op => (step cfg st op).1) st).signals = ops.foldl recvStep acc := by
    induction ops with
    | nil => intro st acc h; exact h
    | cons op r ih =>
      intro st acc h
      apply ih
      rw [step_signals, ← h]
      cases op <;> rfl
  exact this init [] rfl

theorem refreshAll_spec' (cfg : Cfg) (st : State) (e : Nat) (h : st.master = some e) :
    (refreshAll cfg st).master = some e := by
  show (if cfg.noisy && needsFull st.signals st.allWaves then touch st else st).master = some e
  split
  · rw [touch_of_some st (by simp [h])]; exact h
  · exact h

/-- a query on an antenna leaves the noise master alone or creates it -/
theorem step_query_master (cfg : Cfg) (st : State) (op : Op) (hq : isQuery op = true) :
    (step cfg st op).1.master = st.master ∨ (step cfg st op).1.master = (touch st).master := by
  cases op with
  | recv s => simp [isQuery] at hq
  | clear r => simp [isQuery] at hq
  | makeNoise ts => right; rfl
  | qAll => simp only [step, stepWith, refreshAllWith]; split <;> first | (left; rfl) | (right; rfl)
  | qWaves => simp only [step, stepWith, refreshTrig, refreshAllWith]; split <;> first | (left; rfl) | (right; rfl)
  | qHit => simp only [step, stepWith, refreshTrig, refreshAllWith]; split <;> first | (left; rfl) | (right; rfl)
  | qFull ts => simp only [step, stepWith]; split <;> first | (left; rfl) | (right; rfl)
  | qHitDuring ts => simp only [step, stepWith]; split <;> first | (left; rfl) | (right; rfl)
  | qHitMC =>
    -- the refresh keeps the master or creates it exactly as `touch st` would; a later `touch` agrees
    have hR : ((refreshAll cfg st).master = st.master ∧ (refreshAll cfg st).nextEpoch = st.nextEpoch) ∨
        (refreshAll cfg st).master = (touch st).master ∧ (refreshAll cfg st).nextEpoch = (touch st).nextEpoch := by
      show ((if cfg.noisy && needsFull st.signals st.allWaves then touch st else st).master = st.master ∧
          (if cfg.noisy && needsFull st.signals st.allWaves then touch st else st).nextEpoch = st.nextEpoch) ∨
        ((if cfg.noisy && needsFull st.signals st.allWaves then touch st else st).master = (touch st).master ∧
          (if cfg.noisy && needsFull st.signals st.allWaves then touch st else st).nextEpoch = (touch st).nextEpoch)
      split
      · right; exact ⟨rfl, rfl⟩
      · left; exact ⟨rfl, rfl⟩
    have hT : ∀ a b : State, a.master = b.master → a.nextEpoch = b.nextEpoch →
        (touch a).master = (touch b).master := by
      intro a b h1 h2
      unfold touch
      cases ha : a.master with
      | some x => rw [← h1, ha]; simp only []; rw [← h1, ha]
      | none => rw [← h1, ha]; simp [h2]
    rcases step_qHitMC_fst cfg st with h1 | h1
    · rw [h1]
      rcases hR with h | h
      · left; exact h.1
      · right; exact h.1
    · rw [h1]
      right
      rcases hR with h | h
      · exact hT _ _ h.1 h.2
      · have : (touch (refreshTrig cfg (refreshAll cfg st))).master = (touch (touch st)).master :=
          hT _ _ h.1 h.2
        rw [this, touch_of_some (touch st) (touch_master_ne st)]

/-! ### the antenna system -/
def SysInv (c : SysCfg) (st : SysState) : Prop :=
  Inv c.ant st.ant ∧
  CacheInv c.ant.noisy c.trig (sysFull c) st.ant.signals st.allWaves st.triggers st.ant.master ∧
  st.sigs = (st.ant.signals.take st.sigs.length).map (procSig c) ∧
  st.sigs.length ≤ st.ant.signals.length

theorem sysInv_init (c : SysCfg) : SysInv c sysInit := by
  refine ⟨inv_init _, ⟨by simp [sysInit, init], by simp [sysInit, init], by simp [sysInit, TrigInv],
    by simp [sysInit]⟩, by simp [sysInit], by simp [sysInit]⟩

theorem sysRefreshAll_spec (c : SysCfg) (st : SysState) (h : SysInv c st) :
    let st' := sysRefreshAll c st
    SysInv c st' ∧ st'.ant.signals = st.ant.signals ∧ st'.sigs = st.sigs ∧
    st'.allWaves = st.ant.signals.map (fun s => sysFull c st'.ant.master st.ant.signals (timesOf s)) ∧
    (∀ e, st.ant.master = some e → st'.ant.master = some e) := by
  intro st'
  obtain ⟨hi, hc, hs, hsl⟩ := h
  have hF : c.ant.noisy = false → ∀ m m' s t, sysFull c m s t = sysFull c m' s t :=
    fun hn m m' s t => sysFull_noiseless c hn m m' s t
  let a1 := if c.ant.noisy && needsFull st.ant.signals st.allWaves then touch st.ant else st.ant
  have hs1 : a1.signals = st.ant.signals := by
    simp only [a1]; split
    · exact touch_signals _
    · rfl
  have hi1 : Inv c.ant a1 := by
    simp only [a1]; split
    · exact inv_touch _ _ hi
    · exact hi
  have hc1 : CacheInv c.ant.noisy c.trig (sysFull c) st.ant.signals st.allWaves st.triggers a1.master := by
    simp only [a1]; split
    · exact cacheInv_touch hF st.ant hc
    · exact hc
  have hm1 : c.ant.noisy = true → st.allWaves.length < st.ant.signals.length → a1.master ≠ none := by
    intro hn hlt
    have : (c.ant.noisy && needsFull st.ant.signals st.allWaves) = true := by
      simp [hn, needsFull, hlt]
    simp only [a1, this, if_true]
    exact touch_master_ne _
  have hkeep : ∀ e, st.ant.master = some e → a1.master = some e := by
    intro e hme
    simp only [a1]; split
    · rw [touch_of_some st.ant (by simp [hme])]; exact hme
    · exact hme
  obtain ⟨r1, r2⟩ := cacheInv_refresh hc1 hm1
  have hst' : st' = ⟨a1, st.sigs,
      (catchAll (sysFull c a1.master a1.signals) a1.signals st.allWaves st.triggers).1,
      (catchAll (sysFull c a1.master a1.signals) a1.signals st.allWaves st.triggers).2⟩ := rfl
  rw [hs1] at hst'
  refine ⟨⟨?_, ?_, ?_, ?_⟩, ?_, ?_, ?_, ?_⟩
  · rw [hst']; exact hi1
  · rw [hst']; simpa [hs1] using r2
  · rw [hst']; simpa [hs1] using hs
  · rw [hst']; simpa [hs1] using hsl
  · rw [hst'] <;> exact hs1
  · rw [hst']
  · rw [hst']; exact r1
  · rw [hst']; exact hkeep

theorem sysRefreshTrig_spec (c : SysCfg) (st : SysState) (h : SysInv c st) :
    SysInv c (sysRefreshTrig c st) ∧ (sysRefreshTrig c st).triggers = st.allWaves.map c.trig := by
  obtain ⟨hi, hc, hs, hsl⟩ := h
  have := catchTrig_eq c.trig st.allWaves st.triggers hc.trig
  refine ⟨⟨hi, ⟨hc.len_le, hc.full, ?_, hc.master⟩, hs, hsl⟩, this⟩
  show TrigInv c.trig st.allWaves (catchTrig c.trig st.allWaves st.triggers)
  rw [this]; exact trigInv_full _ _

theorem sysInv_touch (c : SysCfg) (st : SysState) (h : SysInv c st) :
    SysInv c { st with ant := touch st.ant } := by
  obtain ⟨hi, hc, hs, hsl⟩ := h
  refine ⟨inv_touch _ _ hi, ?_, ?_, ?_⟩
  · show CacheInv _ _ _ (touch st.ant).signals st.allWaves st.triggers (touch st.ant).master
    rw [touch_signals]
    exact cacheInv_touch (fun hn m m' s t => sysFull_noiseless c hn m m' s t) st.ant hc
  · show st.sigs = ((touch st.ant).signals.take st.sigs.length).map (procSig c)
    rw [touch_signals]; exact hs
  · show st.sigs.length ≤ (touch st.ant).signals.length
    rw [touch_signals]; exact hsl

theorem sysInv_step (c : SysCfg) (st : SysState) (op : SysOp) (h : SysInv c st) :
    SysInv c (sysStep c st op).1 := by
  cases op with
  | recv s =>
    obtain ⟨hi, hc, hs, hsl⟩ := h
    refine ⟨inv_step _ _ _ hi, ⟨?_, ?_, hc.trig, hc.master⟩, ?_, ?_⟩
    · have := hc.len_le; simp [sysStep, step, stepWith]; omega
    · intro hl; have := hc.len_le; simp [sysStep, step, stepWith] at hl; omega
    · simp only [sysStep, step, stepWith]
      rw [List.take_append_of_le_length hsl]; exact hs
    · simp [sysStep, step, stepWith]; omega
  | qSignals =>
    obtain ⟨hi, hc, hs, hsl⟩ := h
    have key : st.sigs ++ (st.ant.signals.drop st.sigs.length).map (procSig c)
        = st.ant.signals.map (procSig c) := by
      have h2 : st.sigs ++ (st.ant.signals.drop st.sigs.length).map (procSig c) =
          (st.ant.signals.take st.sigs.length).map (procSig c) ++
          (st.ant.signals.drop st.sigs.length).map (procSig c) := by rw [← hs]
      rw [h2, ← List.map_append, List.take_append_drop]
    refine ⟨hi, hc, ?_, ?_⟩
    · simp only [sysStep]; rw [key]; simp
    · simp only [sysStep]; rw [key]; simp
  | qAll => exact (sysRefreshAll_spec c st h).1
  | qWaves => exact (sysRefreshTrig_spec c _ (sysRefreshAll_spec c st h).1).1
  | qHit => exact (sysRefreshTrig_spec c _ (sysRefreshAll_spec c st h).1).1
  | qFull ts =>
    show SysInv c { st with ant := if c.ant.noisy then touch st.ant else st.ant }
    split
    · exact sysInv_touch c st h
    · exact h
  | qHitDuring ts =>
    show SysInv c { st with ant := if c.ant.noisy then touch st.ant else st.ant }
    split
    · exact sysInv_touch c st h
    · exact h
  | makeNoise ts => exact sysInv_touch c st h
  | clear reset =>
    obtain ⟨hi, hc, hs, hsl⟩ := h
    refine ⟨inv_step _ _ _ hi, ⟨by simp [sysStep], by simp [sysStep, step, stepWith],
      by simp [sysStep, TrigInv], by simp [sysStep]⟩, by simp [sysStep], by simp [sysStep]⟩
  | qHitMC =>
    have h0 := (sysRefreshTrig_spec c _ (sysRefreshAll_spec c st h).1).1
    simp only [sysStep]
    split
    · exact h0
    · exact sysInv_touch c _ h0
  | inner op =>
    simp only [sysStep]
    split
    · rename_i hq
      obtain ⟨hi, hc, hs, hsl⟩ := h
      have hsig : (step c.ant st.ant op).1.signals = st.ant.signals := by
        rw [step_signals]; cases op <;> first | rfl | (simp [isQuery] at hq)
      refine ⟨inv_step _ _ _ hi, ?_, ?_, ?_⟩
      · show CacheInv _ _ _ (step c.ant st.ant op).1.signals st.allWaves st.triggers
          (step c.ant st.ant op).1.master
        rw [hsig]
        rcases step_query_master c.ant st.ant op hq with hm | hm
        · rw [hm]; exact hc
        · rw [hm]
          exact cacheInv_touch (fun hn m m' s t => sysFull_noiseless c hn m m' s t) st.ant hc
      · show st.sigs = ((step c.ant st.ant op).1.signals.take st.sigs.length).map (procSig c)
        rw [hsig]; exact hs
      · show st.sigs.length ≤ (step c.ant st.ant op).1.signals.length
        rw [hsig]; exact hsl
    · exact h

theorem sysInv_foldl (c : SysCfg) (ops : List SysOp) (st : SysState) (h : SysInv c st) :
    SysInv c (ops.foldl (fun st op => (sysStep c st op).1) st) := by
  induction ops generalizing st with
  | nil => exact h
  | cons op r ih => exact ih _ (sysInv_step c st op h)

theorem sysInv_run (c : SysCfg) (ops : List SysOp) : SysInv c (sysRun c ops) :=
  sysInv_foldl c ops sysInit (sysInv_init c)

end Ant
